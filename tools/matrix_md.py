#!/usr/bin/env python3
"""Renders seeded/MATRIX.tsv (+ seeded/benign/RESULTS.tsv) as seeded/MATRIX.md."""
import csv, json, os
rows = list(csv.reader(open('/verif/seeded/MATRIX.tsv'), delimiter='\t'))
hdr, rows = rows[0], sorted(rows[1:], key=lambda r: (r[0].split('-')[1:], r[0]))
ids = hdr[2:]
out = ["# Seeded property-breaking changes x checks (quick tier)\n",
       "`X` = the check exits 1 with a VIOLATION line on the tree with the change applied; blank = exits 0; `·` = not run (the check of the seed's own property had already fired: tools/own_first.sh). ",
       "The column of the seed's own property is marked with `[X]`. Every change compiles and passes the repository's 164 tests.\n",
       "| seed | origin | needs to manifest | " + " | ".join(i[1:] for i in ids) + " |",
       "|---|---|---|" + "---|" * len(ids)]
n_own = 0
for r in rows:
    name = r[0]; prop = name.split('-')[0]
    meta = {}
    try: meta = json.load(open(f'/verif/seeded/{name}/meta.json'))
    except Exception: pass
    origin = 'sub-agent wave 23 (blind-spot pull requests, second half)' if 'subagent23' in name else 'sub-agent wave 22 (pull requests aimed at the verifier\'s blind spots)' if 'subagent22' in name else 'sub-agent wave 20 (maintenance pull requests, second half)' if 'subagent20' in name else 'sub-agent wave 19 (maintenance pull requests)' if 'subagent19' in name else 'sub-agent wave 18 (two dimensions meeting, third round)' if 'subagent18' in name else 'sub-agent wave 17 (two dimensions meeting, second round)' if 'subagent17' in name else 'sub-agent wave 16 (two dimensions meeting)' if 'subagent16' in name else 'sub-agent wave 15 (blind spots, second half)' if 'subagent15' in name else 'sub-agent wave 14 (blind spots)' if 'subagent14' in name else 'sub-agent wave 12 (only at scale)' if 'subagent12' in name else 'sub-agent wave 10 (wrong only in context)' if 'subagent10' in name else 'sub-agent wave 9 (deep histories)' if 'subagent9' in name else 'refactor meant to be benign (wave 8), found broken' if 'refactor8' in name else 'sub-agent wave 7 (narrow input classes)' if 'subagent7' in name else 'sub-agent wave 6 (conjunctions)' if 'subagent6' in name else 'sub-agent wave 5' if 'subagent5' in name else 'sub-agent wave 1' if name.endswith('subagent1') else 'sub-agent wave 2' if 'subagent2' in name else 'sub-agent wave 3 (scale)' if 'subagent3' in name else 'own (DESIGN §2 mutant list)'
    need = (meta.get('needs_to_manifest') or meta.get('what') or '')
    if origin.startswith('own'): need = meta.get('what', '')
    cells = []
    for i, c in zip(ids, r[2:]):
        x = 'X' if c == 'CAUGHT' else ('!' + c if c.startswith('ERR') else ('·' if c == 'NR' else ''))
        if i == prop and x == 'X': x = '[X]'; n_own += 1
        cells.append(x)
    out.append(f"| {name} | {origin} | {need} | " + " | ".join(cells) + " |")
out.append(f"\n{len(rows)} changes; {n_own} caught by the check of the property they were written against; "
           f"{sum(1 for r in rows if 'CAUGHT' in r[2:])} caught by at least one check.\n")
b = '/verif/seeded/benign/RESULTS.tsv'
if os.path.exists(b):
    br = list(csv.reader(open(b), delimiter='\t'))
    out.append("## Property-preserving refactors (no check may fire)\n")
    out.append("| refactor | what | repository suite | checks firing |")
    out.append("|---|---|---|---|")
    for r in br[1:]:
        what = open(f'/verif/seeded/benign/{r[0]}/what.txt').read().strip().split('\n')
        firing = [i for i, c in zip(br[0][2:], r[2:]) if c != '-']
        out.append(f"| {r[0]} | {what[0]} | {what[1].replace('repository suite: ','')} | {', '.join(firing) if firing else 'none'} |")
open('/verif/seeded/MATRIX.md', 'w').write('\n'.join(out) + '\n')
print('\n'.join(out[-14:]))
