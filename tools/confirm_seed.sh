#!/bin/bash
# usage: tools/confirm_seed.sh <patch.diff> <demo.rs> <name>
# In a scratch worktree of /repo's HEAD: the patch applies and compiles, the repository's own
# suite passes with it, the demonstration fails with it and passes without it.
set -u
patch="$1"; demo="$2"; name="$3"
wt=${CONFIRM_WT:-/tmp/confirm/wt}
if [ ! -d "$wt" ]; then
  mkdir -p /tmp/confirm
  git -C /repo worktree add -q --detach "$wt" HEAD || exit 2
  cp -r /repo/target "$wt/target" 2>/dev/null
fi
cd "$wt" || exit 2
git checkout -q --detach "$(git -C /repo rev-parse HEAD)" 2>/dev/null
git checkout -q -- . ; rm -f tests/seed_demo_*.rs
cp "$demo" "tests/seed_demo_$name.rs"
out_clean=$(cargo test --offline --test "seed_demo_$name" 2>&1); rc_clean=$?
git apply "$patch" || { echo "RESULT $name: patch does not apply"; exit 1; }
build=$(cargo build --offline 2>&1); rc_build=$?
rm -f "tests/seed_demo_$name.rs"
suite=$(cargo test --offline 2>&1); rc_suite=$?
cp "$demo" "tests/seed_demo_$name.rs"
out_mut=$(cargo test --offline --test "seed_demo_$name" 2>&1); rc_mut=$?
git checkout -q -- . ; rm -f tests/seed_demo_*.rs
npass=$(echo "$suite" | grep -E "^test result: ok" | sed -E 's/.*ok\. ([0-9]+) passed.*/\1/' | paste -sd+ | bc)
echo "RESULT $name: build_rc=$rc_build suite_rc=$rc_suite suite_passed=$npass demo_clean_rc=$rc_clean demo_with_change_rc=$rc_mut"
if [ $rc_build -eq 0 ] && [ $rc_suite -eq 0 ] && [ $rc_clean -eq 0 ] && [ $rc_mut -ne 0 ]; then echo "CONFIRMED $name"; exit 0; else echo "NOT-CONFIRMED $name"; echo "$out_clean" | tail -5; echo "$out_mut" | tail -5; exit 1; fi
