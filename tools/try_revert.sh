#!/bin/bash
# usage: tools/try_revert.sh <fix-commit> <tier> <ID>...  — undo one "fix:" commit in /repo's working tree, run checks, restore.
set -u
c="$1"; shift
git -C /repo diff "$c" "$c^" -- src > /tmp/.revert.$$.diff
/verif/tools/try_patch.sh /tmp/.revert.$$.diff "$@"; rc=$?
rm -f /tmp/.revert.$$.diff
exit $rc
