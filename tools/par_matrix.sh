#!/bin/bash
# usage: tools/par_matrix.sh <tier> <jobs> <seed dir>...
# Seed x check matrix, <jobs> seeds at a time, each in its own scratch slot (tools/par_try.sh).
# Appends/replaces rows of seeded/MATRIX.tsv (or seeded/benign/RESULTS.tsv for dirs under benign/).
set -u
tier="$1"; jobs="$2"; shift 2
ids="C01 C02 C03 C04 C05 C06 C07 C08 C09 C10 C11 C12 C13 C14 C15 C16 C17 C18 C19 C20"
tmp=$(mktemp -d /tmp/parmx.XXXX)
# snapshot of the harness sources, so that edits made while the matrix runs do not leak into it
rsync -a /verif/harness/ "$tmp/harness-snap/"; export HARNESS_SRC="$tmp/harness-snap"
i=0
for s in "$@"; do
  s=${s%/}; name=$(basename "$s"); slot=$((i % jobs)); i=$((i+1))
  echo "$slot $s $name" >> "$tmp/q.$slot"
done
for slot in $(seq 0 $((jobs-1))); do
  [ -f "$tmp/q.$slot" ] || continue
  (
    while read -r sl s name; do
      RAYON_NUM_THREADS=$((16 / jobs > 2 ? 16 / jobs : 2)) /verif/tools/par_try.sh "${SLOT_PREFIX:-m}$sl" "$s/patch.diff" "$tier" $ids > "$tmp/$name.res" 2>"$tmp/$name.err"
      row="$name\t$tier"
      for id in $ids; do
        rc=$(grep "^$id " "$tmp/$name.res" | head -1 | cut -d' ' -f2)
        case "$s" in */benign/*) hit="FALSE-ALARM";; *) hit="CAUGHT";; esac
        case "${rc:-9}" in 0) c="-";; 1) c="$hit";; *) c="ERR${rc:-?}";; esac
        row="$row\t$c"
      done
      echo -e "$row" > "$tmp/$name.row"
      echo -e "$row"
      grep " 1 " "$tmp/$name.res" | sed "s/^/    $name: /" | cut -c1-260
    done < "$tmp/q.$slot"
  ) &
done
wait
for s in "$@"; do
  s=${s%/}; name=$(basename "$s")
  case "$s" in */benign/*) out=/verif/seeded/benign/RESULTS.tsv;; *) out=/verif/seeded/MATRIX.tsv;; esac
  [ -f "$tmp/$name.row" ] || continue
  grep -v "^$name	$tier	" "$out" > "$out.tmp"; mv "$out.tmp" "$out"
  cat "$tmp/$name.row" >> "$out"
done
echo "details in $tmp"
