#!/bin/bash
# usage: tools/benign.sh <tier> — run every check against every property-preserving refactor in seeded/benign;
# any CAUGHT cell is a false alarm of that check. Writes seeded/benign/RESULTS.tsv
set -u
tier="$1"; shift
dirs=("$@"); [ ${#dirs[@]} -eq 0 ] && dirs=(/verif/seeded/benign/*/)
ids="C01 C02 C03 C04 C05 C06 C07 C08 C09 C10 C11 C12 C13 C14 C15 C16 C17 C18 C19 C20"
out=/verif/seeded/benign/RESULTS.tsv
[ -f "$out" ] || echo -e "refactor\ttier\t$(echo $ids | tr ' ' '\t')" > "$out"
for s in "${dirs[@]}"; do
  s=${s%/}; name=$(basename "$s")
  git -C /repo diff --quiet || { echo "/repo dirty" >&2; exit 2; }
  git -C /repo apply "$s/patch.diff" || { echo "$name: patch does not apply" >&2; continue; }
  row="$name\t$tier"
  for id in $ids; do
    /verif/check $id $tier >/tmp/.benign.out 2>&1; rc=$?
    case $rc in 0) c="-";; 1) c="FALSE-ALARM"; grep -A1 VIOLATION /tmp/.benign.out | head -4 >&2;; *) c="ERR$rc";; esac
    row="$row\t$c"
  done
  git -C /repo checkout -- .
  grep -v "^$name	" "$out" > "$out.tmp"; mv "$out.tmp" "$out"
  echo -e "$row" | tee -a "$out"
done
for id in $ids; do /verif/check $id quick >/dev/null 2>&1; done
