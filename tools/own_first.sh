#!/bin/bash
# usage: tools/own_first.sh <tier> <jobs> <seed dir>...
# Cheaper than par_matrix.sh for seeds: the check of the seed's own property runs first (in a
# scratch slot, tools/par_try.sh); only if it stays quiet do the other nineteen run. Cells of checks
# that were not run are written as "NR" into seeded/MATRIX.tsv (MATRIX.md shows them as a dot).
set -u
tier="$1"; jobs="$2"; shift 2
all="C01 C02 C03 C04 C05 C06 C07 C08 C09 C10 C11 C12 C13 C14 C15 C16 C17 C18 C19 C20"
tmp=$(mktemp -d /tmp/ownf.XXXX)
rsync -a /verif/harness/ "$tmp/harness-snap/"; export HARNESS_SRC="$tmp/harness-snap"
i=0
for s in "$@"; do s=${s%/}; echo "$s" >> "$tmp/q.$((i % jobs))"; i=$((i+1)); done
for slot in $(seq 0 $((jobs-1))); do
  [ -f "$tmp/q.$slot" ] || continue
  (
    while read -r s; do
      name=$(basename "$s"); own=${name%%-*}
      RAYON_NUM_THREADS=$((16 / jobs > 2 ? 16 / jobs : 2)) /verif/tools/par_try.sh "${SLOT_PREFIX:-o}$slot" "$s/patch.diff" "$tier" $own > "$tmp/$name.res" 2>"$tmp/$name.err"
      rc=$(grep "^$own " "$tmp/$name.res" | head -1 | cut -d' ' -f2)
      if [ "${rc:-9}" != "1" ]; then
        rest=$(echo $all | tr ' ' '\n' | grep -v "^$own$" | tr '\n' ' ')
        RAYON_NUM_THREADS=$((16 / jobs > 2 ? 16 / jobs : 2)) /verif/tools/par_try.sh "${SLOT_PREFIX:-o}$slot" "$s/patch.diff" "$tier" $rest >> "$tmp/$name.res" 2>>"$tmp/$name.err"
      fi
      row="$name\t$tier"
      for id in $all; do
        rc=$(grep "^$id " "$tmp/$name.res" | head -1 | cut -d' ' -f2)
        case "${rc:-N}" in 0) c="-";; 1) c="CAUGHT";; N) c="NR";; *) c="ERR$rc";; esac
        row="$row\t$c"
      done
      echo -e "$row" > "$tmp/$name.row"; echo -e "$row"
    done < "$tmp/q.$slot"
  ) &
done
wait
for s in "$@"; do
  s=${s%/}; name=$(basename "$s"); out=/verif/seeded/MATRIX.tsv
  [ -f "$tmp/$name.row" ] || continue
  grep -v "^$name	$tier	" "$out" > "$out.tmp"; mv "$out.tmp" "$out"
  cat "$tmp/$name.row" >> "$out"
done
echo "details in $tmp"
