#!/usr/bin/env python3
"""Regenerates /verif/MANIFEST.json from the table below (kept next to the checks so the two stay in step)."""
import json, subprocess, os
HOOK_COMMITS = []
CHECKS = {
 # id: (category, technique, level text, level note, design ref)
 "C01": ("model_checking",
         "stateless bounded-exhaustive exploration of transport schedules (cut-position sets) on the real run_on, oracle = scripted conversation",
         "Every execution is the real run_on over a scripted in-memory transport. All 2^n ways of cutting streams of <= 17/21 command bytes into reads, all <=2/3-cut schedules over handshake+3 commands, <=2 cuts around the 4096/8192 buffer thresholds and <=1/2 cuts around every fragment header of 16-32 MiB payloads are run; the shim's callback log must equal the scripted commands byte for byte and every reply must decode.",
         "Trusted: the harness's transport/decoder (refwire). Bounds: streams longer than 21 bytes are covered up to 3 cuts, multi-megabyte payloads up to 2 cuts near fragment headers; 1-byte reads over 32 MiB are not run.",
         "DESIGN.md §2 C01"),
 "C02": ("model_checking",
         "exhaustive enumeration of command histories (depth <= 4/5 over a 42-command alphabet) on the real run_on against a routing reference model",
         "All command sequences up to the depth over an alphabet with near-miss prefixes, invalid UTF-8, boundary statement ids, edge-decorated schema names and QUIT, plus every USE spelling of the stated grammar, are run pipelined on a real connection; the complete callback log, run_on's result and a strict decode of all replies must equal the routing model.",
         "Trusted: routing model (a match on the command byte) and refwire. Spellings the property does not define (mixed case) are left out rather than guessed.",
         "DESIGN.md §2 C02"),
 "C03": ("model_checking",
         "exhaustive enumeration of writer-API programs through the typestate automaton (<= 7/10 calls, text+binary, pairs, wide variants) against a reference interpreter and a strict client decoder",
         "Every complete writer program up to the depth is interpreted by a 30-line reference interpreter into predicted response units and run on the real crate; the strict decoder must see exactly those units, more-results flags, and an unshifted sentinel PING; shape-contradicting programs must be refused at or before the call closing the malformed row and nothing malformed may reach the transport.",
         "Trusted: the reference interpreter and refwire. Column counts 0/1/2 (and 3/300 for shorter programs); values are small integers and NULL (value fidelity is C06/C07).",
         "DESIGN.md §2 C03"),
 "C05": ("model_checking",
         "exhaustive enumeration request-sequence-id x response-length (1..520 packets) x protocol, fragmented requests, handshake ids, on the real run_on",
         "Every request id 0..255 with responses of 1 and 4..520 packets (text and binary), a second command with an unrelated id, every handshake id and 2-3-fragment requests around the wrap; every server packet's id must be (last request id + 1 + i) mod 256.",
         "Trusted: refwire's framer. Quick covers all ids x boundary lengths and boundary ids x all lengths; thorough the full product.",
         "DESIGN.md §2 C05"),
 "C10": ("model_checking",
         "explicit-state model checking: full history tree (depth 4/5) plus BFS over registry-model states with per-transition re-execution of the implementation from two witnesses",
         "Histories over PREPARE(ok|rejected)/EXECUTE/LONG_DATA/CLOSE on ids 1,2 and a never-prepared id 3: the whole observable trace of each history (callbacks, result, decoded replies) must equal the registry reference model; BFS over model states validates every (state, action) by re-running witness+action on the real crate.",
         "Trusted: the registry model (a BTreeMap) and refwire. State merging in the BFS assumes hidden state is a function of the model state; this is tested with two witnesses per state and not assumed by the tree.",
         "DESIGN.md §2 C10"),
 "C11": ("model_checking",
         "exhaustive enumeration of handshake responses (all 2^16 capability words x upper words, both layouts, 262 user names x trailers, sequence ids, TLS configured or not, accept/reject, pipelining) on the real run_on",
         "Each handshake is a full connection; the greeting is decoded by refwire and mysql_common, the gate order (after_authentication exactly once with the exact user bytes before any command; reject => ERR 1045/28000 + the shim's error + no command callback; CLIENT_SSL without TLS => refused before the shim) is checked on every one.",
         "Trusted: refwire, mysql_common's HandshakePacket. Real TLS handshakes are C18.",
         "DESIGN.md §2 C11"),
 "C12": ("model_checking",
         "stateless exploration of arrival schedules (all batchings x cut sets) with an invariant evaluated at every read() of the real run_on",
         "For command lists up to 4/5 commands every subset of message boundaries at which the client waits for its replies (lock-step to fully pipelined) and every cut set of <= 2 positions is run; at each read() the flushed output must already hold a complete, strictly decoded reply for every message fully delivered; a read while the waiting client holds back bytes is a hang.",
         "Trusted: the transport's flushed watermark and refwire. Unflushed bytes are invisible to the simulated client.",
         "DESIGN.md §2 C12"),
 "C13": ("model_checking",
         "exhaustive enumeration kinds x reporting sites x message classes on the real run_on, plus table checks against pinned and independent tables",
         "Every ErrorKind variant (list regenerated from the tree by build.rs) is reported from 12 sites with 7/8 message classes; the client-decoded ERR must carry exactly (code, SQLSTATE, message) and mysql_common must agree; per variant the code<->kind conversions, the pinned golden table, the mysql client crate's code table and 46 documented anchors are compared.",
         "Trusted: the table pinned in /verif/data equals MariaDB's published table beyond the anchors and the client crate's codes.",
         "DESIGN.md §2 C13"),
 "C14": ("model_checking",
         "exhaustive enumeration over a boundary lattice of u64 pairs x contexts x protocol, and every zero-column row count 0..300, on the real run_on",
         "About 190^2 (rows, last_insert_id) pairs across all length-encoded classes in 4 completion contexts, text and binary, and zero-column resultsets of every size up to 300 (plus 65535/65536/70000) built four ways; the OK packet decoded by refwire and by mysql_common must carry exactly the values.",
         "64-bit components are covered at the boundary lattice (every 2^k, 2^k+-1, class edges), not exhaustively.",
         "DESIGN.md §2 C14"),
 "C15": ("model_checking",
         "exhaustive enumeration of (Rust integer type x column type x signedness x value) at the public to_mysql_bin seam and through write_col; 8/16-bit exhaustive, 32-bit exhaustive in thorough",
         "For all 12 value sources x 12 column variants every value of the 8/16-bit types, boundary lattices of the wider ones (all 2^32 values of u32/i32 into the 32/64-bit columns in thorough) are encoded by the real encoder and decoded by column width and signedness: accepted => identical number and exact width; contained type => accepted; pointer-sized => accepted iff it fits.",
         "64-bit domains at boundary lattices. A panic counts as a refusal (tallied).",
         "DESIGN.md §2 C15"),
 "C16": ("model_checking",
         "explicit-state model checking: full history tree (depth 4/5) plus BFS over model states, two statements, bind/reuse/rebind/shim-ignores-params actions",
         "Histories of executions over two prepared statements where each execution rebinds with one of five type tables (including same type code with the other signedness) or reuses, optionally with a NULL first parameter or a shim that ignores the parameters, and re-prepares; position- and step-dependent values make any stale or foreign type table or shifted offset visible; trace must equal the model.",
         "Trusted: registry model, refwire encoder. Reuse with no table ever bound ends the history.",
         "DESIGN.md §2 C16"),
 "C17": ("model_checking",
         "explicit-state model checking: full history tree (depth 4/5) plus BFS over model states with pending long data, and a > 32 MiB chunk",
         "Histories of long-data chunks (empty, 1 and 2 bytes; parameters 0, 1 and out of range) and executions (bind/reuse/NULL) over two statements with CLOSE and re-PREPARE: the value delivered must be the in-order concatenation for that statement and parameter, other parameters keep their inline values, delivery happens once and never to the other statement.",
         "Pending data capped at 4 bytes per parameter in the BFS (not in the tree). An empty chunk still marks the parameter as long data.",
         "DESIGN.md §2 C17"),
 "C19": ("fault_enumeration",
         "exhaustive fault enumeration over the operation log of each conversation's fault-free run on the real run_on",
         "For ~50-70 conversations (explicit finish and implicit drops, text/binary, chained results, long data, close, quit, library replies, auth rejection, a shim error per callback; under whole, 1-byte and short reads/writes): end of stream after every byte count, each of 4 error kinds once and persistently at every operation index, a zero-length write at every write. Ok iff fault-free and closed at a boundary; every fault => Err, never a panic; no callback after the failed op; shim error returned unchanged.",
         "ErrorKind::Interrupted is not injected (std's write_all retries it by contract). Fault points come from the fault-free run of the tree under test.",
         "DESIGN.md §2 C19"),
 "C20": ("model_checking",
         "exhaustive enumeration of short client byte strings, framed payloads, EXECUTE parameter blocks and all single-byte mutations of valid conversations on the real run_on; oracle = no panic, no wedge",
         "All raw strings <= 5/6 bytes over 13 command/marker bytes (also as the handshake), all framed payloads <= 2/3 bytes over all 256 values, 1.2M structured EXECUTE blocks per parameter count, every single-byte substitution/truncation/deletion/duplication of 5 conversations and 3 handshake forms, fragment-id pairs: run_on must return without panicking within an operation budget.",
         "Random bytes are not used. The shim reads parameters with into_inner(); panicking From<Value> conversions are the shim author's calls.",
         "DESIGN.md §2 C20"),
}
NOT_YET = {}
props = [json.loads(l) for l in open('/verif/properties.jsonl')]
checks = []
na = []
for p in props:
    i = p['id']
    if i in CHECKS:
        cat, tech, text, note, ref = CHECKS[i]
        checks.append({
            "property_id": i,
            "quick_cmd": "./check %s quick" % i,
            "thorough_cmd": "./check %s thorough" % i,
            "evidence_file": "/verif/evidence/%s.json" % i,
            "replay_cmd_template": "./check %s replay {path}" % i,
            "engine": "vcheck",
            "level_claimed": {"category": cat, "text": text, "design_ref": ref},
            "level_note": note,
            "technique": tech,
        })
    else:
        na.append({"property_id": i, "reason": NOT_YET.get(i, "check not built yet in this round (planned in DESIGN.md §2); not claimed until it exists")})
m = {
 "version": 1,
 "setup_cmd": "cd /verif/harness && CARGO_NET_OFFLINE=true cargo build --release --offline",
 "hooks": {
   "guard": "msql_srv_verif",
   "enable": "no hooks are needed: every observation point is reachable through the public API (shim callbacks, ToMysqlValue, a user-supplied transport); the guard name is reserved only",
   "baseline_off_cmd": "cd /repo && cargo test --workspace --no-fail-fast --offline",
   "source_commits": HOOK_COMMITS,
   "add_only": True,
 },
 "engines": [
   {"name": "vcheck", "path": "/verif/harness", "serves_properties": [c["property_id"] for c in checks],
    "kind_free_text": "stateless / explicit-state bounded exhaustive exploration of the real implementation (path dependency on /repo) under a scripted transport and shim, with a strict independent client decoder and boring reference models as oracles"},
 ],
 "checks": checks,
 "not_applicable": na,
 "notes": "Known findings and repaired defects: /verif/known_findings.json. Seeded property-breaking changes and which check catches them: /verif/seeded/ and DESIGN.md §6.",
}
json.dump(m, open('/verif/MANIFEST.json', 'w'), indent=1)
print("checks:", [c["property_id"] for c in checks], "not claimed:", len(na))
