#!/usr/bin/env python3
"""Regenerates /verif/MANIFEST.json from the table below (kept next to the checks so the two stay in step)."""
import json, subprocess, os
HOOK_COMMITS = []
CHECKS = {
 # id: (category, technique, level text, level note, design ref)
 "C01": ("model_checking",
         "stateless bounded-exhaustive exploration of transport schedules (cut-position sets) on the real run_on, oracle = scripted conversation",
         "Every execution is the real run_on over a scripted in-memory transport. All 2^n ways of cutting streams of <= 17/21 command bytes into reads, all <=2/3-cut schedules over handshake+3 commands, <=2 cuts around the 4096/8192 buffer thresholds and <=1/2 cuts around every fragment header of 16-32 MiB payloads are run; the shim's callback log must equal the scripted commands byte for byte and every reply must decode.",
         "Trusted: the harness's transport/decoder (refwire). Bounds: streams longer than 21 bytes are covered up to 3 cuts, multi-megabyte payloads up to 2 cuts near fragment headers; 1-byte reads over 32 MiB are not run.",
         "DESIGN.md §2 C01"),
}
NOT_YET = {}
props = [json.loads(l) for l in open('/verif/properties.jsonl')]
checks = []
na = []
for p in props:
    i = p['id']
    if i in CHECKS:
        cat, tech, text, note, ref = CHECKS[i]
        checks.append({
            "property_id": i,
            "quick_cmd": "./check %s quick" % i,
            "thorough_cmd": "./check %s thorough" % i,
            "evidence_file": "/verif/evidence/%s.json" % i,
            "replay_cmd_template": "./check %s replay {path}" % i,
            "engine": "vcheck",
            "level_claimed": {"category": cat, "text": text, "design_ref": ref},
            "level_note": note,
            "technique": tech,
        })
    else:
        na.append({"property_id": i, "reason": NOT_YET.get(i, "check not built yet in this round (planned in DESIGN.md §2); not claimed until it exists")})
m = {
 "version": 1,
 "setup_cmd": "cd /verif/harness && CARGO_NET_OFFLINE=true cargo build --release --offline",
 "hooks": {
   "guard": "msql_srv_verif",
   "enable": "no hooks are needed: every observation point is reachable through the public API (shim callbacks, ToMysqlValue, a user-supplied transport); the guard name is reserved only",
   "baseline_off_cmd": "cd /repo && cargo test --workspace --no-fail-fast --offline",
   "source_commits": HOOK_COMMITS,
   "add_only": True,
 },
 "engines": [
   {"name": "vcheck", "path": "/verif/harness", "serves_properties": [c["property_id"] for c in checks],
    "kind_free_text": "stateless / explicit-state bounded exhaustive exploration of the real implementation (path dependency on /repo) under a scripted transport and shim, with a strict independent client decoder and boring reference models as oracles"},
 ],
 "checks": checks,
 "not_applicable": na,
 "notes": "Known findings and repaired defects: /verif/known_findings.json. Seeded property-breaking changes and which check catches them: /verif/seeded/ and DESIGN.md §6.",
}
json.dump(m, open('/verif/MANIFEST.json', 'w'), indent=1)
print("checks:", [c["property_id"] for c in checks], "not claimed:", len(na))
