#!/bin/bash
# usage: tools/par_try.sh <slot> <patch.diff|-> <tier> <ID>...
# Runs checks against a *scratch copy* of the repository with <patch.diff> applied, without
# touching /repo or /verif/evidence, so several seeded changes can be tried at the same time:
#   /tmp/par/<slot>/repo     git worktree of /repo HEAD (+ the patch)
#   /tmp/par/<slot>/harness  copy of /verif/harness whose path dependency points at that worktree
#   /tmp/par/<slot>/target   its own cargo target dir
#   /tmp/par/<slot>/out      evidence/ and replays/ of these runs (VERIF_OUT)
# Prints one line per check: "<ID> <rc> <first VIOLATION detail or summary>".
# Registered checks never use this path; it is tooling for the seed matrix only.
set -u
slot="$1"; patch="$2"; tier="$3"; shift 3
[ "$patch" != "-" ] && patch=$(readlink -f "$patch")
root=/tmp/par/$slot
mkdir -p "$root"
if [ ! -d "$root/repo" ]; then
  git -C /repo worktree add -q --detach "$root/repo" HEAD || exit 2
fi
git -C "$root/repo" reset -q --hard || exit 2
git -C "$root/repo" checkout -q --detach "$(git -C /repo rev-parse HEAD)" || exit 2
git -C "$root/repo" clean -fdq -e target
if [ "$patch" != "-" ]; then
  git -C "$root/repo" apply "$patch" || { echo "patch does not apply" >&2; exit 2; }
fi
rsync -a --delete "${HARNESS_SRC:-/verif/harness}/" "$root/harness/"
sed -i "s#path = \"/repo\"#path = \"$root/repo\"#" "$root/harness/Cargo.toml"
sed -i "s#/repo/src/errorcodes.rs#$root/repo/src/errorcodes.rs#g" "$root/harness/build.rs"
sed -i "s#target-dir = \"/verif/target\"#target-dir = \"$root/target\"#" "$root/harness/.cargo/config.toml"
export CARGO_NET_OFFLINE=true VERIF_OUT="$root/out"
rm -rf "$root/out"; mkdir -p "$root/out"
if ! (cd "$root/harness" && cargo build --release --offline >"$root/build.log" 2>&1); then
  echo "BUILD-FAILED (see $root/build.log)"; tail -20 "$root/build.log" >&2; exit 2
fi
for id in "$@"; do
  "$root/target/release/vcheck" "$id" "$tier" >"$root/out/$id.log" 2>&1; rc=$?
  if [ $rc -ge 128 ]; then  # the process died: same second stage as ./check
    "$root/target/release/vcheck" "$id" "$tier" --find-abort >>"$root/out/$id.log" 2>&1; rc=$?
  fi
  d=$(grep -A1 -m1 "^VIOLATION" "$root/out/$id.log" | tail -1 | cut -c1-300)
  [ $rc -eq 0 ] && d=$(tail -1 "$root/out/$id.log" | cut -c1-120)
  [ $rc -ge 2 ] && d=$(grep -m1 -E "MACHINERY|HARNESS" "$root/out/$id.log" | cut -c1-300)
  echo "$id $rc $d"
done
