#!/bin/bash
# usage: tools/matrix.sh <tier> [seed dirs...] — run every check against every seeded change; writes seeded/MATRIX.tsv
set -u
tier="$1"; shift
seeds=("$@"); [ ${#seeds[@]} -eq 0 ] && seeds=(/verif/seeded/*/)
ids="C01 C02 C03 C04 C05 C06 C07 C08 C09 C10 C11 C12 C13 C14 C15 C16 C17 C18 C19 C20"
out=/verif/seeded/MATRIX.tsv
[ -f "$out" ] || echo -e "seed\ttier\t$(echo $ids | tr ' ' '\t')" > "$out"
for s in "${seeds[@]}"; do
  s=${s%/}; name=$(basename "$s")
  if ! git -C /repo diff --quiet; then echo "/repo dirty" >&2; exit 2; fi
  git -C /repo apply "$s/patch.diff" || { echo "$name: patch does not apply" >&2; continue; }
  row="$name\t$tier"
  for id in $ids; do
    /verif/check $id $tier >/tmp/.matrix.out 2>&1; rc=$?
    case $rc in 0) c="-";; 1) c="CAUGHT";; *) c="ERR$rc";; esac
    row="$row\t$c"
  done
  git -C /repo checkout -- .
  grep -v "^$name	$tier	" "$out" > "$out.tmp"; mv "$out.tmp" "$out"
  echo -e "$row" >> "$out"
  echo -e "$row"
done
# restore evidence for the unchanged tree
for id in $ids; do /verif/check $id quick >/dev/null 2>&1; done
