#!/bin/bash
# usage: tools/intake.sh <agent worktree> <SEED_a|SEED_b> <seed name, e.g. C17-subagent18p02a> [slot]
# Copies a sub-agent's deliverable into /verif/seeded/<name>/ and confirms it (tools/confirm_seed.sh)
# in a scratch worktree of its own slot, so several can be confirmed at the same time.
set -u
wt="$1"; sd="$2"; name="$3"; slot="${4:-0}"
src="$wt/$sd"
[ -f "$src/patch.diff" ] && [ -f "$src/demo.rs" ] || { echo "NO-DELIVERABLE $name ($src)"; exit 2; }
dst=/verif/seeded/$name
mkdir -p "$dst"
cp "$src/patch.diff" "$src/demo.rs" "$dst/"
[ -f "$src/notes.md" ] && cp "$src/notes.md" "$dst/"
CONFIRM_WT=/tmp/confirm/wt$slot /verif/tools/confirm_seed.sh "$dst/patch.diff" "$dst/demo.rs" "${name//-/_}" 2>&1 | tail -8
