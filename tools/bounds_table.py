#!/usr/bin/env python3
"""Prints, per check, the numbers DESIGN.md section 8 quotes from the evidence files (tier, evaluations,
connection executions, distinct outcomes, wall time)."""
import json, sys
def h(n):
    for u, d in (("G", 1e9), ("M", 1e6), ("k", 1e3)):
        if n >= d:
            x = n / d
            return (f"{x:.1f}" if x < 100 else f"{x:.0f}") + " " + u
    return str(n)
for i in range(1, 21):
    e = json.load(open(f"/verif/evidence/C{i:02d}.json"))
    c = e["coverage"]
    print(f"C{i:02d}\t{e['tier']}\t{h(c.get('evaluations', 0))}\t{h(c.get('connection_executions', 0))}\t{h(c.get('distinct_connection_outcomes', 0))}\t{e['wall_s']:.1f}s\tcaps_hit={c.get('caps_hit')}")
