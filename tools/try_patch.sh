#!/bin/bash
# usage: tools/try_patch.sh <patch.diff> <tier> <ID>...   — apply a seeded change to /repo, run the checks, undo it.
set -u
patch="$1"; tier="$2"; shift 2
if ! git -C /repo diff --quiet; then echo "/repo has local changes; refusing" >&2; exit 2; fi
git -C /repo apply "$patch" || { echo "patch does not apply" >&2; exit 2; }
trap 'git -C /repo checkout -- . ' EXIT
for id in "$@"; do
  /verif/check "$id" "$tier" 2>&1 | grep -E "^(VIOLATION|KNOWN-FINDING|MACHINERY|C[0-9]+ )|^  " | head -8
  echo "exit[$id]=${PIPESTATUS[0]}"
done
