#!/bin/bash
# usage: tools/confirm_benign.sh <benign dir> <slot>
# In a scratch worktree of /repo's HEAD: the refactor applies and builds, the repository's own suite
# passes with it, and the refactor's own tests (tests.rs) pass with it.
set -u
d=$(readlink -f "$1"); slot="$2"; name=$(basename "$d")
wt=/tmp/confirm/wtb$slot
if [ ! -d "$wt" ]; then
  mkdir -p /tmp/confirm
  git -C /repo worktree add -q --detach "$wt" HEAD || exit 2
  cp -r /repo/target "$wt/target" 2>/dev/null
fi
cd "$wt" || exit 2
git checkout -q --detach "$(git -C /repo rev-parse HEAD)" 2>/dev/null
git checkout -q -- . ; git clean -fdq -e target
git apply "$d/patch.diff" || { echo "RESULT $name: patch does not apply"; exit 1; }
suite=$(cargo test --offline 2>&1); rc_suite=$?
npass=$(echo "$suite" | grep -E "^test result: ok" | sed -E 's/.*ok\. ([0-9]+) passed.*/\1/' | paste -sd+ | bc)
rc_own=-1; nown=0
if [ -f "$d/tests.rs" ]; then
  cp "$d/tests.rs" tests/seed_demo_own.rs
  own=$(cargo test --offline --test seed_demo_own 2>&1); rc_own=$?
  nown=$(echo "$own" | grep -E "^test result:" | sed -E 's/.* ([0-9]+) passed.*/\1/' | paste -sd+ | bc)
fi
git checkout -q -- . ; git clean -fdq -e target
echo "RESULT $name: suite_rc=$rc_suite suite_passed=$npass own_tests_rc=$rc_own own_passed=$nown"
