// Regenerates the list of ErrorKind variants from the tree under test, so that variants added
// or removed upstream are picked up without editing the harness.
use std::io::Write;
fn main() {
    let src = std::fs::read_to_string("/repo/src/errorcodes.rs").expect("cannot read /repo/src/errorcodes.rs");
    let start = src.find("\npub enum ErrorKind {").expect("enum ErrorKind not found");
    let rest = &src[start + 1..];
    let end = rest.find("\n}").expect("end of enum not found");
    let body = &rest[..end];
    let mut names = Vec::new();
    for line in body.lines() {
        let t = line.trim();
        if t.starts_with("//") || t.starts_with('#') || t.starts_with("pub enum") {
            continue;
        }
        if let Some((name, _)) = t.split_once('=') {
            let name = name.trim();
            if !name.is_empty() && name.chars().all(|c| c.is_ascii_alphanumeric() || c == '_') {
                names.push(name.to_string());
            }
        }
    }
    let out = std::path::Path::new(&std::env::var("OUT_DIR").unwrap()).join("errkinds.rs");
    let mut f = std::fs::File::create(out).unwrap();
    writeln!(f, "pub const KINDS: &[(&str, msql_srv::ErrorKind)] = &[").unwrap();
    for n in &names {
        writeln!(f, "    (\"{}\", msql_srv::ErrorKind::{}),", n, n).unwrap();
    }
    writeln!(f, "];").unwrap();
    println!("cargo:rerun-if-changed=/repo/src/errorcodes.rs");
    println!("cargo:rerun-if-changed=build.rs");
}
