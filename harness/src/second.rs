//! Second opinion: the deserializers of mysql_common (the library real Rust clients use) must
//! accept what the server sent and agree with refwire's reading.

use mysql_common::constants::{CapabilityFlags, ColumnFlags, ColumnType};
use mysql_common::io::ParseBuf;
use mysql_common::packets::{Column, CommonOkPacket, ErrPacket, HandshakePacket, OkPacketDeserializer, StmtPacket};
use mysql_common::proto::MyDeserialize;
use mysql_common::value::{BinValue, TextValue, Value, ValueDeserializer};

pub fn caps41() -> CapabilityFlags {
    CapabilityFlags::CLIENT_PROTOCOL_41 | CapabilityFlags::CLIENT_LONG_PASSWORD | CapabilityFlags::CLIENT_SECURE_CONNECTION
}

/// (protocol version, capability bits)
pub fn greeting(m: &[u8]) -> Result<(u8, u32), String> {
    let mut b = ParseBuf(m);
    let h = HandshakePacket::deserialize((), &mut b).map_err(|e| format!("mysql_common rejects the greeting: {}", e))?;
    Ok((h.protocol_version(), h.capabilities().bits()))
}

/// (affected rows, last insert id, status)
pub fn ok(m: &[u8]) -> Result<(u64, u64, u16), String> {
    let mut b = ParseBuf(m);
    let p = OkPacketDeserializer::<CommonOkPacket>::deserialize(caps41(), &mut b).map_err(|e| format!("mysql_common rejects the OK packet: {}", e))?;
    let p = p.into_inner();
    Ok((p.affected_rows(), p.last_insert_id().unwrap_or(0), p.status_flags().bits()))
}

/// (code, sqlstate, message)
pub fn err(m: &[u8]) -> Result<(u16, [u8; 5], Vec<u8>), String> {
    let mut b = ParseBuf(m);
    match ErrPacket::deserialize(caps41(), &mut b).map_err(|e| format!("mysql_common rejects the ERR packet: {}", e))? {
        ErrPacket::Error(e) => Ok((e.error_code(), e.sql_state_ref(), e.message_ref().to_vec())),
        ErrPacket::Progress(_) => Err("mysql_common reads the ERR packet as a progress report".into()),
    }
}

/// (table, name, type, flags)
pub fn column(m: &[u8]) -> Result<(Vec<u8>, Vec<u8>, u8, u16), String> {
    let mut b = ParseBuf(m);
    let c = Column::deserialize((), &mut b).map_err(|e| format!("mysql_common rejects the column definition: {}", e))?;
    Ok((c.table_ref().to_vec(), c.name_ref().to_vec(), c.column_type() as u8, c.flags().bits()))
}

/// (statement id, columns, params)
pub fn stmt(m: &[u8]) -> Result<(u32, u16, u16), String> {
    let mut b = ParseBuf(m);
    let s = StmtPacket::deserialize((), &mut b).map_err(|e| format!("mysql_common rejects COM_STMT_PREPARE_OK: {}", e))?;
    Ok((s.statement_id(), s.num_columns(), s.num_params()))
}

/// one text-protocol cell; returns the value and the bytes consumed
pub fn text_value(m: &[u8]) -> Result<(Value, usize), String> {
    let mut b = ParseBuf(m);
    let v = ValueDeserializer::<TextValue>::deserialize((), &mut b).map_err(|e| format!("mysql_common rejects the text value: {}", e))?;
    Ok((v.0, m.len() - b.len()))
}

pub fn bin_value(m: &[u8], ty: u8, flags: u16) -> Result<(Value, usize), String> {
    let ct = ColumnType::try_from(ty).map_err(|_| format!("mysql_common does not know column type {}", ty))?;
    let mut b = ParseBuf(m);
    let v = ValueDeserializer::<BinValue>::deserialize((ct, ColumnFlags::from_bits_truncate(flags)), &mut b).map_err(|e| format!("mysql_common rejects the binary value: {}", e))?;
    Ok((v.0, m.len() - b.len()))
}
