//! E3 — an independent client-side codec, written from the protocol documentation.
//! Shares no code with msql-srv. Encoder for everything a client can send, strict decoder for
//! everything a server may answer.

pub const MAXP: usize = 0xFF_FFFF;

pub const CAP_LONG_PASSWORD: u32 = 1;
pub const CAP_CONNECT_WITH_DB: u32 = 8;
pub const CAP_PROTOCOL_41: u32 = 0x200;
pub const CAP_SSL: u32 = 0x800;
pub const CAP_SECURE_CONNECTION: u32 = 0x8000;
pub const CAP_PLUGIN_AUTH: u32 = 0x8_0000;
pub const CAP_DEPRECATE_EOF: u32 = 0x100_0000;

pub const STATUS_MORE_RESULTS: u16 = 0x0008;

// ---------------------------------------------------------------- encoder

/// Frame `payload` as one logical message starting at sequence id `seq`.
/// Returns the bytes and the sequence id of the last packet.
pub fn frame(seq: u8, payload: &[u8]) -> (Vec<u8>, u8) {
    let mut out = Vec::with_capacity(payload.len() + 4 * (payload.len() / MAXP + 1));
    let mut s = seq;
    let mut rest = payload;
    loop {
        let n = rest.len().min(MAXP);
        out.push((n & 0xff) as u8);
        out.push(((n >> 8) & 0xff) as u8);
        out.push(((n >> 16) & 0xff) as u8);
        out.push(s);
        out.extend_from_slice(&rest[..n]);
        rest = &rest[n..];
        if n < MAXP {
            return (out, s);
        }
        s = s.wrapping_add(1);
    }
}

pub fn put_lenenc(out: &mut Vec<u8>, v: u64) {
    if v < 251 {
        out.push(v as u8);
    } else if v < 1 << 16 {
        out.push(0xfc);
        out.extend_from_slice(&(v as u16).to_le_bytes());
    } else if v < 1 << 24 {
        out.push(0xfd);
        out.extend_from_slice(&(v as u32).to_le_bytes()[..3]);
    } else {
        out.push(0xfe);
        out.extend_from_slice(&v.to_le_bytes());
    }
}

pub fn put_lenenc_str(out: &mut Vec<u8>, s: &[u8]) {
    put_lenenc(out, s.len() as u64);
    out.extend_from_slice(s);
}

pub const COM_QUIT: u8 = 0x01;
pub const COM_INIT_DB: u8 = 0x02;
pub const COM_QUERY: u8 = 0x03;
pub const COM_FIELD_LIST: u8 = 0x04;
pub const COM_PING: u8 = 0x0e;
pub const COM_STMT_PREPARE: u8 = 0x16;
pub const COM_STMT_EXECUTE: u8 = 0x17;
pub const COM_STMT_SEND_LONG_DATA: u8 = 0x18;
pub const COM_STMT_CLOSE: u8 = 0x19;

pub fn with_byte(b: u8, rest: &[u8]) -> Vec<u8> {
    let mut v = Vec::with_capacity(rest.len() + 1);
    v.push(b);
    v.extend_from_slice(rest);
    v
}
pub fn cmd_close(id: u32) -> Vec<u8> {
    with_byte(COM_STMT_CLOSE, &id.to_le_bytes())
}
pub fn cmd_long(id: u32, param: u16, data: &[u8]) -> Vec<u8> {
    let mut v = vec![COM_STMT_SEND_LONG_DATA];
    v.extend_from_slice(&id.to_le_bytes());
    v.extend_from_slice(&param.to_le_bytes());
    v.extend_from_slice(data);
    v
}
pub fn cmd_execute(id: u32, flags: u8, iterations: u32, block: &[u8]) -> Vec<u8> {
    let mut v = vec![COM_STMT_EXECUTE];
    v.extend_from_slice(&id.to_le_bytes());
    v.push(flags);
    v.extend_from_slice(&iterations.to_le_bytes());
    v.extend_from_slice(block);
    v
}

/// One parameter of a COM_STMT_EXECUTE as a client encodes it.
#[derive(Clone, Debug)]
pub struct ExecParam {
    pub ty: u8,
    pub unsigned: bool,
    /// None = NULL (bit in the bitmap, no bytes); Some(bytes) = the value's wire bytes
    pub wire: Option<Vec<u8>>,
    /// the value is supplied by long data: no bitmap bit, no inline bytes
    pub long: bool,
}

/// The parameter block that follows the fixed 9 bytes of COM_STMT_EXECUTE.
pub fn exec_block(params: &[ExecParam], bind: bool) -> Vec<u8> {
    let n = params.len();
    let mut v = Vec::new();
    if n == 0 {
        return v;
    }
    let mut bm = vec![0u8; (n + 7) / 8];
    for (i, p) in params.iter().enumerate() {
        if p.wire.is_none() && !p.long {
            bm[i / 8] |= 1 << (i % 8);
        }
    }
    v.extend_from_slice(&bm);
    v.push(if bind { 1 } else { 0 });
    if bind {
        for p in params {
            v.push(p.ty);
            v.push(if p.unsigned { 0x80 } else { 0 });
        }
    }
    for p in params {
        if p.long {
            continue;
        }
        if let Some(w) = &p.wire {
            v.extend_from_slice(w);
        }
    }
    v
}

pub fn handshake41(caps: u32, maxps: u32, collation: u8, user: &[u8], trailer: &[u8]) -> Vec<u8> {
    let mut v = Vec::new();
    v.extend_from_slice(&caps.to_le_bytes());
    v.extend_from_slice(&maxps.to_le_bytes());
    v.push(collation);
    v.extend_from_slice(&[0u8; 23]);
    v.extend_from_slice(user);
    v.push(0);
    v.extend_from_slice(trailer);
    v
}

pub fn ssl_request(caps: u32, maxps: u32, collation: u8) -> Vec<u8> {
    let mut v = Vec::new();
    v.extend_from_slice(&caps.to_le_bytes());
    v.extend_from_slice(&maxps.to_le_bytes());
    v.push(collation);
    v.extend_from_slice(&[0u8; 23]);
    v
}

pub fn handshake320(caps: u16, maxps: u32, user: &[u8], trailer: &[u8]) -> Vec<u8> {
    let mut v = Vec::new();
    v.extend_from_slice(&caps.to_le_bytes());
    v.extend_from_slice(&maxps.to_le_bytes()[..3]);
    v.extend_from_slice(user);
    v.push(0);
    v.extend_from_slice(trailer);
    v
}

/// The default handshake used by most scenarios: 4.1 protocol, user "u", sequence id 1.
pub fn default_handshake() -> Vec<u8> {
    let caps = CAP_LONG_PASSWORD | CAP_PROTOCOL_41 | CAP_SECURE_CONNECTION | 0x0002_0000 /* multi results */;
    frame(1, &handshake41(caps, 1 << 24, 0x21, b"u", &[0])).0
}

/// Handshake responses of differently-minded clients, all for user "u" with sequence id 1.
/// None of them negotiates anything that would change the layout of later packets, so a server
/// must answer all of them with the same 4.1 packets. They differ in layout, in the capability
/// bits they mention, in the `max_packet_size` they announce (a client-side receive limit far
/// above anything these scenarios send to a small one - the server may not cut, clamp or split by
/// it below the protocol's own rules) and in the optional fields they carry.
pub const N_HANDSHAKE_VARIANTS: u64 = 5;

/// bits the server's greeting did not offer, set by `engine` once per process (0 until then)
pub static UNOFFERED_CAPS: std::sync::atomic::AtomicU32 = std::sync::atomic::AtomicU32::new(0);

pub fn handshake_variant(k: u64) -> (Vec<u8>, &'static str) {
    match k % N_HANDSHAKE_VARIANTS {
        0 => (default_handshake(), "HandshakeResponse41, usual capabilities"),
        1 => (frame(1, &handshake320(0x0005, 2048, b"u", b"")).0, "HandshakeResponse320 (pre-4.1 layout), max_packet_size 2048"),
        2 => (frame(1, &handshake41(CAP_PROTOCOL_41, 3000, 0x08, b"u", &[0])).0, "HandshakeResponse41 with CLIENT_PROTOCOL_41 only, max_packet_size 3000, collation latin1_swedish_ci"),
        3 => {
            // what libmysqlclient sends: db, plugin name and connection attributes present
            let caps = 0x0001 | 0x0002 | 0x0004 | CAP_CONNECT_WITH_DB | 0x0080 | 0x0100 | CAP_PROTOCOL_41 | 0x0400 | 0x1000 | 0x2000 | CAP_SECURE_CONNECTION | 0x0001_0000 | 0x0002_0000 | 0x0004_0000 | CAP_PLUGIN_AUTH | 0x0010_0000 | 0x0020_0000;
            let mut t = vec![20u8];
            t.extend((0..20u8).map(|i| 0xa0 + i));
            t.extend_from_slice(b"db\0mysql_native_password\0");
            let attrs = b"\x0c_client_name\x08libmysql\x04_pid\x0242";
            t.push(attrs.len() as u8);
            t.extend_from_slice(attrs);
            (frame(1, &handshake41(caps, 1 << 24, 0x2d, b"u", &t)).0, "HandshakeResponse41 as libmysqlclient sends it (db, plugin, attributes)")
        }
        _ => {
            // a client that mentions every capability the server did NOT offer (none of them can
            // be in force, whatever they would mean), except the bits that change the layout of
            // the handshake response itself and CLIENT_SSL, which is a request
            let skip = CAP_SSL | CAP_CONNECT_WITH_DB | CAP_PLUGIN_AUTH | 0x0010_0000 | 0x0020_0000;
            let un = UNOFFERED_CAPS.load(std::sync::atomic::Ordering::Relaxed) & !skip;
            let caps = CAP_LONG_PASSWORD | CAP_PROTOCOL_41 | CAP_SECURE_CONNECTION | un;
            (frame(1, &handshake41(caps, 65535, 0xff, b"u", &[0])).0, "HandshakeResponse41 mentioning every capability the server did not offer, max_packet_size 65535")
        }
    }
}

// ---------------------------------------------------------------- decoder: framing

#[derive(Clone, Copy, Debug)]
pub struct RawPkt {
    pub seq: u8,
    pub start: usize, // offset of payload
    pub len: usize,
}

/// Split raw server output into packets; every header must be fully present and its length must
/// equal the bytes that follow.
pub fn split_packets(out: &[u8]) -> Result<Vec<RawPkt>, String> {
    let mut v = Vec::new();
    let mut p = 0;
    while p < out.len() {
        if out.len() - p < 4 {
            return Err(format!("truncated packet header at offset {} ({} bytes left)", p, out.len() - p));
        }
        let len = out[p] as usize | (out[p + 1] as usize) << 8 | (out[p + 2] as usize) << 16;
        let seq = out[p + 3];
        if out.len() - p - 4 < len {
            return Err(format!(
                "packet at offset {} announces {} payload bytes but only {} follow",
                p,
                len,
                out.len() - p - 4
            ));
        }
        v.push(RawPkt { seq, start: p + 4, len });
        p += 4 + len;
    }
    Ok(v)
}

/// A logical message: the concatenation of maximal packets and the shorter one that closes them.
#[derive(Clone, Debug)]
pub struct Msg {
    pub data: Vec<u8>,
    pub first_pkt: usize,
    pub n_pkts: usize,
}

pub fn reassemble(out: &[u8], pkts: &[RawPkt]) -> Result<Vec<Msg>, String> {
    let mut msgs = Vec::new();
    let mut i = 0;
    while i < pkts.len() {
        let first = i;
        let mut data = Vec::new();
        loop {
            if i >= pkts.len() {
                return Err(format!(
                    "output ends after a maximal (0xFFFFFF) packet #{} without a closing packet",
                    i - 1
                ));
            }
            let p = pkts[i];
            data.extend_from_slice(&out[p.start..p.start + p.len]);
            i += 1;
            if p.len < MAXP {
                break;
            }
        }
        msgs.push(Msg {
            data,
            first_pkt: first,
            n_pkts: i - first,
        });
    }
    Ok(msgs)
}

// ---------------------------------------------------------------- decoder: primitives

pub struct Cur<'a> {
    pub b: &'a [u8],
    pub p: usize,
}

impl<'a> Cur<'a> {
    pub fn new(b: &'a [u8]) -> Self {
        Cur { b, p: 0 }
    }
    pub fn left(&self) -> usize {
        self.b.len() - self.p
    }
    pub fn u8(&mut self) -> Result<u8, String> {
        if self.left() < 1 {
            return Err(format!("unexpected end at {} (need 1)", self.p));
        }
        self.p += 1;
        Ok(self.b[self.p - 1])
    }
    pub fn take(&mut self, n: usize) -> Result<&'a [u8], String> {
        if self.left() < n {
            return Err(format!("unexpected end at {} (need {}, have {})", self.p, n, self.left()));
        }
        self.p += n;
        Ok(&self.b[self.p - n..self.p])
    }
    pub fn u16(&mut self) -> Result<u16, String> {
        let t = self.take(2)?;
        Ok(u16::from_le_bytes([t[0], t[1]]))
    }
    pub fn u32(&mut self) -> Result<u32, String> {
        let t = self.take(4)?;
        Ok(u32::from_le_bytes([t[0], t[1], t[2], t[3]]))
    }
    pub fn u64(&mut self) -> Result<u64, String> {
        let t = self.take(8)?;
        let mut a = [0u8; 8];
        a.copy_from_slice(t);
        Ok(u64::from_le_bytes(a))
    }
    pub fn lenenc(&mut self) -> Result<u64, String> {
        let f = self.u8()?;
        match f {
            0..=0xfa => Ok(f as u64),
            0xfc => Ok(self.u16()? as u64),
            0xfd => {
                let t = self.take(3)?;
                Ok(t[0] as u64 | (t[1] as u64) << 8 | (t[2] as u64) << 16)
            }
            0xfe => self.u64(),
            _ => Err(format!("byte 0x{:02x} at {} is not a length-encoded integer", f, self.p - 1)),
        }
    }
    pub fn lenenc_str(&mut self) -> Result<&'a [u8], String> {
        let n = self.lenenc()?;
        if n > self.left() as u64 {
            return Err(format!("length-encoded string of {} bytes at {} exceeds message ({} left)", n, self.p, self.left()));
        }
        self.take(n as usize)
    }
    pub fn done(&self, what: &str) -> Result<(), String> {
        if self.left() != 0 {
            Err(format!("{}: {} trailing bytes", what, self.left()))
        } else {
            Ok(())
        }
    }
}

// ---------------------------------------------------------------- decoder: responses

#[derive(Clone, Debug, PartialEq)]
pub struct ColDef {
    pub table: Vec<u8>,
    pub name: Vec<u8>,
    pub ty: u8,
    pub flags: u16,
    pub charset: u16,
    pub length: u32,
    pub decimals: u8,
}

#[derive(Clone, Debug, PartialEq)]
pub enum BinVal {
    Int(i64),
    UInt(u64),
    F32(u32),
    F64(u64),
    Bytes(Vec<u8>),
    /// len, y, m, d, h, mi, s, us
    Date(u8, u16, u8, u8, u8, u8, u8, u32),
    /// len, neg, days, h, m, s, us
    Time(u8, bool, u32, u8, u8, u8, u32),
    NullType,
}

#[derive(Clone, Debug, PartialEq)]
pub enum Cell {
    Null,
    Text(Vec<u8>),
    Bin(BinVal),
}

#[derive(Clone, Debug, PartialEq)]
pub struct ErrPkt {
    pub code: u16,
    pub state: Vec<u8>,
    pub msg: Vec<u8>,
}

#[derive(Clone, Debug, PartialEq)]
pub enum Unit {
    Ok {
        rows: u64,
        id: u64,
        status: u16,
        warnings: u16,
        info: Vec<u8>,
    },
    Err(ErrPkt),
    ResultSet {
        cols: Vec<ColDef>,
        rows: Vec<Vec<Cell>>,
        /// terminator: Ok(status of the EOF) or the ERR that ended the rows
        end: Result<u16, ErrPkt>,
    },
    PrepareOk {
        id: u32,
        params: Vec<ColDef>,
        cols: Vec<ColDef>,
        warnings: u16,
    },
    FieldList {
        cols: Vec<ColDef>,
    },
}

impl Unit {
    /// does this unit announce that another one follows?
    pub fn more(&self) -> bool {
        match self {
            Unit::Ok { status, .. } => status & STATUS_MORE_RESULTS != 0,
            Unit::ResultSet { end: Ok(st), .. } => st & STATUS_MORE_RESULTS != 0,
            _ => false,
        }
    }
}

pub fn parse_ok(m: &[u8]) -> Result<Unit, String> {
    let mut c = Cur::new(m);
    let h = c.u8()?;
    if h != 0x00 {
        return Err(format!("OK packet must start with 0x00, got 0x{:02x}", h));
    }
    let rows = c.lenenc()?;
    let id = c.lenenc()?;
    let status = c.u16()?;
    let warnings = c.u16()?;
    let info = c.take(c.left())?.to_vec();
    Ok(Unit::Ok {
        rows,
        id,
        status,
        warnings,
        info,
    })
}

pub fn parse_err(m: &[u8]) -> Result<ErrPkt, String> {
    let mut c = Cur::new(m);
    let h = c.u8()?;
    if h != 0xff {
        return Err(format!("ERR packet must start with 0xff, got 0x{:02x}", h));
    }
    let code = c.u16()?;
    let marker = c.u8()?;
    if marker != b'#' {
        return Err(format!("ERR packet (4.1) must carry '#' before the SQLSTATE, got 0x{:02x}", marker));
    }
    let state = c.take(5)?.to_vec();
    let msg = c.take(c.left())?.to_vec();
    Ok(ErrPkt { code, state, msg })
}

pub fn is_eof(m: &[u8]) -> bool {
    !m.is_empty() && m[0] == 0xfe && m.len() < 9
}

/// returns status flags
pub fn parse_eof(m: &[u8]) -> Result<u16, String> {
    let mut c = Cur::new(m);
    let h = c.u8()?;
    if h != 0xfe {
        return Err(format!("EOF packet must start with 0xfe, got 0x{:02x}", h));
    }
    let _warnings = c.u16()?;
    let status = c.u16()?;
    c.done("EOF packet")?;
    Ok(status)
}

pub fn parse_coldef(m: &[u8], field_list: bool) -> Result<ColDef, String> {
    let mut c = Cur::new(m);
    let catalog = c.lenenc_str()?;
    if catalog != b"def" {
        return Err(format!("column definition catalog must be \"def\", got {:?}", catalog));
    }
    let _schema = c.lenenc_str()?;
    let table = c.lenenc_str()?.to_vec();
    let _org_table = c.lenenc_str()?;
    let name = c.lenenc_str()?.to_vec();
    let _org_name = c.lenenc_str()?;
    let fixed = c.lenenc()?;
    if fixed != 0x0c {
        return Err(format!("column definition fixed-length field must be 0x0c, got {}", fixed));
    }
    let charset = c.u16()?;
    let length = c.u32()?;
    let ty = c.u8()?;
    let flags = c.u16()?;
    let decimals = c.u8()?;
    let _filler = c.take(2)?;
    if field_list {
        // default value: lenenc string or NULL
        if c.left() > 0 && c.b[c.p] == 0xfb {
            c.u8()?;
        } else {
            c.lenenc_str()?;
        }
    }
    c.done("column definition")?;
    Ok(ColDef {
        table,
        name,
        ty,
        flags,
        charset,
        length,
        decimals,
    })
}

pub const FLAG_UNSIGNED: u16 = 0x20;
pub const FLAG_NOT_NULL: u16 = 0x01;

pub fn parse_bin_value(c: &mut Cur<'_>, ty: u8, flags: u16) -> Result<BinVal, String> {
    let unsigned = flags & FLAG_UNSIGNED != 0;
    Ok(match ty {
        0x01 => {
            let b = c.u8()?;
            if unsigned {
                BinVal::UInt(b as u64)
            } else {
                BinVal::Int(b as i8 as i64)
            }
        }
        0x02 | 0x0d => {
            let b = c.u16()?;
            if unsigned {
                BinVal::UInt(b as u64)
            } else {
                BinVal::Int(b as i16 as i64)
            }
        }
        0x03 | 0x09 => {
            let b = c.u32()?;
            if unsigned {
                BinVal::UInt(b as u64)
            } else {
                BinVal::Int(b as i32 as i64)
            }
        }
        0x08 => {
            let b = c.u64()?;
            if unsigned {
                BinVal::UInt(b)
            } else {
                BinVal::Int(b as i64)
            }
        }
        0x04 => BinVal::F32(c.u32()?),
        0x05 => BinVal::F64(c.u64()?),
        0x06 => BinVal::NullType,
        0x07 | 0x0a | 0x0c => {
            let len = c.u8()?;
            let mut d = (len, 0u16, 0u8, 0u8, 0u8, 0u8, 0u8, 0u32);
            match len {
                0 | 4 | 7 | 11 => {}
                _ => return Err(format!("illegal date/datetime length {}", len)),
            }
            if len >= 4 {
                d.1 = c.u16()?;
                d.2 = c.u8()?;
                d.3 = c.u8()?;
            }
            if len >= 7 {
                d.4 = c.u8()?;
                d.5 = c.u8()?;
                d.6 = c.u8()?;
            }
            if len >= 11 {
                d.7 = c.u32()?;
            }
            // a conformant client rejects fields outside the protocol's ranges
            if d.2 > 12 || d.3 > 31 || d.4 > 23 || d.5 > 59 || d.6 > 59 || d.7 > 999_999 {
                return Err(format!("date/datetime field out of range: {:04}-{:02}-{:02} {:02}:{:02}:{:02}.{}", d.1, d.2, d.3, d.4, d.5, d.6, d.7));
            }
            BinVal::Date(d.0, d.1, d.2, d.3, d.4, d.5, d.6, d.7)
        }
        0x0b => {
            let len = c.u8()?;
            match len {
                0 | 8 | 12 => {}
                _ => return Err(format!("illegal time length {}", len)),
            }
            let mut t = (len, false, 0u32, 0u8, 0u8, 0u8, 0u32);
            if len >= 8 {
                t.1 = c.u8()? != 0;
                t.2 = c.u32()?;
                t.3 = c.u8()?;
                t.4 = c.u8()?;
                t.5 = c.u8()?;
            }
            if len >= 12 {
                t.6 = c.u32()?;
            }
            if t.3 > 23 || t.4 > 59 || t.5 > 59 || t.6 > 999_999 {
                return Err(format!("time field out of range: {}d {:02}:{:02}:{:02}.{}", t.2, t.3, t.4, t.5, t.6));
            }
            BinVal::Time(t.0, t.1, t.2, t.3, t.4, t.5, t.6)
        }
        0x00 | 0x0f | 0x10 | 0xf5 | 0xf6 | 0xf7 | 0xf8 | 0xf9 | 0xfa | 0xfb | 0xfc | 0xfd | 0xfe | 0xff => {
            BinVal::Bytes(c.lenenc_str()?.to_vec())
        }
        _ => return Err(format!("column type 0x{:02x} has no binary encoding", ty)),
    })
}

pub fn parse_text_row(m: &[u8], ncols: usize) -> Result<Vec<Cell>, String> {
    let mut c = Cur::new(m);
    let mut row = Vec::with_capacity(ncols);
    for i in 0..ncols {
        if c.left() == 0 {
            return Err(format!("text row ends after {} of {} cells", i, ncols));
        }
        if c.b[c.p] == 0xfb {
            c.u8()?;
            row.push(Cell::Null);
        } else {
            row.push(Cell::Text(c.lenenc_str().map_err(|e| format!("cell {}: {}", i, e))?.to_vec()));
        }
    }
    c.done(&format!("text row of {} cells", ncols))?;
    Ok(row)
}

pub fn parse_bin_row(m: &[u8], cols: &[ColDef]) -> Result<Vec<Cell>, String> {
    let n = cols.len();
    let mut c = Cur::new(m);
    let h = c.u8()?;
    if h != 0 {
        return Err(format!("binary row must start with 0x00, got 0x{:02x}", h));
    }
    let bm = c.take((n + 7 + 2) / 8)?;
    // bits below offset 2 and beyond the last column must be clear
    for bit in 0..bm.len() * 8 {
        let set = bm[bit / 8] & (1 << (bit % 8)) != 0;
        if set && (bit < 2 || bit >= n + 2) {
            return Err(format!("NULL bitmap has stray bit {} set ({} columns)", bit, n));
        }
    }
    let mut row = Vec::with_capacity(n);
    for (i, col) in cols.iter().enumerate() {
        let bit = i + 2;
        if bm[bit / 8] & (1 << (bit % 8)) != 0 {
            row.push(Cell::Null);
        } else {
            row.push(Cell::Bin(
                parse_bin_value(&mut c, col.ty, col.flags).map_err(|e| format!("cell {}: {}", i, e))?,
            ));
        }
    }
    c.done(&format!("binary row of {} cells", n))?;
    Ok(row)
}

/// byte range of every non-NULL cell of a binary row (None for NULL cells)
pub fn bin_cell_ranges(m: &[u8], cols: &[ColDef]) -> Result<Vec<Option<(usize, usize)>>, String> {
    let n = cols.len();
    let mut c = Cur::new(m);
    c.u8()?;
    let bm = c.take((n + 7 + 2) / 8)?.to_vec();
    let mut v = Vec::with_capacity(n);
    for (i, col) in cols.iter().enumerate() {
        let bit = i + 2;
        if bm[bit / 8] & (1 << (bit % 8)) != 0 {
            v.push(None);
        } else {
            let a = c.p;
            parse_bin_value(&mut c, col.ty, col.flags)?;
            v.push(Some((a, c.p)));
        }
    }
    Ok(v)
}

#[derive(Clone, Copy, Debug, PartialEq, Eq)]
pub enum RespKind {
    /// no reply at all
    None,
    /// OK or ERR (ping, init db, auth)
    OkErr,
    /// text resultset protocol
    Query,
    /// binary resultset protocol
    Execute,
    Prepare,
    FieldList,
}

/// The message cursor over a decoded server stream.
pub struct MsgCur<'a> {
    pub msgs: &'a [Msg],
    pub i: usize,
}

impl<'a> MsgCur<'a> {
    pub fn next(&mut self, what: &str) -> Result<&'a [u8], String> {
        if self.i >= self.msgs.len() {
            return Err(format!("server output ends where {} was expected (after {} messages)", what, self.i));
        }
        self.i += 1;
        Ok(&self.msgs[self.i - 1].data)
    }
}

fn parse_coldefs(mc: &mut MsgCur<'_>, n: usize, field_list: bool) -> Result<Vec<ColDef>, String> {
    let mut cols = Vec::with_capacity(n);
    for k in 0..n {
        let m = mc.next("a column definition")?;
        cols.push(parse_coldef(m, field_list).map_err(|e| format!("column definition {}: {}", k, e))?);
    }
    Ok(cols)
}

/// Parse exactly one response of the given kind. Chained resultsets are followed while the
/// terminator carries SERVER_MORE_RESULTS_EXISTS.
pub fn parse_response(mc: &mut MsgCur<'_>, kind: RespKind) -> Result<Vec<Unit>, String> {
    let mut units = Vec::new();
    match kind {
        RespKind::None => {}
        RespKind::OkErr => {
            let m = mc.next("OK or ERR")?;
            if m.first() == Some(&0xff) {
                units.push(Unit::Err(parse_err(m)?));
            } else {
                units.push(parse_ok(m)?);
            }
        }
        RespKind::FieldList => {
            let mut cols = Vec::new();
            loop {
                let m = mc.next("field list column or EOF")?;
                if m.first() == Some(&0xff) {
                    units.push(Unit::Err(parse_err(m)?));
                    return Ok(units);
                }
                if is_eof(m) {
                    parse_eof(m)?;
                    break;
                }
                cols.push(parse_coldef(m, true)?);
            }
            units.push(Unit::FieldList { cols });
        }
        RespKind::Prepare => {
            let m = mc.next("COM_STMT_PREPARE_OK or ERR")?;
            if m.first() == Some(&0xff) {
                units.push(Unit::Err(parse_err(m)?));
                return Ok(units);
            }
            let mut c = Cur::new(m);
            let h = c.u8()?;
            if h != 0 {
                return Err(format!("COM_STMT_PREPARE_OK must start with 0x00, got 0x{:02x}", h));
            }
            let id = c.u32()?;
            let ncols = c.u16()? as usize;
            let nparams = c.u16()? as usize;
            let _filler = c.u8()?;
            let warnings = c.u16()?;
            c.done("COM_STMT_PREPARE_OK")?;
            let params = parse_coldefs(mc, nparams, false)?;
            if nparams > 0 {
                let m = mc.next("EOF after parameter definitions")?;
                if !is_eof(m) {
                    return Err(format!("expected EOF after {} parameter definitions, got message starting {:02x?}", nparams, &m[..m.len().min(8)]));
                }
                parse_eof(m)?;
            }
            let cols = parse_coldefs(mc, ncols, false)?;
            if ncols > 0 {
                let m = mc.next("EOF after column definitions")?;
                if !is_eof(m) {
                    return Err(format!("expected EOF after {} column definitions, got message starting {:02x?}", ncols, &m[..m.len().min(8)]));
                }
                parse_eof(m)?;
            }
            units.push(Unit::PrepareOk {
                id,
                params,
                cols,
                warnings,
            });
        }
        RespKind::Query | RespKind::Execute => loop {
            let m = mc.next("OK, ERR or a column count")?;
            match m.first() {
                None => return Err("empty message where a response was expected".into()),
                Some(0xff) => {
                    units.push(Unit::Err(parse_err(m)?));
                    return Ok(units);
                }
                Some(0x00) => {
                    let u = parse_ok(m)?;
                    let more = u.more();
                    units.push(u);
                    if !more {
                        return Ok(units);
                    }
                }
                Some(_) => {
                    let mut c = Cur::new(m);
                    let n = c.lenenc().map_err(|e| format!("column count: {}", e))? as usize;
                    c.done("column count message")?;
                    if n == 0 {
                        return Err("column count 0 in a resultset header".into());
                    }
                    let cols = parse_coldefs(mc, n, false)?;
                    let m = mc.next("EOF after column definitions")?;
                    if !is_eof(m) {
                        return Err(format!(
                            "expected EOF after {} column definitions, got message starting {:02x?}",
                            n,
                            &m[..m.len().min(8)]
                        ));
                    }
                    parse_eof(m)?;
                    let mut rows = Vec::new();
                    let end;
                    loop {
                        let m = mc.next("a row, EOF or ERR")?;
                        if m.first() == Some(&0xff) {
                            end = Err(parse_err(m)?);
                            break;
                        }
                        if is_eof(m) {
                            end = Ok(parse_eof(m)?);
                            break;
                        }
                        let row = if kind == RespKind::Query {
                            parse_text_row(m, n)
                        } else {
                            parse_bin_row(m, &cols)
                        }
                        .map_err(|e| format!("row {}: {}", rows.len(), e))?;
                        rows.push(row);
                    }
                    let u = Unit::ResultSet { cols, rows, end };
                    let more = u.more();
                    units.push(u);
                    if !more {
                        return Ok(units);
                    }
                }
            }
        },
    }
    Ok(units)
}

/// The decoded greeting (protocol 10).
#[derive(Clone, Debug)]
pub struct Greeting {
    pub protocol: u8,
    pub version: Vec<u8>,
    pub conn_id: u32,
    pub caps: u32,
    pub charset: u8,
    pub status: u16,
    pub salt: Vec<u8>,
    pub plugin: Vec<u8>,
}

pub fn parse_greeting(m: &[u8]) -> Result<Greeting, String> {
    let mut c = Cur::new(m);
    let protocol = c.u8()?;
    let mut version = Vec::new();
    loop {
        let b = c.u8().map_err(|_| "greeting: unterminated server version".to_string())?;
        if b == 0 {
            break;
        }
        version.push(b);
    }
    let conn_id = c.u32()?;
    let mut salt = c.take(8)?.to_vec();
    let filler = c.u8()?;
    if filler != 0 {
        return Err("greeting: filler after auth-plugin-data-part-1 must be 0".into());
    }
    let caps_lo = c.u16()? as u32;
    let charset = c.u8()?;
    let status = c.u16()?;
    let caps_hi = c.u16()? as u32;
    let caps = caps_lo | caps_hi << 16;
    let auth_len = c.u8()?;
    let _reserved = c.take(10)?;
    let mut plugin = Vec::new();
    // 4.1+ servers extend the salt; documented as conditional on SECURE_CONNECTION, but servers
    // of the 4.1/5.x generation send it unconditionally, so it is accepted whenever present
    if caps & CAP_SECURE_CONNECTION != 0 || c.left() > 0 {
        let n = std::cmp::max(13, auth_len as i32 - 8) as usize;
        let part2 = c.take(n)?;
        salt.extend_from_slice(part2);
    }
    if caps & CAP_PLUGIN_AUTH != 0 {
        loop {
            if c.left() == 0 {
                break;
            }
            let b = c.u8()?;
            if b == 0 {
                break;
            }
            plugin.push(b);
        }
    }
    Ok(Greeting {
        protocol,
        version,
        conn_id,
        caps,
        charset,
        status,
        salt,
        plugin,
    })
}

/// Check that the raw packets `pkts[from..to]` carry consecutive sequence ids starting at `start`.
pub fn check_seq(pkts: &[RawPkt], from: usize, to: usize, start: u8) -> Result<(), String> {
    let mut s = start;
    for (k, p) in pkts[from..to].iter().enumerate() {
        if p.seq != s {
            return Err(format!(
                "packet {} of the response carries sequence id {}, expected {} (response starts at {})",
                k, p.seq, s, start
            ));
        }
        s = s.wrapping_add(1);
    }
    Ok(())
}
