//! Scripted conversations: a handshake plus a list of client commands, the byte stream they
//! make, and the strict decoding of everything the server answered.

use crate::refwire::*;

#[derive(Clone, Debug)]
pub struct ClientCmd {
    pub payload: Vec<u8>,
    pub seq: u8,
    pub resp: RespKind,
}

impl ClientCmd {
    pub fn new(payload: Vec<u8>) -> Self {
        let resp = resp_kind_of(&payload);
        ClientCmd { payload, seq: 0, resp }
    }
    pub fn seq(mut self, s: u8) -> Self {
        self.seq = s;
        self
    }
}

/// what a conformant server answers to this command
pub fn resp_kind_of(payload: &[u8]) -> RespKind {
    match payload.first() {
        Some(&COM_QUERY) => RespKind::Query,
        Some(&COM_STMT_EXECUTE) => RespKind::Execute,
        Some(&COM_STMT_PREPARE) => RespKind::Prepare,
        Some(&COM_FIELD_LIST) => RespKind::FieldList,
        Some(&COM_PING) | Some(&COM_INIT_DB) => RespKind::OkErr,
        _ => RespKind::None,
    }
}

pub fn q(text: &[u8]) -> ClientCmd {
    ClientCmd::new(with_byte(COM_QUERY, text))
}
pub fn ping() -> ClientCmd {
    ClientCmd::new(vec![COM_PING])
}
pub fn quit() -> ClientCmd {
    ClientCmd::new(vec![COM_QUIT])
}

#[derive(Clone, Debug)]
pub struct Conv {
    /// framed handshake bytes
    pub handshake: Vec<u8>,
    /// sequence id of the last handshake packet
    pub hs_seq: u8,
    pub cmds: Vec<ClientCmd>,
}

pub struct Stream {
    pub bytes: Vec<u8>,
    /// end offset (exclusive) of the handshake and of every command
    pub ends: Vec<usize>,
    /// sequence id of the last packet of every command
    pub last_seq: Vec<u8>,
    /// offsets of every packet header start
    pub headers: Vec<usize>,
}

impl Conv {
    pub fn new(cmds: Vec<ClientCmd>) -> Self {
        Conv {
            handshake: default_handshake(),
            hs_seq: 1,
            cmds,
        }
    }

    pub fn stream(&self) -> Stream {
        let mut bytes = self.handshake.clone();
        let mut ends = vec![bytes.len()];
        let mut last_seq = Vec::new();
        let mut headers = vec![0];
        for c in &self.cmds {
            let (f, ls) = frame(c.seq, &c.payload);
            // header offsets inside this framed message
            let mut off = 0;
            let base = bytes.len();
            while off < f.len() {
                headers.push(base + off);
                let n = f[off] as usize | (f[off + 1] as usize) << 8 | (f[off + 2] as usize) << 16;
                off += 4 + n;
            }
            bytes.extend_from_slice(&f);
            ends.push(bytes.len());
            last_seq.push(ls);
        }
        Stream {
            bytes,
            ends,
            last_seq,
            headers,
        }
    }
}

pub struct Decoded {
    pub greeting: Greeting,
    pub auth: Unit,
    pub replies: Vec<Vec<Unit>>,
    /// number of raw packets per reply
    pub reply_pkts: Vec<usize>,
    pub n_pkts: usize,
    pub n_msgs: usize,
    /// how many logical messages the expected replies consumed
    pub consumed_msgs: usize,
    /// the messages after the last expected reply (only with allow_trailing)
    pub trailing: Vec<Vec<u8>>,
}

/// Decode the complete server output of a conversation. `n_cmds` = how many commands the server
/// is expected to have answered (all of them unless the conversation was cut short).
pub fn decode_all(out: &[u8], conv: &Conv, last_seq: &[u8], n_cmds: usize, allow_trailing: bool) -> Result<Decoded, String> {
    let pkts = split_packets(out)?;
    let msgs = reassemble(out, &pkts)?;
    let mut mc = MsgCur { msgs: &msgs, i: 0 };
    let g = mc.next("the greeting")?;
    let greeting = parse_greeting(g).map_err(|e| format!("greeting: {}", e))?;
    check_seq(&pkts, 0, msgs[0].n_pkts, 0).map_err(|e| format!("greeting: {}", e))?;
    let before = mc.i;
    let auth = parse_response(&mut mc, RespKind::OkErr).map_err(|e| format!("auth reply: {}", e))?;
    let from = msgs[before].first_pkt;
    check_seq(&pkts, from, from + msgs[before].n_pkts, conv.hs_seq.wrapping_add(1)).map_err(|e| format!("auth reply: {}", e))?;
    let mut replies = Vec::new();
    let mut reply_pkts = Vec::new();
    for (k, c) in conv.cmds.iter().take(n_cmds).enumerate() {
        let before = mc.i;
        let units = parse_response(&mut mc, c.resp).map_err(|e| format!("reply to command {}: {}", k, e))?;
        let mut np = 0;
        if mc.i > before {
            let from = msgs[before].first_pkt;
            let to = msgs[mc.i - 1].first_pkt + msgs[mc.i - 1].n_pkts;
            np = to - from;
            check_seq(&pkts, from, to, last_seq[k].wrapping_add(1)).map_err(|e| format!("reply to command {}: {}", k, e))?;
        }
        replies.push(units);
        reply_pkts.push(np);
    }
    if !allow_trailing && mc.i != msgs.len() {
        return Err(format!(
            "{} stray message(s) after the last expected reply; first starts {:02x?}",
            msgs.len() - mc.i,
            &msgs[mc.i].data[..msgs[mc.i].data.len().min(12)]
        ));
    }
    Ok(Decoded {
        greeting,
        auth: auth.into_iter().next().unwrap(),
        replies,
        reply_pkts,
        n_pkts: pkts.len(),
        n_msgs: msgs.len(),
        consumed_msgs: mc.i,
        trailing: msgs[mc.i..].iter().map(|m| m.data.clone()).collect(),
    })
}

/// Count how many *complete* replies (greeting = 1, auth reply = 2, then one per replying
/// command) are present in `flushed`. Used by the lock-step client (C12) as its release rule and
/// by the invariant at read().
pub fn complete_replies(flushed: &[u8], conv: &Conv) -> usize {
    // tolerate a truncated tail: only complete packets count
    let mut pkts = Vec::new();
    let mut p = 0;
    while flushed.len() - p >= 4 {
        let len = flushed[p] as usize | (flushed[p + 1] as usize) << 8 | (flushed[p + 2] as usize) << 16;
        if flushed.len() - p - 4 < len {
            break;
        }
        pkts.push(RawPkt {
            seq: flushed[p + 3],
            start: p + 4,
            len,
        });
        p += 4 + len;
    }
    // drop a trailing maximal packet without its closer
    while let Some(l) = pkts.last() {
        if l.len == MAXP {
            pkts.pop();
        } else {
            break;
        }
    }
    let msgs = match reassemble(flushed, &pkts) {
        Ok(m) => m,
        Err(_) => return 0,
    };
    let mut mc = MsgCur { msgs: &msgs, i: 0 };
    let mut n = 0;
    if mc.next("greeting").is_err() {
        return n;
    }
    n += 1;
    if parse_response(&mut mc, RespKind::OkErr).is_err() {
        return n;
    }
    n += 1;
    for c in &conv.cmds {
        if c.resp == RespKind::None {
            continue;
        }
        if parse_response(&mut mc, c.resp).is_err() {
            return n;
        }
        n += 1;
    }
    n
}

/// `complete_replies` as a stateful closure for long conversations: the flushed output only ever
/// grows, so the bytes of replies already counted are not parsed again (a lock-step client over a
/// session of 70 000 commands would otherwise cost quadratic time).
pub fn incremental_replies(conv: &Conv) -> impl FnMut(&[u8]) -> usize {
    // what the client expects, in order: the greeting (None), the auth reply, one per replying command
    let mut expected: Vec<Option<RespKind>> = vec![None, Some(RespKind::OkErr)];
    expected.extend(conv.cmds.iter().filter(|c| c.resp != RespKind::None).map(|c| Some(c.resp)));
    let mut off = 0usize;
    let mut stage = 0usize;
    move |flushed: &[u8]| {
        while stage < expected.len() && off <= flushed.len() {
            let tail = &flushed[off..];
            let mut pkts = Vec::new();
            let mut p = 0;
            while tail.len() - p >= 4 {
                let len = tail[p] as usize | (tail[p + 1] as usize) << 8 | (tail[p + 2] as usize) << 16;
                if tail.len() - p - 4 < len {
                    break;
                }
                pkts.push(RawPkt { seq: tail[p + 3], start: p + 4, len });
                p += 4 + len;
            }
            while let Some(l) = pkts.last() {
                if l.len == MAXP {
                    pkts.pop();
                } else {
                    break;
                }
            }
            let msgs = match reassemble(tail, &pkts) {
                Ok(m) => m,
                Err(_) => break,
            };
            let mut mc = MsgCur { msgs: &msgs, i: 0 };
            let ok = match expected[stage] {
                None => mc.next("greeting").is_ok(),
                Some(k) => parse_response(&mut mc, k).is_ok(),
            };
            if !ok || mc.i == 0 {
                break;
            }
            let last = &msgs[mc.i - 1];
            let lp = &pkts[last.first_pkt + last.n_pkts - 1];
            off += lp.start + lp.len;
            stage += 1;
        }
        stage
    }
}

/// After a command that must be refused without reaching the shim, the server may say goodbye
/// with one ERR packet (or say nothing): anything else is stray output.
pub fn trailing_is_at_most_one_err(d: &Decoded) -> Result<(), String> {
    match d.trailing.len() {
        0 => Ok(()),
        1 if d.trailing[0].first() == Some(&0xff) => parse_err(&d.trailing[0]).map(|_| ()),
        n => Err(format!("{} message(s) after the last served command, first starts {:02x?}", n, &d.trailing[0][..d.trailing[0].len().min(8)])),
    }
}

/// Server output without its first packet (the greeting, whose connection id and salt a server is
/// free to choose per connection): what byte-for-byte comparisons between two runs may look at.
pub fn after_greeting(out: &[u8]) -> &[u8] {
    if out.len() < 4 {
        return out;
    }
    let n = out[0] as usize | (out[1] as usize) << 8 | (out[2] as usize) << 16;
    if out.len() < 4 + n {
        return &out[out.len()..];
    }
    &out[4 + n..]
}
