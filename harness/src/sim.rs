//! E1 — the owned environment: a scripted in-memory transport.
//!
//! Everything a connection can observe from its transport is decided here, by the scenario:
//! where `read()` results end (`cuts`), when client bytes become available (`gates`), how much a
//! `write()` accepts (`write_cap`), and which operation fails (`fault`). Every operation is
//! logged, together with the number of shim callbacks started so far and the flushed watermark.

use std::cell::RefCell;
use std::io::{self, Read, Write};
use std::rc::Rc;
use std::sync::Arc;

#[derive(Clone, Copy, Debug, PartialEq, Eq)]
pub enum OpKind {
    Read,
    Write,
    Flush,
}

#[derive(Clone, Debug)]
pub struct Op {
    pub kind: OpKind,
    pub req: usize,
    /// Ok(bytes) or Err(kind)
    pub ret: Result<usize, io::ErrorKind>,
    /// number of shim callbacks that had *started* when this op was issued
    pub cbs_started: usize,
    /// position in the client stream before the op
    pub in_pos: usize,
}

#[derive(Clone, Copy, Debug, PartialEq, Eq)]
pub enum FaultKind {
    /// return Err(kind)
    Error(io::ErrorKind),
    /// a write that accepts zero bytes
    ZeroWrite,
    /// a write that accepts only this many bytes (at least 1, fewer than offered)
    ShortWrite(usize),
}

#[derive(Clone, Copy, Debug)]
pub struct Fault {
    pub at_op: usize,
    pub kind: FaultKind,
    pub persistent: bool,
}

/// A gate: client bytes at positions >= `pos` are not sent before the flushed server output
/// satisfies the gate's condition (evaluated by `gate_fn`, given the flushed output and `need`).
#[derive(Clone, Copy, Debug)]
pub struct Gate {
    pub pos: usize,
    pub need: usize,
}

pub struct SimState {
    pub input: Arc<Vec<u8>>,
    pub pos: usize,
    /// ascending absolute positions in `input` that no read may cross
    pub cuts: Vec<usize>,
    cut_idx: usize,
    /// if set, every read returns at most this many bytes
    pub uniform_read: usize,
    pub gates: Vec<Gate>,
    gate_idx: usize,
    /// given flushed output, how many complete replies has the client seen
    pub gate_fn: Option<Box<dyn FnMut(&[u8]) -> usize>>,
    pub out: Vec<u8>,
    pub flushed: usize,
    pub ops: Vec<Op>,
    pub fault: Option<Fault>,
    pub write_cap: usize,
    pub max_ops: usize,
    pub cbs_started: usize,
    /// set when the server read while the (lock-step) client was waiting for a reply
    pub hang: bool,
    pub budget_exhausted: bool,
    /// called at the start of every read(), before anything else (C12 invariant)
    pub read_hook: Option<Box<dyn FnMut(&SimState) -> Option<String>>>,
    pub hook_violation: Option<String>,
    /// counters for anti-vacuity
    pub reads_ending_in_header: usize,
    pub log_ops: bool,
    pub n_reads: usize,
    pub n_writes: usize,
    pub n_flushes: usize,
}

impl SimState {
    pub fn new(input: Arc<Vec<u8>>) -> Self {
        SimState {
            input,
            pos: 0,
            cuts: Vec::new(),
            cut_idx: 0,
            uniform_read: usize::MAX,
            gates: Vec::new(),
            gate_idx: 0,
            gate_fn: None,
            out: Vec::new(),
            flushed: 0,
            ops: Vec::new(),
            fault: None,
            write_cap: usize::MAX,
            max_ops: 50_000_000,
            cbs_started: 0,
            hang: false,
            budget_exhausted: false,
            read_hook: None,
            hook_violation: None,
            reads_ending_in_header: 0,
            log_ops: true,
            n_reads: 0,
            n_writes: 0,
            n_flushes: 0,
        }
    }

    fn op_index(&self) -> usize {
        self.n_reads + self.n_writes + self.n_flushes
    }

    fn fault_now(&self) -> Option<FaultKind> {
        match self.fault {
            Some(f) if f.at_op == self.op_index() || (f.persistent && self.op_index() > f.at_op) => {
                Some(f.kind)
            }
            _ => None,
        }
    }

    fn log(&mut self, kind: OpKind, req: usize, ret: Result<usize, io::ErrorKind>, in_pos: usize) {
        if self.log_ops {
            let cbs_started = self.cbs_started;
            self.ops.push(Op {
                kind,
                req,
                ret,
                cbs_started,
                in_pos,
            });
        }
        match kind {
            OpKind::Read => self.n_reads += 1,
            OpKind::Write => self.n_writes += 1,
            OpKind::Flush => self.n_flushes += 1,
        }
    }

    /// end of the client bytes that have been released so far
    fn released_end(&mut self) -> usize {
        while self.gate_idx < self.gates.len() {
            let g = self.gates[self.gate_idx];
            let have = match self.gate_fn.as_mut() {
                Some(f) => f(&self.out[..self.flushed]),
                None => usize::MAX,
            };
            if have >= g.need {
                self.gate_idx += 1;
            } else {
                return g.pos;
            }
        }
        self.input.len()
    }
}

#[derive(Clone)]
pub struct Sim(pub Rc<RefCell<SimState>>);

impl Sim {
    pub fn new(st: SimState) -> Self {
        Sim(Rc::new(RefCell::new(st)))
    }
}

impl Read for Sim {
    fn read(&mut self, buf: &mut [u8]) -> io::Result<usize> {
        let mut s = self.0.borrow_mut();
        if s.op_index() >= s.max_ops {
            s.budget_exhausted = true;
            return Err(io::Error::new(io::ErrorKind::Other, "VERIF op budget exhausted"));
        }
        if s.hook_violation.is_none() {
            if let Some(mut h) = s.read_hook.take() {
                let v = h(&s);
                s.read_hook = Some(h);
                if v.is_some() {
                    s.hook_violation = v;
                }
            }
        }
        let in_pos = s.pos;
        if let Some(f) = s.fault_now() {
            let k = match f {
                FaultKind::Error(k) => Some(k),
                FaultKind::ZeroWrite => Some(io::ErrorKind::Other),
                FaultKind::ShortWrite(_) => None,
            };
            if let Some(k) = k {
                s.log(OpKind::Read, buf.len(), Err(k), in_pos);
                return Err(io::Error::new(k, "VERIF injected read fault"));
            }
        }
        let limit = s.released_end();
        if s.pos >= limit {
            if limit >= s.input.len() {
                s.log(OpKind::Read, buf.len(), Ok(0), in_pos);
                return Ok(0);
            }
            // the client is waiting for a reply that has not been flushed: a real server would
            // block forever here
            s.hang = true;
            s.log(OpKind::Read, buf.len(), Err(io::ErrorKind::TimedOut), in_pos);
            return Err(io::Error::new(io::ErrorKind::TimedOut, "VERIF hang: read while client waits"));
        }
        while s.cut_idx < s.cuts.len() && s.cuts[s.cut_idx] <= s.pos {
            s.cut_idx += 1;
        }
        let mut end = limit;
        if s.cut_idx < s.cuts.len() {
            end = end.min(s.cuts[s.cut_idx]);
        }
        let n = (end - s.pos).min(buf.len()).min(s.uniform_read);
        let p = s.pos;
        buf[..n].copy_from_slice(&s.input[p..p + n]);
        s.pos += n;
        s.log(OpKind::Read, buf.len(), Ok(n), in_pos);
        Ok(n)
    }
}

impl Write for Sim {
    fn write(&mut self, buf: &[u8]) -> io::Result<usize> {
        let mut s = self.0.borrow_mut();
        if s.op_index() >= s.max_ops {
            s.budget_exhausted = true;
            return Err(io::Error::new(io::ErrorKind::Other, "VERIF op budget exhausted"));
        }
        let in_pos = s.pos;
        if let Some(f) = s.fault_now() {
            match f {
                FaultKind::Error(k) => {
                    s.log(OpKind::Write, buf.len(), Err(k), in_pos);
                    return Err(io::Error::new(k, "VERIF injected write fault"));
                }
                FaultKind::ZeroWrite => {
                    s.log(OpKind::Write, buf.len(), Ok(0), in_pos);
                    return Ok(0);
                }
                FaultKind::ShortWrite(n) => {
                    let n = n.max(1).min(buf.len().saturating_sub(1)).max(1).min(buf.len());
                    s.out.extend_from_slice(&buf[..n]);
                    s.log(OpKind::Write, buf.len(), Ok(n), in_pos);
                    return Ok(n);
                }
            }
        }
        let n = buf.len().min(s.write_cap);
        s.out.extend_from_slice(&buf[..n]);
        s.log(OpKind::Write, buf.len(), Ok(n), in_pos);
        Ok(n)
    }

    /// Like a socket (writev): one transport operation that takes bytes from all the slices, in
    /// order, up to what this write accepts. (std's default would pass on the first slice only, so
    /// an implementation that uses vectored writes would meet a transport no real one resembles.)
    fn write_vectored(&mut self, bufs: &[io::IoSlice<'_>]) -> io::Result<usize> {
        let total: usize = bufs.iter().map(|b| b.len()).sum();
        if bufs.len() <= 1 || total == 0 {
            return self.write(bufs.first().map(|b| &b[..]).unwrap_or(&[]));
        }
        let joined: Vec<u8> = bufs.iter().flat_map(|b| b.iter().copied()).collect();
        self.write(&joined)
    }

    fn flush(&mut self) -> io::Result<()> {
        let mut s = self.0.borrow_mut();
        if s.op_index() >= s.max_ops {
            s.budget_exhausted = true;
            return Err(io::Error::new(io::ErrorKind::Other, "VERIF op budget exhausted"));
        }
        let in_pos = s.pos;
        if let Some(f) = s.fault_now() {
            let k = match f {
                FaultKind::Error(k) => Some(k),
                FaultKind::ZeroWrite => Some(io::ErrorKind::Other),
                FaultKind::ShortWrite(_) => None,
            };
            if let Some(k) = k {
                s.log(OpKind::Flush, 0, Err(k), in_pos);
                return Err(io::Error::new(k, "VERIF injected flush fault"));
            }
        }
        s.flushed = s.out.len();
        s.log(OpKind::Flush, 0, Ok(0), in_pos);
        Ok(())
    }
}
