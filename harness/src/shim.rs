//! E4 — the recording shim. Logs every callback with owned copies of its arguments and answers
//! by interpreting a *writer program* (a list of writer-API calls with literal arguments).

use crate::sim::Sim;
use msql_srv::*;
use std::io::{self, Read, Write};
use std::sync::Arc;
use std::time::Duration;

/// A value the shim can write. Every variant delegates to the crate's own `ToMysqlValue` impl
/// for the wrapped Rust type, so the real encoders are what runs.
#[derive(Clone, Debug, PartialEq)]
pub enum Val {
    Null,
    I8(i8),
    U8(u8),
    I16(i16),
    U16(u16),
    I32(i32),
    U32(u32),
    I64(i64),
    U64(u64),
    Isize(isize),
    Usize(usize),
    F32(f32),
    F64(f64),
    Bytes(Vec<u8>),
    Str(String),
    Date(chrono::NaiveDate),
    DateTime(chrono::NaiveDateTime),
    Dur(Duration),
    Myc(mysql_common::value::Value),
    OptI32(Option<i32>),
    OptStr(Option<String>),
}

macro_rules! delegate {
    ($self:ident, $v:ident => $e:expr) => {
        match $self {
            Val::Null => {
                let $v = &None::<u8>;
                $e
            }
            Val::I8($v) => $e,
            Val::U8($v) => $e,
            Val::I16($v) => $e,
            Val::U16($v) => $e,
            Val::I32($v) => $e,
            Val::U32($v) => $e,
            Val::I64($v) => $e,
            Val::U64($v) => $e,
            Val::Isize($v) => $e,
            Val::Usize($v) => $e,
            Val::F32($v) => $e,
            Val::F64($v) => $e,
            Val::Bytes($v) => $e,
            Val::Str($v) => $e,
            Val::Date($v) => $e,
            Val::DateTime($v) => $e,
            Val::Dur($v) => $e,
            Val::Myc($v) => $e,
            Val::OptI32($v) => $e,
            Val::OptStr($v) => $e,
        }
    };
}

impl ToMysqlValue for Val {
    fn to_mysql_text<W: Write>(&self, w: &mut W) -> io::Result<()> {
        delegate!(self, v => v.to_mysql_text(w))
    }
    fn to_mysql_bin<W: Write>(&self, w: &mut W, c: &Column) -> io::Result<()> {
        delegate!(self, v => v.to_mysql_bin(w, c))
    }
    fn is_null(&self) -> bool {
        delegate!(self, v => v.is_null())
    }
}

#[derive(Clone, Debug)]
pub enum WOp {
    Start(Arc<Vec<Column>>),
    WriteCol(Val),
    /// try the first value; if the call is refused, write the second instead
    WriteColOr(Val, Val),
    /// try a value that is expected to be refused and go on without it
    WriteColRefused(Val),
    EndRow,
    /// end_row called this many times in a loop (counts no list of calls could hold)
    EndRows(u64),
    WriteRow(Vec<Val>),
    Finish,
    FinishOne,
    FinishError(ErrorKind, Vec<u8>),
    CompleteOne(u64, u64),
    Completed(u64, u64),
    Error(ErrorKind, Vec<u8>),
    NoMoreResults,
    Drop,
    /// the writer is dropped by a panic that unwinds through the code holding it and is caught by
    /// the shim (a backend wrapped in catch_unwind): its destructor runs while the thread is panicking
    DropUnwinding,
}

impl WOp {
    pub fn short(&self) -> String {
        match self {
            WOp::Start(c) => format!("start({})", c.len()),
            WOp::WriteCol(v) => format!("write_col({})", val_short(v)),
            WOp::WriteColOr(a, b) => format!("write_col({}) or, if refused, write_col({})", val_short(a), val_short(b)),
            WOp::WriteColRefused(a) => format!("write_col({}) expecting a refusal", val_short(a)),
            WOp::EndRow => "end_row".into(),
            WOp::EndRows(n) => format!("end_row x {}", n),
            WOp::WriteRow(v) => format!("write_row({})", v.len()),
            WOp::Finish => "finish".into(),
            WOp::FinishOne => "finish_one".into(),
            WOp::FinishError(k, _) => format!("finish_error({})", *k as u16),
            WOp::CompleteOne(r, i) => format!("complete_one({},{})", r, i),
            WOp::Completed(r, i) => format!("completed({},{})", r, i),
            WOp::Error(k, _) => format!("error({})", *k as u16),
            WOp::NoMoreResults => "no_more_results".into(),
            WOp::Drop => "drop".into(),
            WOp::DropUnwinding => "dropped by an unwinding panic the shim catches".into(),
        }
    }
}

/// drop `x` while a panic unwinds (resume_unwind does not call the panic hook), and catch the panic
fn unwind_drop<T>(x: T) {
    let _ = std::panic::catch_unwind(std::panic::AssertUnwindSafe(move || {
        let _held = x;
        std::panic::resume_unwind(Box::new("the backend behind the shim failed"));
    }));
}

pub fn val_short(v: &Val) -> String {
    match v {
        Val::Bytes(b) if b.len() > 16 => format!("Bytes[{}]", b.len()),
        Val::Str(b) if b.len() > 16 => format!("Str[{}]", b.len()),
        other => format!("{:?}", other),
    }
}

pub fn prog_short(p: &[WOp]) -> String {
    p.iter().map(|o| o.short()).collect::<Vec<_>>().join("; ")
}

#[derive(Clone, Debug)]
pub enum Behavior {
    Prog(Arc<Vec<WOp>>),
    PrepReply {
        id: u32,
        params: Arc<Vec<Column>>,
        cols: Arc<Vec<Column>>,
    },
    PrepError(ErrorKind, Vec<u8>),
    InitOk,
    InitErr(ErrorKind, Vec<u8>),
    /// do not touch the writer, return Ok
    Silent,
    /// do not touch the writer, return the marker error
    Fail(u64),
}

#[derive(Clone, Debug, PartialEq, Hash)]
pub enum PVal {
    Null,
    Bytes(Vec<u8>),
    Int(i64),
    UInt(u64),
    Double(u64),
    Date(Vec<u8>),
    Time(Vec<u8>),
    Datetime(Vec<u8>),
}

impl PVal {
    pub fn from_value(v: Value<'_>) -> PVal {
        match v.into_inner() {
            ValueInner::NULL => PVal::Null,
            ValueInner::Bytes(b) => PVal::Bytes(b.to_vec()),
            ValueInner::Int(i) => PVal::Int(i),
            ValueInner::UInt(u) => PVal::UInt(u),
            ValueInner::Double(d) => PVal::Double(d.to_bits()),
            ValueInner::Date(b) => PVal::Date(b.to_vec()),
            ValueInner::Time(b) => PVal::Time(b.to_vec()),
            ValueInner::Datetime(b) => PVal::Datetime(b.to_vec()),
        }
    }
}

#[derive(Clone, Debug, PartialEq, Hash)]
pub enum Cb {
    Auth {
        user: Option<Vec<u8>>,
        certs: Option<Vec<Vec<u8>>>,
    },
    Query(String),
    Prepare(String),
    Execute {
        id: u32,
        params: Vec<(u8, PVal)>,
    },
    Close(u32),
    Init(String),
}

#[derive(Debug)]
pub enum ShimErr {
    Io(io::Error),
    Marker(u64),
}

impl From<io::Error> for ShimErr {
    fn from(e: io::Error) -> Self {
        ShimErr::Io(e)
    }
}

#[derive(Clone, Debug)]
pub struct CallRes {
    pub cb: usize,
    pub op: usize,
    pub res: Result<(), String>,
}

/// Extra things a scenario may ask the execute callback to do with each parameter
/// (conversions under test in C08).
pub type ParamProbe = Box<dyn FnMut(usize, &ParamValue<'_>)>;

pub struct Shim {
    pub sim: Option<Sim>,
    pub log: Vec<(usize, Cb)>, // (transport op count at entry, callback)
    pub calls: Vec<CallRes>,
    pub behave: Box<dyn FnMut(usize, &Cb) -> Behavior>,
    pub auth_reject: Option<u64>,
    pub tls: Option<Arc<rustls::ServerConfig>>,
    pub iterate_params: bool,
    pub param_probe: Option<ParamProbe>,
    /// per execution (by ordinal): 0 = the shim reads every parameter, 1 = none, 2 = only the first
    pub skip_iter: Vec<u8>,
    pub n_exec: usize,
    /// the k-th command callback (0-based among query/prepare/execute/init), after doing what its
    /// behaviour says, returns Err(marker) instead of Ok ("the client was told, now drop it")
    pub fail_after: Option<(usize, u64)>,
    pub n_bound: usize,
}

impl Shim {
    pub fn new(sim: Option<Sim>, behave: Box<dyn FnMut(usize, &Cb) -> Behavior>) -> Self {
        Shim {
            sim,
            log: Vec::new(),
            calls: Vec::new(),
            behave,
            auth_reject: None,
            tls: None,
            iterate_params: true,
            param_probe: None,
            skip_iter: Vec::new(),
            n_exec: 0,
            fail_after: None,
            n_bound: 0,
        }
    }

    /// the result of a command callback, possibly replaced by the scripted late failure
    fn leave(&mut self, r: Result<(), ShimErr>) -> Result<(), ShimErr> {
        let k = self.n_bound;
        self.n_bound += 1;
        match (r, self.fail_after) {
            (Ok(()), Some((at, m))) if at == k => Err(ShimErr::Marker(m)),
            (r, _) => r,
        }
    }

    fn enter(&mut self, cb: Cb) -> (usize, Behavior) {
        let mut ops = 0;
        if let Some(sim) = &self.sim {
            let mut s = sim.0.borrow_mut();
            s.cbs_started += 1;
            ops = s.n_reads + s.n_writes + s.n_flushes;
        }
        let idx = self.log.len();
        let b = (self.behave)(idx, &cb);
        self.log.push((ops, cb));
        (idx, b)
    }
}

enum St<'a, W: Read + Write> {
    Q(QueryResultWriter<'a, W>),
    R(RowWriter<'a, W>),
    Done,
}

pub fn run_prog<'a, W: Read + Write>(
    prog: &'a [WOp],
    w: QueryResultWriter<'a, W>,
    cb: usize,
    calls: &mut Vec<CallRes>,
) -> Result<(), ShimErr> {
    let mut st = St::Q(w);
    for (i, op) in prog.iter().enumerate() {
        let cur = std::mem::replace(&mut st, St::Done);
        let res: io::Result<St<'a, W>> = match (cur, op) {
            (St::Q(q), WOp::Start(cols)) => q.start(&cols[..]).map(St::R),
            (St::Q(q), WOp::CompleteOne(r, id)) => q.complete_one(*r, *id).map(St::Q),
            (St::Q(q), WOp::Completed(r, id)) => q.completed(*r, *id).map(|_| St::Done),
            (St::Q(q), WOp::Error(k, m)) => q.error(*k, &m[..]).map(|_| St::Done),
            (St::Q(q), WOp::NoMoreResults) => q.no_more_results().map(|_| St::Done),
            (St::Q(q), WOp::Drop) => {
                drop(q);
                Ok(St::Done)
            }
            (St::Q(q), WOp::DropUnwinding) => {
                unwind_drop(q);
                Ok(St::Done)
            }
            (St::R(r), WOp::DropUnwinding) => {
                unwind_drop(r);
                Ok(St::Done)
            }
            (St::R(mut r), WOp::WriteCol(v)) => r.write_col(v).map(|_| St::R(r)),
            (St::R(mut r), WOp::WriteColOr(a, b)) => match r.write_col(a) {
                Ok(()) => Ok(St::R(r)),
                Err(_) => {
                    calls.push(CallRes { cb, op: i, res: Err("first alternative refused".into()) });
                    r.write_col(b).map(|_| St::R(r))
                }
            },
            (St::R(mut r), WOp::WriteColRefused(a)) => {
                if r.write_col(a).is_err() {
                    calls.push(CallRes { cb, op: i, res: Err("refused as expected".into()) });
                }
                Ok(St::R(r))
            }
            (St::R(mut r), WOp::EndRow) => r.end_row().map(|_| St::R(r)),
            (St::R(mut r), WOp::EndRows(n)) => {
                let mut res = Ok(());
                for _ in 0..*n {
                    res = r.end_row();
                    if res.is_err() {
                        break;
                    }
                }
                res.map(|_| St::R(r))
            }
            (St::R(mut r), WOp::WriteRow(vs)) => r.write_row(vs.iter()).map(|_| St::R(r)),
            (St::R(r), WOp::Finish) => r.finish().map(|_| St::Done),
            (St::R(r), WOp::FinishOne) => r.finish_one().map(St::Q),
            (St::R(r), WOp::FinishError(k, m)) => r.finish_error(*k, &m.to_vec()).map(|_| St::Done),
            (St::R(r), WOp::Drop) => {
                drop(r);
                Ok(St::Done)
            }
            (_, op) => panic!("VERIF harness bug: writer program op {:?} in wrong state", op.short()),
        };
        match res {
            Ok(s) => {
                calls.push(CallRes {
                    cb,
                    op: i,
                    res: Ok(()),
                });
                st = s;
            }
            Err(e) => {
                calls.push(CallRes {
                    cb,
                    op: i,
                    res: Err(e.to_string()),
                });
                return Err(ShimErr::Io(e));
            }
        }
        if let St::Done = st {
            break;
        }
    }
    // a program that ends without a terminal call drops whatever writer it holds
    drop(st);
    Ok(())
}

impl<'s, W: Read + Write> MysqlShim<W> for &'s mut Shim {
    type Error = ShimErr;

    fn on_prepare(&mut self, query: &str, info: StatementMetaWriter<'_, W>) -> Result<(), ShimErr> {
        let (idx, b) = self.enter(Cb::Prepare(query.to_owned()));
        let r = (|| match b {
            Behavior::PrepReply { id, params, cols } => {
                let r = info.reply(id, &params[..], &cols[..]);
                self.calls.push(CallRes {
                    cb: idx,
                    op: 0,
                    res: r.as_ref().map(|_| ()).map_err(|e| e.to_string()),
                });
                r?;
                Ok(())
            }
            Behavior::PrepError(k, m) => {
                let r = info.error(k, &m[..]);
                self.calls.push(CallRes {
                    cb: idx,
                    op: 0,
                    res: r.as_ref().map(|_| ()).map_err(|e| e.to_string()),
                });
                r?;
                Ok(())
            }
            Behavior::Fail(m) => Err(ShimErr::Marker(m)),
            Behavior::Silent => Ok(()),
            other => panic!("VERIF harness bug: behaviour {:?} for on_prepare", other),
        })();
        self.leave(r)
    }

    fn on_execute(&mut self, id: u32, params: ParamParser<'_>, results: QueryResultWriter<'_, W>) -> Result<(), ShimErr> {
        let mut ps = Vec::new();
        let ord = self.n_exec;
        self.n_exec += 1;
        let mode = self.skip_iter.get(ord).copied().unwrap_or(0);
        if self.iterate_params && mode != 1 {
            for (i, p) in params.into_iter().enumerate() {
                if mode == 2 && i >= 1 {
                    break;
                }
                if let Some(probe) = self.param_probe.as_mut() {
                    probe(i, &p);
                }
                ps.push((p.coltype as u8, PVal::from_value(p.value)));
            }
        }
        let (idx, b) = self.enter(Cb::Execute { id, params: ps });
        let r = match b {
            Behavior::Prog(p) => run_prog(&p[..], results, idx, &mut self.calls),
            Behavior::Fail(m) => Err(ShimErr::Marker(m)),
            Behavior::Silent => Ok(()),
            other => panic!("VERIF harness bug: behaviour {:?} for on_execute", other),
        };
        self.leave(r)
    }

    fn on_close(&mut self, stmt: u32) {
        let _ = self.enter(Cb::Close(stmt));
    }

    fn on_query(&mut self, query: &str, results: QueryResultWriter<'_, W>) -> Result<(), ShimErr> {
        let (idx, b) = self.enter(Cb::Query(query.to_owned()));
        let r = match b {
            Behavior::Prog(p) => run_prog(&p[..], results, idx, &mut self.calls),
            Behavior::Fail(m) => Err(ShimErr::Marker(m)),
            Behavior::Silent => Ok(()),
            other => panic!("VERIF harness bug: behaviour {:?} for on_query", other),
        };
        self.leave(r)
    }

    fn on_init(&mut self, db: &str, w: InitWriter<'_, W>) -> Result<(), ShimErr> {
        let (idx, b) = self.enter(Cb::Init(db.to_owned()));
        let r = match b {
            Behavior::InitOk => w.ok(),
            Behavior::InitErr(k, m) => w.error(k, &m[..]),
            Behavior::Silent => return self.leave(Ok(())),
            Behavior::Fail(m) => return self.leave(Err(ShimErr::Marker(m))),
            other => panic!("VERIF harness bug: behaviour {:?} for on_init", other),
        };
        self.calls.push(CallRes {
            cb: idx,
            op: 0,
            res: r.as_ref().map(|_| ()).map_err(|e| e.to_string()),
        });
        let r = r.map_err(ShimErr::from);
        self.leave(r)
    }

    fn tls_config(&self) -> Option<Arc<rustls::ServerConfig>> {
        self.tls.clone()
    }

    fn after_authentication(&mut self, ctx: &AuthenticationContext<'_>) -> Result<(), ShimErr> {
        let certs = ctx
            .tls_client_certs
            .map(|cs| cs.iter().map(|c| c.as_ref().to_vec()).collect::<Vec<_>>());
        let mut ops = 0;
        if let Some(sim) = &self.sim {
            let mut s = sim.0.borrow_mut();
            s.cbs_started += 1;
            ops = s.n_reads + s.n_writes + s.n_flushes;
        }
        self.log.push((
            ops,
            Cb::Auth {
                user: ctx.username.clone(),
                certs,
            },
        ));
        match self.auth_reject {
            Some(m) => Err(ShimErr::Marker(m)),
            None => Ok(()),
        }
    }
}
