//! Test PKI generated once per process with rcgen (keys are random; nothing depends on them).

use rustls::pki_types::{CertificateDer, PrivateKeyDer, PrivatePkcs8KeyDer};
use std::sync::{Arc, OnceLock};

pub struct Pki {
    pub server_plain: Arc<rustls::ServerConfig>,
    pub server_client_auth: Arc<rustls::ServerConfig>,
    pub client_cert: Vec<u8>,
    pub client_key: Vec<u8>,
}

static PKI: OnceLock<Pki> = OnceLock::new();

pub fn pki() -> &'static Pki {
    PKI.get_or_init(|| {
        let server = rcgen::generate_simple_self_signed(vec!["localhost".to_string()]).unwrap();
        let server_der = server.serialize_der().unwrap();
        let server_key = server.serialize_private_key_der();
        // a private CA (the server's trust anchor for client authentication) and a client leaf
        let mut ca_params = rcgen::CertificateParams::new(vec![]);
        ca_params.is_ca = rcgen::IsCa::Ca(rcgen::BasicConstraints::Unconstrained);
        ca_params.distinguished_name.push(rcgen::DnType::CommonName, "verif test CA");
        let ca = rcgen::Certificate::from_params(ca_params).unwrap();
        let ca_der = ca.serialize_der().unwrap();
        let mut leaf_params = rcgen::CertificateParams::new(vec!["client".to_string()]);
        leaf_params.extended_key_usages = vec![rcgen::ExtendedKeyUsagePurpose::ClientAuth];
        let leaf = rcgen::Certificate::from_params(leaf_params).unwrap();
        let client_der = leaf.serialize_der_with_signer(&ca).unwrap();
        let client_key = leaf.serialize_private_key_der();
        let plain = rustls::ServerConfig::builder()
            .with_no_client_auth()
            .with_single_cert(vec![CertificateDer::from(server_der.clone())], PrivateKeyDer::Pkcs8(PrivatePkcs8KeyDer::from(server_key.clone())))
            .unwrap();
        let mut roots = rustls::RootCertStore::empty();
        roots.add(CertificateDer::from(ca_der)).unwrap();
        let verifier = rustls::server::WebPkiClientVerifier::builder(Arc::new(roots)).build().unwrap();
        let with_auth = rustls::ServerConfig::builder()
            .with_client_cert_verifier(verifier)
            .with_single_cert(vec![CertificateDer::from(server_der)], PrivateKeyDer::Pkcs8(PrivatePkcs8KeyDer::from(server_key)))
            .unwrap();
        Pki {
            server_plain: Arc::new(plain),
            server_client_auth: Arc::new(with_auth),
            client_cert: client_der,
            client_key,
        }
    })
}
