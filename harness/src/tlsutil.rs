//! Test PKI generated once per process with rcgen (keys are random; nothing depends on them).

use rustls::pki_types::{CertificateDer, PrivateKeyDer, PrivatePkcs8KeyDer};
use std::sync::{Arc, OnceLock};

pub struct Pki {
    pub server_plain: Arc<rustls::ServerConfig>,
    pub server_client_auth: Arc<rustls::ServerConfig>,
    pub client_cert: Vec<u8>,
    pub client_key: Vec<u8>,
}

static PKI: OnceLock<Pki> = OnceLock::new();

pub fn pki() -> &'static Pki {
    PKI.get_or_init(|| {
        let server = rcgen::generate_simple_self_signed(vec!["localhost".to_string()]).unwrap();
        let server_der = server.serialize_der().unwrap();
        let server_key = server.serialize_private_key_der();
        // a client certificate that is its own trust anchor (as in the repository's tests)
        let mut params = rcgen::CertificateParams::new(vec!["client".to_string()]);
        params.is_ca = rcgen::IsCa::Ca(rcgen::BasicConstraints::Unconstrained);
        let client = rcgen::Certificate::from_params(params).unwrap();
        let client_der = client.serialize_der().unwrap();
        let client_key = client.serialize_private_key_der();
        let plain = rustls::ServerConfig::builder()
            .with_no_client_auth()
            .with_single_cert(vec![CertificateDer::from(server_der.clone())], PrivateKeyDer::Pkcs8(PrivatePkcs8KeyDer::from(server_key.clone())))
            .unwrap();
        let mut roots = rustls::RootCertStore::empty();
        roots.add(CertificateDer::from(client_der.clone())).unwrap();
        let verifier = rustls::server::WebPkiClientVerifier::builder(Arc::new(roots)).build().unwrap();
        let with_auth = rustls::ServerConfig::builder()
            .with_client_cert_verifier(verifier)
            .with_single_cert(vec![CertificateDer::from(server_der)], PrivateKeyDer::Pkcs8(PrivatePkcs8KeyDer::from(server_key)))
            .unwrap();
        Pki {
            server_plain: Arc::new(plain),
            server_client_auth: Arc::new(with_auth),
            client_cert: client_der,
            client_key,
        }
    })
}
