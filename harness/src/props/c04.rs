//! C04 — outbound framing, including logical messages of 2^24-1 bytes and more.

use super::common::*;
use crate::conv::*;
use crate::engine::*;
use crate::refwire::*;
use crate::shim::*;
use msql_srv::{ColumnFlags, ColumnType, ErrorKind};
use serde_json::{json, Value as J};
use std::sync::Arc;

fn prefix_len(n: usize) -> usize {
    if n < 251 {
        1
    } else if n < 1 << 16 {
        3
    } else if n < 1 << 24 {
        4
    } else {
        9
    }
}

/// data length x with prefix_len(x) + x == total
fn cell_for_total(total: usize) -> Option<usize> {
    for p in [9usize, 4, 3, 1] {
        if total >= p {
            let x = total - p;
            if prefix_len(x) == p {
                return Some(x);
            }
        }
    }
    None
}

fn pattern_bytes(n: usize, salt: usize) -> Vec<u8> {
    (0..n).map(|i| ((i * 131 + i / 65521 + salt) % 251) as u8).collect()
}

#[derive(Clone, Debug)]
enum Shape {
    /// text row of cells with these data lengths
    TextCells(Vec<usize>),
    /// the same, but the large row is the last one and is never ended explicitly: finish()
    /// (variant 0) or dropping the writer (variant 1) has to end it
    TextCellsImplicit(Vec<usize>, u8),
    /// binary row: one BLOB cell of this length (plus header and bitmap)
    BinCell(usize),
    /// an ERR packet whose message has this length
    ErrMsg(usize),
    /// a resultset whose single column has a name of this length
    ColName(usize),
}

#[derive(Clone, Debug)]
struct Case {
    label: String,
    shape: Shape,
    /// expected length of the logical message under test
    msg_len: usize,
    write_cap: usize,
    /// one transient transport deviation (Interrupted once / one short write) at an operation
    fault: Option<crate::sim::Fault>,
    /// sequence id of the request (the large message then starts at another point of the
    /// server's id counter, in particular right before it wraps)
    req_seq: u8,
}

fn run_case(c: &Case, st: &mut Stats) -> Result<(), Violation> {
    let blob = |n: &str| col(n, ColumnType::MYSQL_TYPE_BLOB, ColumnFlags::empty());
    let (cmds, prog): (Vec<ClientCmd>, Vec<WOp>) = match &c.shape {
        Shape::TextCells(lens) => {
            let cols = Arc::new((0..lens.len()).map(|i| blob(&format!("c{}", i))).collect::<Vec<_>>());
            let mut p = vec![WOp::Start(cols)];
            // cell by cell (each write_col is one write into the packet writer)
            for (i, l) in lens.iter().enumerate() {
                p.push(WOp::WriteCol(Val::Bytes(pattern_bytes(*l, i))));
            }
            p.push(WOp::EndRow);
            p.push(WOp::WriteRow((0..lens.len()).map(|i| Val::Bytes(vec![b'a'.wrapping_add(i as u8)])).collect()));
            p.push(WOp::Finish);
            (vec![q(b"big"), ping()], p)
        }
        Shape::TextCellsImplicit(lens, how) => {
            let cols = Arc::new((0..lens.len()).map(|i| blob(&format!("c{}", i))).collect::<Vec<_>>());
            let mut p = vec![WOp::Start(cols)];
            p.push(WOp::WriteRow((0..lens.len()).map(|i| Val::Bytes(vec![b'a'.wrapping_add(i as u8)])).collect()));
            for (i, l) in lens.iter().enumerate() {
                p.push(WOp::WriteCol(Val::Bytes(pattern_bytes(*l, i))));
            }
            p.push(if *how == 0 { WOp::Finish } else { WOp::Drop });
            (vec![q(b"big"), ping()], p)
        }
        Shape::BinCell(l) => {
            let cols = Arc::new(vec![blob("c0"), col("n", ColumnType::MYSQL_TYPE_LONG, ColumnFlags::empty())]);
            let p = vec![
                WOp::Start(cols),
                WOp::WriteRow(vec![Val::Bytes(pattern_bytes(*l, 0)), Val::Null]),
                WOp::WriteRow(vec![Val::Bytes(vec![b'z']), Val::I32(5)]),
                WOp::Finish,
            ];
            (vec![ClientCmd::new(with_byte(COM_STMT_PREPARE, b"id=1 p=0")), ClientCmd::new(cmd_execute(1, 0, 1, &[])), ping()], p)
        }
        Shape::ErrMsg(l) => (vec![q(b"big"), ping()], vec![WOp::Error(ErrorKind::ER_NO, pattern_bytes(*l, 7).iter().map(|b| b'A' + b % 50).collect())]),
        Shape::ColName(l) => {
            let name: String = (0..*l).map(|i| (b'a' + (i % 26) as u8) as char).collect();
            let cols = Arc::new(vec![col(&name, ColumnType::MYSQL_TYPE_LONG, ColumnFlags::empty())]);
            (vec![q(b"big"), ping()], vec![WOp::Start(cols), WOp::WriteRow(vec![Val::I32(1)]), WOp::Finish])
        }
    };
    let mut cmds = cmds;
    let k = cmds.len() - 2;
    cmds[k].seq = c.req_seq;
    let conv = Conv::new(cmds);
    let s = conv.stream();
    let stream = Arc::new(s.bytes);
    let mut sim = sim_for(&stream, vec![]);
    sim.log_ops = LOG_OPS.with(|l| l.get());
    sim.write_cap = c.write_cap;
    sim.fault = c.fault;
    let prog = Arc::new(prog);
    let behave = Box::new(move |_: usize, cb: &Cb| match cb {
        Cb::Prepare(_) => Behavior::PrepReply { id: 1, params: param_cols(0), cols: param_cols(0) },
        Cb::Query(_) | Cb::Execute { .. } => Behavior::Prog(prog.clone()),
        _ => Behavior::Silent,
    });
    let o = run_conn(sim, ConnCfg::new(behave));
    st.transitions += o.sim.n_writes as u64;
    if LOG_OPS.with(|l| l.get()) {
        LAST_OPS.with(|l| *l.borrow_mut() = o.sim.ops.iter().enumerate().filter(|(_, x)| x.kind == crate::sim::OpKind::Write).map(|(i, x)| (i, x.req)).collect());
    }
    if let ConnResult::Panic(l, m) = &o.res {
        return Err(Violation::new(panic_key(l, m), format!("{}: run_on panicked at {}: {}", c.label, l, m)));
    }
    if let Some(bad) = o.calls.iter().find(|x| x.res.is_err()) {
        return Err(Violation::new("write-refused", format!("{}: writer call {} returned {:?}", c.label, bad.op, bad.res)));
    }
    if !o.res.is_ok() {
        return Err(Violation::new("result-not-ok", format!("{}: run_on returned {}", c.label, o.res.short())));
    }
    let out = &o.sim.out;
    // 1. framing: every header length equals the bytes that follow
    let pkts = split_packets(out).map_err(|e| Violation::new("ill-framed", format!("{}: {}", c.label, e)))?;
    // 2. the packetisation rule: the message under test must be cut into maximal packets
    //    followed by a shorter one
    let msgs = reassemble(out, &pkts).map_err(|e| Violation::new("no-closing-packet", format!("{}: {}", c.label, e)))?;
    // Rows and ERR packets have no free fields, so their message length is known exactly. A column
    // definition has fields the property leaves to the server (schema, original names, charset),
    // so there the message under test is the one that carries the name: at least `msg_len` bytes.
    let exact = !matches!(c.shape, Shape::ColName(_));
    let big = if exact { msgs.iter().find(|m| m.data.len() == c.msg_len) } else { msgs.iter().filter(|m| m.data.len() >= c.msg_len).max_by_key(|m| m.data.len()) };
    match big {
        None => {
            let lens: Vec<usize> = msgs.iter().map(|m| m.data.len()).filter(|l| *l > 1000).collect();
            return Err(Violation::new(
                "message-not-reassembled",
                format!("{}: no reassembled message of {} bytes; large messages seen: {:?}; packet payload lengths above 1000: {:?}", c.label, c.msg_len, lens, pkts.iter().map(|p| p.len).filter(|l| *l > 1000).collect::<Vec<_>>()),
            ));
        }
        Some(m) => {
            let mlen = m.data.len();
            let want = mlen / MAXP + 1;
            if m.n_pkts != want {
                return Err(Violation::new("packet-count", format!("{}: message of {} bytes sent in {} packets, the protocol needs {}", c.label, mlen, m.n_pkts, want)));
            }
            if mlen >= MAXP {
                st.bump("multi_packet_messages");
            }
            if mlen % MAXP == 0 {
                st.bump("empty_closing_packets");
            }
        }
    }
    // 3. a conformant client decodes the whole conversation and sees the values written
    let d = decode_all(out, &conv, &s.last_seq, conv.cmds.len(), false).map_err(|e| Violation::new("reply-decode", format!("{}: {}", c.label, e)))?;
    let k = conv.cmds.len() - 2;
    match (&c.shape, &d.replies[k][..]) {
        (Shape::TextCells(lens), [Unit::ResultSet { rows, end: Ok(_), .. }]) if rows.len() == 2 => {
            for (i, l) in lens.iter().enumerate() {
                if rows[0][i] != Cell::Text(pattern_bytes(*l, i)) {
                    return Err(Violation::new("value-differs", format!("{}: cell {} of {} bytes arrives changed", c.label, i, l)));
                }
                if rows[1][i] != Cell::Text(vec![b'a'.wrapping_add(i as u8)]) {
                    return Err(Violation::new("following-row-differs", format!("{}: the row after the large one arrives changed", c.label)));
                }
            }
        }
        (Shape::TextCellsImplicit(lens, _), [Unit::ResultSet { rows, end: Ok(_), .. }]) if rows.len() == 2 => {
            for (i, l) in lens.iter().enumerate() {
                if rows[1][i] != Cell::Text(pattern_bytes(*l, i)) {
                    return Err(Violation::new("value-differs", format!("{}: cell {} of {} bytes arrives changed", c.label, i, l)));
                }
                if rows[0][i] != Cell::Text(vec![b'a'.wrapping_add(i as u8)]) {
                    return Err(Violation::new("following-row-differs", format!("{}: the row before the large one arrives changed", c.label)));
                }
            }
        }
        (Shape::BinCell(l), [Unit::ResultSet { rows, end: Ok(_), .. }]) if rows.len() == 2 => {
            if rows[0][0] != Cell::Bin(BinVal::Bytes(pattern_bytes(*l, 0))) || rows[0][1] != Cell::Null {
                return Err(Violation::new("value-differs", format!("{}: binary cell of {} bytes arrives changed", c.label, l)));
            }
            if rows[1] != vec![Cell::Bin(BinVal::Bytes(vec![b'z'])), Cell::Bin(BinVal::Int(5))] {
                return Err(Violation::new("following-row-differs", format!("{}: the row after the large one arrives changed", c.label)));
            }
        }
        (Shape::ErrMsg(l), [Unit::Err(e)]) => {
            let want: Vec<u8> = pattern_bytes(*l, 7).iter().map(|b| b'A' + b % 50).collect();
            if e.msg != want || e.code != 1002 {
                return Err(Violation::new("value-differs", format!("{}: error message of {} bytes arrives changed ({} bytes)", c.label, l, e.msg.len())));
            }
        }
        (Shape::ColName(l), [Unit::ResultSet { cols, rows, end: Ok(_) }]) if rows.len() == 1 => {
            let name: Vec<u8> = (0..*l).map(|i| b'a' + (i % 26) as u8).collect();
            if cols[0].name != name {
                return Err(Violation::new("value-differs", format!("{}: column name of {} bytes arrives changed", c.label, l)));
            }
        }
        (_, other) => return Err(Violation::new("reply-shape", format!("{}: reply is {:?}", c.label, other.iter().map(|u| format!("{:?}", u).chars().take(80).collect::<String>()).collect::<Vec<_>>()))),
    }
    Ok(())
}

fn cases(quick: bool) -> Vec<Case> {
    let mut v = Vec::new();
    let caps: Vec<(usize, &str)> = if quick { vec![(usize::MAX, "whole writes"), (65537, "65537-byte writes")] } else { vec![(usize::MAX, "whole writes"), (1 << 20, "1 MiB writes"), (65537, "65537-byte writes")] };
    let ks: Vec<usize> = vec![1, 2];
    for (cap, capname) in &caps {
        for k in &ks {
            let ds: Vec<i64> = if quick {
                if *k == 1 { vec![-5, -4, -1, 0, 1, 5] } else if *cap == usize::MAX { vec![-1, 0, 1] } else { vec![0] }
            } else {
                (-6..=6).collect()
            };
            let light = quick && *k == 2 && *cap != usize::MAX;
            for d in &ds {
                let l = (*k as i64 * MAXP as i64 + d) as usize;
                // one text cell filling the message
                if let Some(x) = cell_for_total(l) {
                    v.push(Case { label: format!("text row, one cell, message {}*(2^24-1){:+} ({})", k, d, capname), shape: Shape::TextCells(vec![x]), msg_len: l, write_cap: *cap, fault: None, req_seq: 0 });
                }
                // binary row: header + 1 bitmap byte + blob
                if let Some(x) = cell_for_total(l - 2) {
                    if *cap == usize::MAX || *d % 3 == 0 {
                        v.push(Case { label: format!("binary row, one blob, message {}*(2^24-1){:+} ({})", k, d, capname), shape: Shape::BinCell(x), msg_len: l, write_cap: *cap, fault: None, req_seq: 0 });
                    }
                }
            }
            if light {
                // quick tier: under short transport writes only the plain one-cell messages of
                // two maximal packets (text and binary); thorough runs every shape
                continue;
            }
            // the limit falls inside / before / after the second cell's 3-byte length prefix
            for off in -1i64..=4 {
                // first cell ends `off` bytes before the packet limit of packet k
                let first_total = (*k as i64 * MAXP as i64 - off) as usize;
                if let Some(a) = cell_for_total(first_total) {
                    let b = 300usize;
                    v.push(Case { label: format!("text row, two cells, packet limit {} bytes into the second cell ({}, k={})", off, capname, k), shape: Shape::TextCells(vec![a, b]), msg_len: first_total + 3 + b, write_cap: *cap, fault: None, req_seq: 0 });
                }
            }
            // a one-byte cell straddling the limit, then a third cell
            let first_total = k * MAXP - 1;
            if let Some(a) = cell_for_total(first_total) {
                v.push(Case { label: format!("text row, three cells, one-byte cell straddles the limit ({}, k={})", capname, k), shape: Shape::TextCells(vec![a, 1, 40]), msg_len: first_total + 2 + 41, write_cap: *cap, fault: None, req_seq: 0 });
            }
            // three cells that together cross the limit, each well below it
            let third = k * MAXP / 3;
            v.push(Case { label: format!("text row, three cells of a third of the limit each (+5) ({}, k={})", capname, k), shape: Shape::TextCells(vec![third, third, third + 5]), msg_len: 3 * 4 + 3 * third + 5, write_cap: *cap, fault: None, req_seq: 0 });
        }
        // a row assembled from very many small writes: the packet limit falls at different offsets
        // of a cell (inside its one-byte length prefix, inside its data) as the cell size varies
        if *cap == usize::MAX {
            for w in if quick { vec![239usize, 240, 241, 1021] } else { vec![238, 239, 240, 241, 242, 250, 251, 252, 1021, 65535] } {
                let n = MAXP / (w + if w < 251 { 1 } else { 3 }) + 40;
                let per = w + if w < 251 { 1 } else { 3 };
                v.push(Case { label: format!("text row of {} cells of {} bytes each ({})", n, w, capname), shape: Shape::TextCells(vec![w; n]), msg_len: n * per, write_cap: *cap, fault: None, req_seq: 0 });
            }
        }
        // the large row is the last one and is ended by finish() / by dropping the writer
        if *cap == usize::MAX {
            for k in [1usize, 2] {
                for d in if quick { vec![0i64] } else { vec![-1i64, 0, 1] } {
                    let l = (k as i64 * MAXP as i64 + d) as usize;
                    if let Some(x) = cell_for_total(l) {
                        for how in 0..2u8 {
                            v.push(Case { label: format!("text row, one cell, message {}*(2^24-1){:+}, row ended by {}", k, d, if how == 0 { "finish()" } else { "drop" }), shape: Shape::TextCellsImplicit(vec![x], how), msg_len: l, write_cap: *cap, fault: None, req_seq: 0 });
                        }
                    }
                }
            }
            // column definitions whose whole payload (not just the name) passes the packet limit
            for nl in if quick { (MAXP - 34..=MAXP - 18).collect::<Vec<usize>>() } else { (MAXP - 60..=MAXP + 6).collect() } {
                v.push(Case { label: format!("column name of {} bytes (definition payload around 2^24-1)", nl), shape: Shape::ColName(nl), msg_len: nl, write_cap: *cap, fault: None, req_seq: 0 });
            }
        }
        // exact multiples whose packets straddle the wrap of the sequence counter: the empty
        // closing packet then carries id 0 or 1
        if *cap == usize::MAX {
            for k in [1usize, 2] {
                for rs in if quick { vec![249u8, 250, 251, 252] } else { (244u8..=255).collect() } {
                    let l = k * MAXP;
                    if let Some(x) = cell_for_total(l) {
                        v.push(Case { label: format!("text row, one cell, message {}*(2^24-1), request sequence id {}", k, rs), shape: Shape::TextCells(vec![x]), msg_len: l, write_cap: *cap, fault: None, req_seq: rs });
                    }
                    if !quick || rs % 2 == 0 {
                        if let Some(x) = cell_for_total(l - 2) {
                            v.push(Case { label: format!("binary row, one blob, message {}*(2^24-1), request sequence id {}", k, rs), shape: Shape::BinCell(x), msg_len: l, write_cap: *cap, fault: None, req_seq: rs });
                        }
                    }
                }
            }
        }
        // a message beyond 2^30 bytes (the largest max_allowed_packet a MySQL server accepts; the
        // wire format itself has no such limit): 65 cells of 2^24 bytes in one text row
        if !quick && *cap == usize::MAX {
            let n = 65usize;
            let cell = 1usize << 24;
            v.push(Case { label: format!("text row of {} cells of 2^24 bytes each ({} bytes in one message)", n, n * (cell + 9)), shape: Shape::TextCells(vec![cell; n]), msg_len: n * (cell + 9), write_cap: *cap, fault: None, req_seq: 0 });
        }
        // a large ERR message answering a request whose id makes the reply straddle the wrap of the
        // sequence counter
        if *cap == usize::MAX {
            for rs in if quick { vec![253u8, 254] } else { vec![250u8, 251, 252, 253, 254, 255] } {
                v.push(Case { label: format!("ERR packet of 2^24-1 bytes, request sequence id {}", rs), shape: Shape::ErrMsg(MAXP - 9), msg_len: MAXP, write_cap: *cap, fault: None, req_seq: rs });
            }
        }
        // large ERR message and column name
        for d in if quick { vec![0i64] } else { vec![-1i64, 0, 1] } {
            let l = (MAXP as i64 + d) as usize;
            v.push(Case { label: format!("ERR packet of (2^24-1){:+} bytes ({})", d, capname), shape: Shape::ErrMsg(l - 9), msg_len: l, write_cap: *cap, fault: None, req_seq: 0 });
        }
        let nl = (1 << 24) + 10;
        // def(4) + schema(1) + table(1) + org_table(1) + name(9+nl) + org_name(1) + 0x0c(1) + 12 fixed
        v.push(Case { label: format!("column name of 2^24+10 bytes ({})", capname), shape: Shape::ColName(nl), msg_len: 4 + 1 + 1 + 1 + 9 + nl + 1 + 1 + 12, write_cap: *cap, fault: None, req_seq: 0 });
    }
    v
}

struct Big {
    cases: Vec<Case>,
}
impl Family for Big {
    fn name(&self) -> String {
        "large-messages".into()
    }
    fn len(&self) -> u64 {
        self.cases.len() as u64
    }
    fn max_threads(&self) -> Option<usize> {
        Some(8)
    }
    fn run(&self, idx: u64, st: &mut Stats) -> Result<(), Violation> {
        st.nontrivial += 1;
        run_case(&self.cases[idx as usize], st)
    }
    fn describe(&self, idx: u64) -> J {
        let c = &self.cases[idx as usize];
        json!({"case": c.label, "logical_message_bytes": c.msg_len, "shape": format!("{:?}", c.shape), "transport_write_cap": if c.write_cap == usize::MAX { 0 } else { c.write_cap }})
    }
}


/// the large messages again, with exactly one transient deviation of the transport at one of
/// the writes that carry them: `Interrupted` once (std's write_all retries it), or one write that
/// accepts 1 byte / half of what was offered. The full oracle of `run_case` applies.
struct Transient {
    cases: Vec<Case>,
}
impl Transient {
    fn new(quick: bool) -> Self {
        let mut cases = Vec::new();
        let mut bases: Vec<Case> = Vec::new();
        for (k, d) in if quick { vec![(2usize, 0i64)] } else { vec![(1usize, 0i64), (2, 0), (2, 5)] } {
            let l = (k as i64 * MAXP as i64 + d) as usize;
            if let Some(x) = cell_for_total(l) {
                bases.push(Case { label: format!("text row, one cell, message {}*(2^24-1){:+}", k, d), shape: Shape::TextCells(vec![x]), msg_len: l, write_cap: usize::MAX, fault: None, req_seq: 0 });
            }
            if let Some(x) = cell_for_total(l - 2) {
                bases.push(Case { label: format!("binary row, one blob, message {}*(2^24-1){:+}", k, d), shape: Shape::BinCell(x), msg_len: l, write_cap: usize::MAX, fault: None, req_seq: 0 });
            }
        }
        for b in bases {
            // operation log of the undisturbed run
            let ops = base_ops(&b);
            for (at, req) in ops {
                // (small writes too: an implementation may send a packet header in a write of its own)
                if req < 2 {
                    continue;
                }
                for (kind, what) in [(crate::sim::FaultKind::Error(std::io::ErrorKind::Interrupted), "Interrupted once"), (crate::sim::FaultKind::ShortWrite(1), "accepts 1 byte"), (crate::sim::FaultKind::ShortWrite(req / 2), "accepts half")] {
                    let mut c = b.clone();
                    c.label = format!("{}; the transport write of {} bytes at operation {} {}", b.label, req, at, what);
                    c.fault = Some(crate::sim::Fault { at_op: at, kind, persistent: false });
                    cases.push(c);
                }
            }
        }
        Transient { cases }
    }
}
/// (absolute operation index, bytes offered) of every transport write of the undisturbed run
fn base_ops(c: &Case) -> Vec<(usize, usize)> {
    LOG_OPS.with(|l| l.set(true));
    let mut st = Stats::default();
    let _ = run_case(c, &mut st);
    LOG_OPS.with(|l| l.set(false));
    LAST_OPS.with(|l| l.borrow_mut().drain(..).collect())
}
thread_local! {
    static LOG_OPS: std::cell::Cell<bool> = std::cell::Cell::new(false);
    static LAST_OPS: std::cell::RefCell<Vec<(usize, usize)>> = std::cell::RefCell::new(Vec::new());
}
impl Family for Transient {
    fn name(&self) -> String {
        "large-messages-one-transient-deviation".into()
    }
    fn len(&self) -> u64 {
        self.cases.len() as u64
    }
    fn max_threads(&self) -> Option<usize> {
        Some(8)
    }
    fn run(&self, idx: u64, st: &mut Stats) -> Result<(), Violation> {
        st.nontrivial += 1;
        st.bump("transient_deviations");
        run_case(&self.cases[idx as usize], st)
    }
    fn describe(&self, idx: u64) -> J {
        json!({"case": self.cases[idx as usize].label})
    }
}

/// every message length 0..70000 for a text cell (small side of the same rule)
struct Small;
impl Family for Small {
    fn name(&self) -> String {
        "every-length-to-70000".into()
    }
    fn len(&self) -> u64 {
        700
    }
    fn run(&self, idx: u64, st: &mut Stats) -> Result<(), Violation> {
        // one connection per 100 lengths: each length is one row of one cell
        let cols = Arc::new(vec![col("c", ColumnType::MYSQL_TYPE_BLOB, ColumnFlags::empty())]);
        let lens: Vec<usize> = (0..100).map(|i| idx as usize * 100 + i).collect();
        let mut p = vec![WOp::Start(cols)];
        for l in &lens {
            p.push(WOp::WriteRow(vec![Val::Bytes(pattern_bytes(*l, 1))]));
        }
        p.push(WOp::Finish);
        let conv = Conv::new(vec![q(b"x"), ping()]);
        let s = conv.stream();
        let stream = Arc::new(s.bytes);
        let mut sim = sim_for(&stream, vec![]);
        sim.log_ops = false;
        sim.write_cap = if idx % 2 == 0 { usize::MAX } else { 4093 };
        let prog = Arc::new(p);
        let o = run_conn(sim, ConnCfg::new(Box::new(move |_, cb| match cb {
            Cb::Query(_) => Behavior::Prog(prog.clone()),
            _ => Behavior::Silent,
        })));
        st.evals += 99;
        st.transitions += o.sim.n_writes as u64;
        if !o.res.is_ok() {
            return Err(Violation::new("result-not-ok", format!("run_on returned {}", o.res.short())));
        }
        let d = decode_all(delivered(&o), &conv, &s.last_seq, 2, false).map_err(|e| Violation::new("reply-decode", e))?;
        match &d.replies[0][..] {
            [Unit::ResultSet { rows, .. }] if rows.len() == 100 => {
                for (i, l) in lens.iter().enumerate() {
                    if rows[i][0] != Cell::Text(pattern_bytes(*l, 1)) {
                        return Err(Violation::new("value-differs", format!("cell of {} bytes arrives changed", l)));
                    }
                }
            }
            _ => return Err(Violation::new("reply-shape", "100 rows expected")),
        }
        Ok(())
    }
    fn describe(&self, idx: u64) -> J {
        json!({"cell_lengths": format!("{}..{}", idx * 100, idx * 100 + 100)})
    }
}

/// output staging thresholds below 2^24: cells of 2^15..2^20 bytes, alone and after many small rows
struct MidSizes;
const MID: [usize; 14] = [32_767, 32_768, 40_000, 65_400, 65_535, 65_536, 70_001, 98_304, 100_000, 131_072, 140_000, 200_000, 1_048_576, 1_048_577];
impl Family for MidSizes {
    fn name(&self) -> String {
        "mid-size-cells".into()
    }
    fn len(&self) -> u64 {
        (MID.len() * 3) as u64
    }
    fn run(&self, idx: u64, st: &mut Stats) -> Result<(), Violation> {
        let size = MID[idx as usize / 3];
        let lead_rows = [0usize, 270, 1500][idx as usize % 3];
        st.nontrivial += 1;
        st.bump("mid_size_cells");
        let cols = Arc::new(vec![col("c", ColumnType::MYSQL_TYPE_BLOB, ColumnFlags::empty())]);
        let mut p = vec![WOp::Start(cols)];
        for r in 0..lead_rows {
            p.push(WOp::WriteRow(vec![Val::Bytes(pattern_bytes(100, r))]));
        }
        p.push(WOp::WriteRow(vec![Val::Bytes(pattern_bytes(size, 9))]));
        p.push(WOp::WriteRow(vec![Val::Bytes(vec![b'e'])]));
        p.push(WOp::Finish);
        let conv = Conv::new(vec![q(b"x"), ping()]);
        let s = conv.stream();
        let stream = Arc::new(s.bytes);
        let mut sim = sim_for(&stream, vec![]);
        sim.log_ops = false;
        let prog = Arc::new(p);
        let o = run_conn(sim, ConnCfg::new(Box::new(move |_, cb| match cb {
            Cb::Query(_) => Behavior::Prog(prog.clone()),
            _ => Behavior::Silent,
        })));
        st.transitions += o.sim.n_writes as u64;
        if !o.res.is_ok() {
            return Err(Violation::new("result-not-ok", format!("run_on returned {}", o.res.short())));
        }
        split_packets(&o.sim.out).map_err(|e| Violation::new("ill-framed", e))?;
        let d = decode_all(delivered(&o), &conv, &s.last_seq, 2, false).map_err(|e| Violation::new("reply-decode", format!("{} rows of 100 bytes then a cell of {} bytes: {}", lead_rows, size, e)))?;
        match &d.replies[0][..] {
            [Unit::ResultSet { rows, .. }] if rows.len() == lead_rows + 2 => {
                for r in 0..lead_rows {
                    if rows[r][0] != Cell::Text(pattern_bytes(100, r)) {
                        return Err(Violation::new("value-differs", format!("row {} of the {} small rows arrives changed", r, lead_rows)));
                    }
                }
                if rows[lead_rows][0] != Cell::Text(pattern_bytes(size, 9)) {
                    return Err(Violation::new("value-differs", format!("cell of {} bytes after {} small rows arrives changed", size, lead_rows)));
                }
            }
            _ => return Err(Violation::new("reply-shape", format!("{} rows expected", lead_rows + 2))),
        }
        Ok(())
    }
    fn describe(&self, idx: u64) -> J {
        let lead = [0usize, 270, 1500][idx as usize % 3];
        json!({"cell_bytes": MID[idx as usize / 3], "preceded_by_rows_of_100_bytes": lead})
    }
}

/// Large messages in context: the row of >= 1 MiB / around k*(2^24-1) bytes is not the first thing
/// of its response and not the last thing on its connection. Every combination of what precedes it
/// in its resultset (nothing, 2 or 5 short rows, a 5000-byte row and a short one), how the response
/// ends (EOF, a trailing completion behind finish_one, an error, a second resultset), and what the
/// next command is answered with (PING's OK, an OK from the shim, a short resultset, an ERR).
/// Oracle: framing of every packet, the packetisation rule for *every* message of the stream, a
/// strict decode of the whole conversation, every value as written.
struct LargeInContext {
    bigs: Vec<(bool, usize)>, // (binary, message bytes)
}
const PRE: [&str; 6] = ["nothing before it", "2 short rows before it", "5 short rows before it", "a 5000-byte row and a short row before it", "the first row of the second resultset of its response (a short resultset ended by finish_one before it)", "the first row of a resultset behind complete_one(3,4) in the same response"];
const ENDING: [&str; 4] = ["finish", "finish_one + completed(0,0)", "finish_error", "finish_one + a second short resultset"];
const NEXT: [&str; 4] = ["PING", "query -> completed(0,0)", "query -> one short row", "query -> ERR"];
impl LargeInContext {
    fn case(&self, idx: u64) -> (usize, usize, usize, usize) {
        let d = digits(idx, &[self.bigs.len() as u64, PRE.len() as u64, 4, 4]);
        (d[0] as usize, d[1] as usize, d[2] as usize, d[3] as usize)
    }
}
impl Family for LargeInContext {
    fn name(&self) -> String {
        "large-messages-in-context".into()
    }
    fn len(&self) -> u64 {
        self.bigs.len() as u64 * PRE.len() as u64 * 16
    }
    fn max_threads(&self) -> Option<usize> {
        Some(8)
    }
    fn run(&self, idx: u64, st: &mut Stats) -> Result<(), Violation> {
        let (bi, pre, ending, next) = self.case(idx);
        let (bin, total) = self.bigs[bi];
        st.nontrivial += 1;
        st.bump("large_in_context");
        let label = format!("{} row message of {} bytes, {}, response ended by {}, then {}", if bin { "binary" } else { "text" }, total, PRE[pre], ENDING[ending], NEXT[next]);
        let cols = Arc::new(vec![col("c0", ColumnType::MYSQL_TYPE_BLOB, ColumnFlags::empty())]);
        // binary row: header byte + one bitmap byte + the length-encoded blob
        let data_len = cell_for_total(if bin { total - 2 } else { total }).expect("sizes are chosen to be reachable");
        let short = |i: usize| vec![b'a' + (i % 26) as u8; 1 + i % 3];
        let mut want_rows: Vec<Vec<u8>> = Vec::new();
        let mut p = match pre {
            4 => vec![WOp::Start(cols.clone()), WOp::WriteRow(vec![Val::Bytes(short(11))]), WOp::FinishOne, WOp::Start(cols.clone())],
            5 => vec![WOp::CompleteOne(3, 4), WOp::Start(cols.clone())],
            _ => vec![WOp::Start(cols.clone())],
        };
        let lead = if pre >= 4 { 1 } else { 0 };
        let pre_rows: Vec<Vec<u8>> = match pre {
            0 | 4 | 5 => vec![],
            1 => (0..2).map(short).collect(),
            2 => (0..5).map(short).collect(),
            _ => vec![pattern_bytes(5000, 3), short(1)],
        };
        for (i, r) in pre_rows.into_iter().enumerate() {
            if i % 2 == 0 {
                p.push(WOp::WriteRow(vec![Val::Bytes(r.clone())]));
            } else {
                p.push(WOp::WriteCol(Val::Bytes(r.clone())));
                p.push(WOp::EndRow);
            }
            want_rows.push(r);
        }
        let big = pattern_bytes(data_len, 1);
        p.push(WOp::WriteCol(Val::Bytes(big.clone())));
        p.push(WOp::EndRow);
        want_rows.push(big);
        p.push(WOp::WriteRow(vec![Val::Bytes(short(7))]));
        want_rows.push(short(7));
        match ending {
            0 => p.push(WOp::Finish),
            1 => {
                p.push(WOp::FinishOne);
                p.push(WOp::Completed(0, 0));
            }
            2 => p.push(WOp::FinishError(ErrorKind::ER_NO, b"x".to_vec())),
            _ => {
                p.push(WOp::FinishOne);
                p.push(WOp::Start(cols.clone()));
                p.push(WOp::WriteRow(vec![Val::Bytes(short(9))]));
                p.push(WOp::Finish);
            }
        }
        let first = Arc::new(p);
        let second: Arc<Vec<WOp>> = Arc::new(match next {
            1 => vec![WOp::Completed(0, 0)],
            2 => vec![WOp::Start(cols.clone()), WOp::WriteRow(vec![Val::Bytes(short(4))]), WOp::Finish],
            _ => vec![WOp::Error(ErrorKind::ER_NO, b"x".to_vec())],
        });
        let mut cmds = vec![ClientCmd::new(with_byte(COM_STMT_PREPARE, b"id=1 p=0"))];
        cmds.push(if bin { ClientCmd::new(cmd_execute(1, 0, 1, &[])) } else { q(b"big") });
        cmds.push(if next == 0 { ping() } else { q(b"next") });
        cmds.push(ping());
        let conv = Conv::new(cmds);
        let s = conv.stream();
        let stream = Arc::new(s.bytes);
        let mut sim = sim_for(&stream, vec![]);
        sim.log_ops = false;
        let mut k = 0usize;
        let behave = Box::new(move |_: usize, cb: &Cb| match cb {
            Cb::Prepare(_) => Behavior::PrepReply { id: 1, params: param_cols(0), cols: param_cols(0) },
            Cb::Query(_) | Cb::Execute { .. } => {
                k += 1;
                Behavior::Prog(if k == 1 { first.clone() } else { second.clone() })
            }
            _ => Behavior::Silent,
        });
        let o = run_conn(sim, ConnCfg::new(behave));
        st.transitions += o.sim.n_writes as u64;
        if let ConnResult::Panic(l, m) = &o.res {
            return Err(Violation::new(panic_key(l, m), format!("{}: run_on panicked at {}: {}", label, l, m)));
        }
        if let Some(bad) = o.calls.iter().find(|x| x.res.is_err()) {
            return Err(Violation::new("write-refused", format!("{}: writer call {} returned {:?}", label, bad.op, bad.res)));
        }
        if !o.res.is_ok() {
            return Err(Violation::new("result-not-ok", format!("{}: run_on returned {}", label, o.res.short())));
        }
        let out = &o.sim.out;
        let pkts = split_packets(out).map_err(|e| Violation::new("ill-framed", format!("{}: {}", label, e)))?;
        let msgs = reassemble(out, &pkts).map_err(|e| Violation::new("no-closing-packet", format!("{}: {}", label, e)))?;
        for m in &msgs {
            let want = m.data.len() / MAXP + 1;
            if m.n_pkts != want {
                return Err(Violation::new("packet-count", format!("{}: a message of {} bytes was sent in {} packets, the protocol needs {}", label, m.data.len(), m.n_pkts, want)));
            }
        }
        if !msgs.iter().any(|m| m.data.len() == total) {
            return Err(Violation::new("message-not-reassembled", format!("{}: no message of {} bytes; messages above 1000 bytes: {:?}", label, total, msgs.iter().map(|m| m.data.len()).filter(|l| *l > 1000).collect::<Vec<_>>())));
        }
        if total >= MAXP {
            st.bump("multi_packet_messages");
        }
        let d = decode_all(out, &conv, &s.last_seq, conv.cmds.len(), false).map_err(|e| Violation::new("reply-decode", format!("{}: {}", label, e)))?;
        let cell = |b: &Vec<u8>| if bin { Cell::Bin(BinVal::Bytes(b.clone())) } else { Cell::Text(b.clone()) };
        let r = &d.replies[1];
        let lead_ok = match (pre, r.first()) {
            (4, Some(Unit::ResultSet { rows, end: Ok(_), .. })) => rows.len() == 1 && rows[0][0] == cell(&short(11)),
            (5, Some(Unit::Ok { rows: 3, id: 4, .. })) => true,
            (4, _) | (5, _) => false,
            _ => true,
        };
        if !lead_ok || r.len() <= lead {
            return Err(Violation::new("response-start-differs", format!("{}: what precedes the large resultset in its response arrives as {:?}", label, r.first().map(|u| format!("{:?}", u).chars().take(60).collect::<String>()))));
        }
        let r = &r[lead..];
        let first_ok = match r.first() {
            Some(Unit::ResultSet { rows, end, .. }) => end.is_err() == (ending == 2) && rows.len() == want_rows.len() && rows.iter().zip(want_rows.iter()).all(|(g, w)| g[0] == cell(w)),
            _ => false,
        };
        if !first_ok {
            return Err(Violation::new("value-differs", format!("{}: the resultset holding the large row arrives changed ({} unit(s))", label, r.len())));
        }
        let rest_ok = match (ending, &r[1..]) {
            (0, []) | (2, []) => true,
            (1, [Unit::Ok { rows: 0, id: 0, .. }]) => true,
            (3, [Unit::ResultSet { rows, end: Ok(_), .. }]) => rows.len() == 1 && rows[0][0] == cell(&short(9)),
            _ => false,
        };
        if !rest_ok {
            return Err(Violation::new("response-end-differs", format!("{}: what follows the large resultset arrives as {:?}", label, r[1..].iter().map(|u| format!("{:?}", u).chars().take(60).collect::<String>()).collect::<Vec<_>>())));
        }
        let n = &d.replies[2];
        let next_ok = match (next, &n[..]) {
            (0, [Unit::Ok { .. }]) => true,
            (1, [Unit::Ok { rows: 0, id: 0, .. }]) => true,
            (2, [Unit::ResultSet { rows, end: Ok(_), .. }]) => rows.len() == 1 && rows[0][0] == Cell::Text(short(4)),
            (3, [Unit::Err(e)]) => e.msg == b"x",
            _ => false,
        };
        if !next_ok {
            return Err(Violation::new("next-reply-differs", format!("{}: the reply to the next command arrives as {:?}", label, n.iter().map(|u| format!("{:?}", u).chars().take(60).collect::<String>()).collect::<Vec<_>>())));
        }
        Ok(())
    }
    fn describe(&self, idx: u64) -> J {
        let (bi, pre, ending, next) = self.case(idx);
        json!({"binary": self.bigs[bi].0, "message_bytes": self.bigs[bi].1, "before": PRE[pre], "response_ends_with": ENDING[ending], "next_command": NEXT[next]})
    }
}

pub fn build(quick: bool) -> Check {
    let cs = cases(quick);
    let n = cs.len();
    Check {
        id: "C04",
        level: "model_checking",
        rule: format!("replies of 65 400 bytes .. 200 000 bytes (thorough: to 2^24+5) inside a TLS session, decrypted by a real client; {} large-message scenarios on the real run_on: logical messages of k*(2^24-1)+d bytes (k in {{1{}}}, d in [-6,6]) as a one-cell text row and as a binary row; two-cell rows with the packet limit falling -1..4 bytes into the second cell (inside its 3-byte length prefix, exactly between the cells, in its data); a one-byte cell straddling the limit; three cells each far below the limit; rows of ~70000 / ~16000 small cells (239..241, 1021 bytes; more sizes in thorough) so that the limit falls at varying offsets of a cell; ERR messages and a column name beyond 2^24 bytes; column names of 2^24-35..2^24-19 bytes (thorough 2^24-61..2^24+5) so that the definition's payload passes the packet limit at every offset; exact multiples as the last, never explicitly ended row (finish / drop); exact multiples requested with sequence ids 249..252 (thorough 244..255) so that the packets of the message straddle the wrap of the id counter; each under whole, 1 MiB and 65537-byte transport writes; two-packet messages again with one transient deviation (Interrupted once, a write accepting 1 byte / half) at each large transport write; followed by a small row and a sentinel PING. Plus every cell length 0..70000, and cells of 2^15..2^20+1 bytes alone and after 270 / 1500 small rows. Large messages in context: a row of 2 MiB / 2^24-1 (+-1, x2) bytes, text and binary, preceded in its resultset by nothing / 2 / 5 short rows / a 5000-byte row, or being the first row of a later resultset of its response (behind a short resultset / behind complete_one), its response ended by EOF / a trailing completion / an error / a second resultset, the next command answered by PING's OK / an OK / a short resultset / an ERR (all 96 combinations per size; the packetisation rule is checked on every message of the stream). Oracle: every header length equals the bytes that follow; the message is cut into floor(L/(2^24-1)) maximal packets plus one shorter (possibly empty) packet; consecutive sequence ids; strict decode returns exactly the bytes written. Non-trivial = message of at least 2^24-1 bytes.", n, ",2"),
        assumptions: vec!["message sizes are explored in a window around the packet limit, not exhaustively between 70000 and 2^24-7".into()],
        bounds: json!({"k": 2, "d_window": 6, "scenarios": n}),
        exhaustive: true,
        caps_hit: vec![],
        families: vec![
            Box::new(Big { cases: cs }),
            Box::new(Transient::new(quick)),
            Box::new(Small),
            Box::new(MidSizes),
            // replies beyond what a TLS layer buffers per call (64 KiB in rustls) inside a TLS session
            Box::new(super::c18::TlsReplySizes { sizes: if quick { vec![65_400, 65_536, 70_000, 200_000] } else { vec![65_400, 65_520, 65_536, 65_537, 70_000, 131_072, 200_000, 1 << 20, MAXP + 5] } }),
            Box::new(super::context::BoundaryCells { prop: "C04", bin: false }),
            Box::new(super::context::BoundaryCells { prop: "C04", bin: true }),
            Box::new(LargeInContext {
                bigs: if quick { vec![(false, 2 << 20), (false, MAXP), (true, MAXP + 1)] } else { vec![(false, 2 << 20), (false, MAXP - 1), (false, MAXP), (false, MAXP + 1), (false, 2 * MAXP), (true, 2 << 20), (true, MAXP - 1), (true, MAXP), (true, MAXP + 1)] },
            }),
        ],
        required: vec!["tls_reply_sizes", "boundary_cells", "large_in_context", "transient_deviations", "multi_packet_messages", "empty_closing_packets", "mid_size_cells"],
    }
}
