//! C11 — greeting and authentication gate: every capability word, both layouts, user names,
//! trailers, sequence ids, TLS configured or not, accept/reject, pipelined commands.

use super::common::*;
use crate::conv::*;
use crate::engine::*;
use crate::refwire::*;
use crate::second;
use crate::shim::*;
use serde_json::{json, Value as J};
use std::sync::Arc;

#[derive(Clone, Debug)]
struct Case {
    lo: u16,
    hi: u16,
    user: Vec<u8>,
    trailer: Vec<u8>,
    seq: u8,
    tls: bool,
    reject: bool,
    pipelined: usize,
    /// the stream ends inside one more pipelined command (only used with reject)
    partial_tail: bool,
    /// what follows the pipelined queries: 0 nothing, 1 COM_QUIT, 2 an EXECUTE of a statement that
    /// was never prepared (the library ends the connection), 3 a command cut off inside its packet
    tail: u8,
    /// the handshake response arrives in a read of its own (false: one read carries everything)
    split: bool,
    /// the character-set byte of a 4.1 handshake response (utf8 0x21, latin1 0x08, utf8mb4 0x2d, ...)
    collation: u8,
    /// every read returns at most this many bytes (0: whole reads)
    read_size: usize,
}

fn run_case(c: &Case, st: &mut Stats) -> Result<(), Violation> {
    let is41 = c.lo & 0x0200 != 0;
    let ssl = c.lo & 0x0800 != 0;
    let payload = if is41 {
        handshake41(c.lo as u32 | (c.hi as u32) << 16, 1 << 24, c.collation, &c.user, &c.trailer)
    } else {
        handshake320(c.lo, 0xffffff, &c.user, &c.trailer)
    };
    let mut cmds: Vec<ClientCmd> = (0..c.pipelined).map(|i| q(format!("q{}", i).as_bytes())).collect();
    match c.tail {
        1 => cmds.push(quit()),
        2 => cmds.push(ClientCmd::new(cmd_execute(77, 0, 1, &[]))),
        _ => {}
    }
    let mut conv = Conv::new(cmds);
    let (framed, last_id) = frame(c.seq, &payload);
    conv.handshake = framed;
    conv.hs_seq = last_id; // a response that needs a continuation packet ends one id later
    let s = conv.stream();
    let mut bytes = s.bytes.clone();
    if c.partial_tail || c.tail == 3 {
        // a further command cut off inside its payload
        let f = frame(0, &with_byte(COM_QUERY, b"SELECT 'never completed'")).0;
        bytes.extend_from_slice(&f[..f.len() - 5]);
    }
    let stream = Arc::new(bytes);
    let mut sim = sim_for(&stream, if c.split { vec![s.ends[0]] } else { vec![] });
    sim.log_ops = false;
    if c.read_size != 0 {
        sim.uniform_read = c.read_size;
    }
    let mut cfg = ConnCfg::new(std_behave());
    if c.reject {
        cfg.auth_reject = Some(31337);
    }
    if c.tls {
        cfg.tls = Some(crate::tlsutil::pki().server_plain.clone());
    }
    let o = run_conn(sim, cfg);
    st.transitions += 1 + c.pipelined as u64;
    if let ConnResult::Panic(l, m) = &o.res {
        return Err(Violation::new(panic_key(l, m), format!("run_on panicked at {}: {}", l, m)));
    }
    // --- the greeting
    let out = &o.sim.out[..o.sim.flushed];
    let pkts = split_packets(out).map_err(|e| Violation::new("greeting-framing", e))?;
    if pkts.is_empty() {
        return Err(Violation::new("no-greeting", "nothing was sent"));
    }
    let g0 = &out[pkts[0].start..pkts[0].start + pkts[0].len];
    if pkts[0].seq != 0 {
        return Err(Violation::new("greeting-seq", format!("greeting carries sequence id {}", pkts[0].seq)));
    }
    let g = parse_greeting(g0).map_err(|e| Violation::new("greeting-malformed", e))?;
    if g.protocol != 10 {
        return Err(Violation::new("greeting-protocol", format!("protocol version {}", g.protocol)));
    }
    if g.caps & CAP_PROTOCOL_41 == 0 {
        return Err(Violation::new("greeting-no-41", "greeting does not advertise CLIENT_PROTOCOL_41"));
    }
    if (g.caps & CAP_SSL != 0) != c.tls {
        return Err(Violation::new("greeting-ssl-flag", format!("greeting advertises CLIENT_SSL = {} but the shim {} a TLS configuration", g.caps & CAP_SSL != 0, if c.tls { "offers" } else { "does not offer" })));
    }
    let (p2, caps2) = second::greeting(g0).map_err(|e| Violation::new("greeting-rejected-by-mysql_common", e))?;
    if p2 != 10 || caps2 != g.caps {
        return Err(Violation::new("greeting-decoders-disagree", format!("refwire reads caps {:#x}, mysql_common {:#x}", g.caps, caps2)));
    }
    let cbs: Vec<&Cb> = o.log.iter().map(|x| &x.1).collect();
    // --- TLS requested from a shim that offers none: refused before after_authentication
    if ssl && !c.tls {
        st.bump("ssl_requested_without_tls");
        if !cbs.is_empty() {
            return Err(Violation::new("ssl-without-tls-reached-shim", format!("callbacks ran although the client requested TLS the shim does not offer: {}", cb_short(cbs[0]))));
        }
        if !o.res.is_err() {
            return Err(Violation::new("ssl-without-tls-not-refused", format!("run_on returned {}", o.res.short())));
        }
        let only_err = pkts.len() == 2 && out[pkts[1].start..].first() == Some(&0xff);
        if pkts.len() != 1 && !only_err {
            return Err(Violation::new("ssl-without-tls-reply", format!("{} packets sent after the greeting to a refused TLS request, not a single ERR", pkts.len() - 1)));
        }
        return Ok(());
    }
    // --- the gate
    let auths = cbs.iter().filter(|c| matches!(c, Cb::Auth { .. })).count();
    if auths != 1 {
        return Err(Violation::new("auth-count", format!("after_authentication called {} times", auths)));
    }
    match cbs[0] {
        Cb::Auth { user, .. } => {
            if user.as_deref() != Some(&c.user[..]) {
                return Err(Violation::new(
                    "auth-username",
                    format!("after_authentication saw user {:?}, the client sent {:?}", user.as_ref().map(|u| hex(u)), hex(&c.user)),
                ));
            }
        }
        other => return Err(Violation::new("command-before-auth", format!("first callback is {}", cb_short(other)))),
    }
    if c.reject {
        st.bump("rejected");
        if c.partial_tail {
            st.bump("rejected_with_truncated_tail");
        }
        if cbs.len() != 1 {
            return Err(Violation::new("command-after-reject", format!("callback {} ran although the shim rejected the client", cb_short(cbs[1]))));
        }
        if o.res != ConnResult::ErrMarker(31337) {
            return Err(Violation::new("reject-result", format!("run_on returned {} instead of the shim's error", o.res.short())));
        }
        let d = decode_all(out, &conv, &s.last_seq, 0, false).map_err(|e| Violation::new("reject-reply-decode", e))?;
        match &d.auth {
            Unit::Err(p) if p.code == 1045 && p.state == b"28000" => {
                let m = &out[pkts[1].start..pkts[1].start + pkts[1].len];
                let (code, state, _) = second::err(m).map_err(|e| Violation::new("reject-reply-second", e))?;
                if code != 1045 || &state != b"28000" {
                    return Err(Violation::new("reject-reply-second", "mysql_common reads another code/state"));
                }
            }
            other => return Err(Violation::new("reject-reply", format!("rejected client received {:?}", other))),
        }
    } else {
        st.bump("accepted");
        let mut exp = vec![cbs[0].clone()];
        for i in 0..c.pipelined {
            exp.push(Cb::Query(format!("q{}", i)));
        }
        if c.tail >= 2 {
            // the connection ends with an error behind the pipelined queries: whatever was
            // accepted and served before must have reached the client all the same
            st.bump("accepted_then_connection_error");
            if o.res.is_ok() {
                return Err(Violation::new("tail-result", format!("run_on returned Ok although the conversation ends {}", if c.tail == 2 { "with an EXECUTE of an unknown statement" } else { "inside a packet" })));
            }
            let got: Vec<Cb> = cbs.iter().map(|x| (*x).clone()).collect();
            if got != exp {
                return Err(Violation::new("tail-callbacks", format!("callbacks {:?}", got.iter().map(cb_short).collect::<Vec<_>>())));
            }
            let d = decode_all(out, &conv, &s.last_seq, c.pipelined, true).map_err(|e| Violation::new("accept-reply-before-error", format!("the connection ended with an error after an accepted handshake and {} served queries, but the client did not receive their replies: {}", c.pipelined, e)))?;
            if !matches!(d.auth, Unit::Ok { .. }) {
                return Err(Violation::new("accept-reply", format!("accepted client received {:?}", d.auth)));
            }
            trailing_is_at_most_one_err(&d).map_err(|e| Violation::new("tail-output", e))?;
            return Ok(());
        }
        let d = check_exact(&o, &conv, &s.last_seq, &exp)?;
        if !matches!(d.auth, Unit::Ok { .. }) {
            return Err(Violation::new("accept-reply", format!("accepted client received {:?}", d.auth)));
        }
        if c.pipelined > 0 {
            st.bump("pipelined_behind_handshake");
        }
    }
    Ok(())
}

struct CapsSweep {
    tls: bool,
}
impl CapsSweep {
    fn case(&self, idx: u64) -> Option<Case> {
        let d = digits(idx, &[65536, 4, 2]);
        let lo = d[0] as u16;
        let hi = [0u16, 0x0001, 0x8000, 0xffff][d[1] as usize];
        if lo & 0x0200 == 0 && d[1] != 0 {
            return None; // 3.20 layout has no upper word
        }
        if self.tls && lo & 0x0800 != 0 {
            return None; // real TLS handshakes are C18's business
        }
        Some(Case {
            lo,
            hi,
            user: b"jon".to_vec(),
            trailer: if lo & 0x0200 != 0 { b"\x14aaaaaaaaaaaaaaaaaaaadb\0mysql_native_password\0".to_vec() } else { b"pw\0".to_vec() },
            seq: 1,
            tls: self.tls,
            reject: d[2] == 1,
            pipelined: 1,
            partial_tail: false,
            tail: 0,
            split: false,
            collation: 0x21,
            read_size: 0,
        })
    }
}
impl Family for CapsSweep {
    fn name(&self) -> String {
        format!("capability-words-tls-{}", self.tls)
    }
    fn len(&self) -> u64 {
        65536 * 4 * 2
    }
    fn run(&self, idx: u64, st: &mut Stats) -> Result<(), Violation> {
        match self.case(idx) {
            None => Ok(()),
            Some(c) => {
                st.nontrivial += 1;
                if c.lo & 0x0200 == 0 {
                    st.bump("layout_320");
                }
                run_case(&c, st)
            }
        }
    }
    fn describe(&self, idx: u64) -> J {
        json!(format!("{:?}", self.case(idx)))
    }
}

/// character-set bytes of the handshake response: utf8, latin1_swedish_ci, utf8mb4, binary, an
/// unassigned one, big5 - the user name is bytes whatever the client calls its character set
const COLLATIONS: [u8; 6] = [0x21, 0x08, 0x2d, 0x3f, 0xff, 0x01];

struct Users {
    users: Vec<Vec<u8>>,
    trailers41: Vec<Vec<u8>>,
}
impl Users {
    fn new() -> Self {
        let mut users: Vec<Vec<u8>> = vec![vec![], b"jon".to_vec(), vec![b'a'; 255], vec![b'b'; 70000], b"\xff\xfe".to_vec(), b"a b".to_vec(), "d\u{e9}".as_bytes().to_vec()];
        for b in 1..=255u8 {
            users.push(vec![b]);
        }
        let trailers41 = vec![
            vec![],
            vec![0],
            b"\x14aaaaaaaaaaaaaaaaaaaa".to_vec(),
            b"\x00db\0".to_vec(),
            b"\x00db\0mysql_native_password\0".to_vec(),
            b"\x00\0plugin\0\x05\x01a\x01b".to_vec(),
            b"\0\0\0\0".to_vec(),
            b"secret\0db\0".to_vec(),
        ];
        Users { users, trailers41 }
    }
    fn case(&self, idx: u64) -> Case {
        let d = digits(idx, &[self.users.len() as u64, self.trailers41.len() as u64, 2, 2, 4, 2, COLLATIONS.len() as u64]);
        let is41 = d[2] == 0;
        Case {
            lo: if is41 { 0xa285 } else { 0x0005 },
            hi: if is41 { 0x000a } else { 0 },
            user: self.users[d[0] as usize].clone(),
            trailer: self.trailers41[d[1] as usize].clone(),
            seq: 1,
            tls: d[5] == 1,
            reject: d[3] == 1,
            pipelined: (d[4] % 3) as usize,
            partial_tail: d[4] == 3 && d[3] == 1,
            tail: 0,
            split: false,
            collation: COLLATIONS[d[6] as usize],
            read_size: 0,
        }
    }
}
impl Family for Users {
    fn name(&self) -> String {
        "users-trailers-layouts".into()
    }
    fn len(&self) -> u64 {
        (self.users.len() * self.trailers41.len() * 2 * 2 * 4 * 2 * COLLATIONS.len()) as u64
    }
    fn run(&self, idx: u64, st: &mut Stats) -> Result<(), Violation> {
        let c = self.case(idx);
        st.nontrivial += 1;
        if std::str::from_utf8(&c.user).is_err() {
            st.bump("non_utf8_users");
        }
        run_case(&c, st)
    }
    fn describe(&self, idx: u64) -> J {
        let c = self.case(idx);
        json!({"layout": if c.lo & 0x200 != 0 {"4.1"} else {"3.20"}, "user_hex": hex(&c.user), "trailer_hex": hex(&c.trailer), "reject": c.reject, "pipelined_commands": c.pipelined, "tls_configured": c.tls, "collation": c.collation})
    }
}

struct SeqIds;
impl Family for SeqIds {
    fn name(&self) -> String {
        "handshake-sequence-ids".into()
    }
    fn len(&self) -> u64 {
        256 * 4
    }
    fn run(&self, idx: u64, st: &mut Stats) -> Result<(), Violation> {
        let d = digits(idx, &[256, 2, 2]);
        st.nontrivial += 1;
        let is41 = d[1] == 0;
        run_case(
            &Case {
                lo: if is41 { 0xa285 } else { 0x0005 },
                hi: 0,
                user: b"u".to_vec(),
                trailer: vec![0],
                seq: d[0] as u8,
                tls: false,
                reject: d[2] == 1,
                pipelined: 2,
                partial_tail: false,
                tail: 0,
                split: false,
                collation: 0x21,
            read_size: 0,
            },
            st,
        )
    }
    fn describe(&self, idx: u64) -> J {
        let d = digits(idx, &[256, 2, 2]);
        json!({"handshake_sequence_id": d[0], "layout": if d[1] == 0 {"4.1"} else {"3.20"}, "reject": d[2] == 1})
    }
}

/// what is pipelined behind the handshake response, and how it ends: 0..2 queries followed by
/// nothing / COM_QUIT / a command the library refuses by ending the connection / a command cut off
/// by the end of the stream; all in one read or with the handshake response in a read of its own
struct Tails;
impl Tails {
    fn case(idx: u64) -> Case {
        let d = digits(idx, &[2, 2, 3, 4, 2, 2]);
        let is41 = d[0] == 0;
        Case {
            lo: if is41 { 0xa285 } else { 0x0005 },
            hi: 0,
            user: b"tail".to_vec(),
            trailer: vec![0],
            seq: 1,
            tls: d[4] == 1,
            reject: d[1] == 1,
            pipelined: d[2] as usize,
            partial_tail: false,
            tail: d[3] as u8,
            split: d[5] == 1,
            collation: 0x21,
            read_size: 0,
        }
    }
}
impl Family for Tails {
    fn name(&self) -> String {
        "pipelined-tails".into()
    }
    fn len(&self) -> u64 {
        2 * 2 * 3 * 4 * 2 * 2
    }
    fn run(&self, idx: u64, st: &mut Stats) -> Result<(), Violation> {
        st.nontrivial += 1;
        st.bump("pipelined_tails");
        run_case(&Self::case(idx), st)
    }
    fn describe(&self, idx: u64) -> J {
        let c = Self::case(idx);
        let then = ["nothing", "COM_QUIT", "EXECUTE of an unknown statement", "a command cut off by the end of the stream"][c.tail as usize];
        json!({"layout": if c.lo & 0x200 != 0 {"4.1"} else {"3.20"}, "reject": c.reject, "pipelined_queries": c.pipelined, "then": then, "handshake_in_its_own_read": c.split, "tls_configured": c.tls})
    }
}

/// user names of every length: the name is the one variable-length field the library itself has to
/// find the end of, inside a packet whose size it does not choose. Every length 0..=2100 and windows
/// around the powers of two up to 2^20 (thorough: up to the packet limit, so that the handshake
/// response itself needs a continuation packet), bytes that differ from position to position, both
/// layouts, accept and reject, whole reads and reads of 7 / 4096 bytes, a query pipelined behind.
struct UserLengths {
    lens: Vec<usize>,
}
impl UserLengths {
    fn new(quick: bool) -> Self {
        let mut lens: Vec<usize> = (0..=2100).collect();
        for k in [4096usize, 8192, 16384, 32768, 65535, 65536, 100_000, 1 << 20] {
            for d in -4i64..=4 {
                lens.push((k as i64 + d) as usize);
            }
        }
        // a handshake response that needs a continuation packet (4.1 layout: 32 bytes before the
        // name, one NUL and a 1-byte trailer behind it)
        let totals: &[usize] = if quick { &[(1 << 24) + 5, (1 << 24) + 3_000_001] } else { &[(1 << 24) - 2, (1 << 24) - 1, 1 << 24, (1 << 24) + 5, (1 << 24) + 3_000_001, (1 << 25) + 77] };
        for total in totals {
            lens.push(total - 34);
        }
        UserLengths { lens }
    }
    fn case(&self, idx: u64) -> Case {
        let d = digits(idx, &[self.lens.len() as u64, 2, 2, 3]);
        let n = self.lens[d[0] as usize];
        let is41 = d[1] == 0;
        Case {
            lo: if is41 { 0xa285 } else { 0x0005 },
            hi: if is41 { 0x000a } else { 0 },
            user: (0..n).map(|i| (i % 251 + 1) as u8).collect(),
            trailer: vec![0],
            seq: 1,
            tls: false,
            reject: d[2] == 1,
            pipelined: 1,
            partial_tail: false,
            tail: 0,
            split: false,
            collation: 0x21,
            read_size: if n > 200_000 { [0, 1 << 20, 65536][d[3] as usize] } else { [0, 7, 4096][d[3] as usize] },
        }
    }
}
impl Family for UserLengths {
    fn name(&self) -> String {
        "user-name-lengths".into()
    }
    fn len(&self) -> u64 {
        self.lens.len() as u64 * 2 * 2 * 3
    }
    fn run(&self, idx: u64, st: &mut Stats) -> Result<(), Violation> {
        let c = self.case(idx);
        st.nontrivial += 1;
        st.bump("user_name_lengths");
        run_case(&c, st)
    }
    fn describe(&self, idx: u64) -> J {
        let c = self.case(idx);
        json!({"layout": if c.lo & 0x200 != 0 {"4.1"} else {"3.20"}, "user_name_bytes": c.user.len(), "user": "byte i is i % 251 + 1", "reject": c.reject, "reads_of_at_most": c.read_size})
    }
}

pub fn build(quick: bool) -> Check {
    Check {
        id: "C11",
        level: "model_checking",
        rule: "handshake responses: all 2^16 lower capability words x 4 upper words (the layout follows CLIENT_PROTOCOL_41) x accept/reject, without and with a TLS configuration (plaintext clients); 262 user names (empty, every single non-NUL byte, 255 and 70000 bytes, non-UTF-8) x 6 character-set bytes (utf8, latin1, utf8mb4, binary, ...) x 8 trailers x both layouts x accept/reject x 0..2 pipelined commands (and, when rejecting, a further command cut off inside its packet) x TLS configured or not; every handshake sequence id; user names of every length 0..2100 and around every power of two up to 2^20 and two that make the handshake response need a continuation packet (thorough: six around the packet limit and beyond 2^25), position-dependent bytes, both layouts, accept/reject, whole reads and reads of 7 / 4096 bytes (1 MiB / 64 KiB for the multi-packet ones); 0..2 pipelined queries followed by nothing / COM_QUIT / an EXECUTE of an unknown statement / a command cut off by the end of the stream, in one read or with the handshake response in a read of its own, accept and reject. Oracle: first packet is a protocol-10 greeting with id 0 accepted by refwire and mysql_common, CLIENT_PROTOCOL_41 set, CLIENT_SSL set iff a TLS configuration is offered; after_authentication exactly once with the exact user bytes before any command; reject -> ERR 1045/28000 at id+1, run_on returns the shim's error, no command callback; accept -> OK at id+1 and the pipelined commands are served (their replies delivered even when the connection then ends with an error); CLIENT_SSL without a TLS configuration -> Err and no callback at all.".into(),
        assumptions: vec!["masks with CLIENT_SSL against a TLS-offering shim are C18's scenarios (they need a real TLS client)".into()],
        bounds: json!({"capability_words": 65536, "upper_words": 4, "users": 262, "trailers": 8}),
        exhaustive: true,
        caps_hit: vec![],
        families: vec![Box::new(CapsSweep { tls: false }), Box::new(CapsSweep { tls: true }), Box::new(Users::new()), Box::new(SeqIds), Box::new(Tails), Box::new(UserLengths::new(quick))],
        required: vec!["pipelined_tails", "accepted_then_connection_error", "ssl_requested_without_tls", "rejected", "accepted", "pipelined_behind_handshake", "layout_320", "non_utf8_users", "rejected_with_truncated_tail", "user_name_lengths"],
    }
}
