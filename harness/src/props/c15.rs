//! C15 — integer results are exact or refused, never silently altered: every Rust integer type
//! x every integer column type and signedness x value sets (exhaustive for 8/16-bit types).

use super::common::*;
use crate::conv::*;
use crate::engine::*;
use crate::refwire::*;
use crate::shim::*;
use msql_srv::{Column, ColumnFlags, ColumnType, ToMysqlValue};
use serde_json::{json, Value as J};
use std::io;
use std::sync::Arc;

const COLS: [(ColumnType, &str, u32); 6] = [
    (ColumnType::MYSQL_TYPE_TINY, "TINY", 8),
    (ColumnType::MYSQL_TYPE_SHORT, "SHORT", 16),
    (ColumnType::MYSQL_TYPE_YEAR, "YEAR", 16),
    (ColumnType::MYSQL_TYPE_INT24, "INT24", 32),
    (ColumnType::MYSQL_TYPE_LONG, "LONG", 32),
    (ColumnType::MYSQL_TYPE_LONGLONG, "LONGLONG", 64),
];

type Enc = Box<dyn Fn(i128, &Column) -> io::Result<Vec<u8>> + Sync + Send>;

struct Ty {
    name: &'static str,
    min: i128,
    max: i128,
    pointer_sized: bool,
    enc: Enc,
    vals: Vec<i128>,
}

fn boundary_values(min: i128, max: i128) -> Vec<i128> {
    let mut v = vec![min, min + 1, max, max - 1, 0, 1, -1];
    for k in 0..64 {
        let p = 1i128 << k;
        for x in [p, p - 1, p + 1, -p, -p - 1, -p + 1] {
            v.push(x);
        }
    }
    for b in [8u32, 16, 32, 64] {
        let smin = -(1i128 << (b - 1));
        let smax = (1i128 << (b - 1)) - 1;
        let umax = (1i128 << b) - 1;
        for x in [smin - 1, smin, smin + 1, smax - 1, smax, smax + 1, umax - 1, umax, umax + 1] {
            v.push(x);
        }
    }
    v.retain(|x| *x >= min && *x <= max);
    v.sort();
    v.dedup();
    v
}

macro_rules! ty {
    ($t:ty, $name:expr, $ptr:expr, $exh:expr) => {{
        let min = <$t>::MIN as i128;
        let max = <$t>::MAX as i128;
        Ty {
            name: $name,
            min,
            max,
            pointer_sized: $ptr,
            enc: Box::new(|v: i128, c: &Column| {
                let mut out = Vec::new();
                (v as $t).to_mysql_bin(&mut out, c)?;
                Ok(out)
            }),
            vals: if $exh { (min..=max).collect() } else { boundary_values(min, max) },
        }
    }};
}

fn types() -> Vec<Ty> {
    let mut v = vec![
        ty!(u8, "u8", false, true),
        ty!(i8, "i8", false, true),
        ty!(u16, "u16", false, true),
        ty!(i16, "i16", false, true),
        ty!(u32, "u32", false, false),
        ty!(i32, "i32", false, false),
        ty!(u64, "u64", false, false),
        ty!(i64, "i64", false, false),
        ty!(usize, "usize", true, false),
        ty!(isize, "isize", true, false),
    ];
    // generic values
    v.push(Ty {
        name: "Value::Int",
        min: i64::MIN as i128,
        max: i64::MAX as i128,
        pointer_sized: false,
        enc: Box::new(|v: i128, c: &Column| {
            let mut out = Vec::new();
            mysql_common::value::Value::Int(v as i64).to_mysql_bin(&mut out, c)?;
            Ok(out)
        }),
        vals: boundary_values(i64::MIN as i128, i64::MAX as i128),
    });
    v.push(Ty {
        name: "Value::UInt",
        min: 0,
        max: u64::MAX as i128,
        pointer_sized: false,
        enc: Box::new(|v: i128, c: &Column| {
            let mut out = Vec::new();
            mysql_common::value::Value::UInt(v as u64).to_mysql_bin(&mut out, c)?;
            Ok(out)
        }),
        vals: boundary_values(0, u64::MAX as i128),
    });
    v
}

fn col_range(bits: u32, unsigned: bool) -> (i128, i128) {
    if unsigned {
        (0, (1i128 << bits) - 1)
    } else {
        (-(1i128 << (bits - 1)), (1i128 << (bits - 1)) - 1)
    }
}

fn decode(bytes: &[u8], bits: u32, unsigned: bool) -> Option<i128> {
    if bytes.len() != (bits / 8) as usize {
        return None;
    }
    let mut u = 0u128;
    for (i, b) in bytes.iter().enumerate() {
        u |= (*b as u128) << (8 * i);
    }
    Some(if unsigned {
        u as i128
    } else {
        let shift = 128 - bits;
        ((u << shift) as i128) >> shift
    })
}

const EXTRA_FLAGS: usize = 5;
fn extra_flags(k: usize) -> ColumnFlags {
    match k {
        0 => ColumnFlags::empty(),
        1 => ColumnFlags::ZEROFILL_FLAG,
        2 => ColumnFlags::NOT_NULL_FLAG | ColumnFlags::PRI_KEY_FLAG | ColumnFlags::AUTO_INCREMENT_FLAG,
        3 => ColumnFlags::BINARY_FLAG | ColumnFlags::NUM_FLAG | ColumnFlags::PART_KEY_FLAG,
        _ => ColumnFlags::all() - ColumnFlags::UNSIGNED_FLAG,
    }
}

struct Matrix {
    tys: Vec<Ty>,
}

impl Family for Matrix {
    fn name(&self) -> String {
        "type-x-column-matrix".into()
    }
    fn len(&self) -> u64 {
        (self.tys.len() * COLS.len() * 2 * EXTRA_FLAGS) as u64
    }
    fn run(&self, idx: u64, st: &mut Stats) -> Result<(), Violation> {
        let d = digits(idx, &[self.tys.len() as u64, COLS.len() as u64, 2, EXTRA_FLAGS as u64]);
        let ty = &self.tys[d[0] as usize];
        let (ct, cname, bits) = COLS[d[1] as usize];
        let unsigned = d[2] == 1;
        // flags that say nothing about the range: only UNSIGNED_FLAG decides signedness
        let extra = extra_flags(d[3] as usize);
        if d[3] != 0 {
            st.bump("columns_with_other_flags");
        }
        let c = col("c", ct, extra | if unsigned { ColumnFlags::UNSIGNED_FLAG } else { ColumnFlags::empty() });
        let (cmin, cmax) = col_range(bits, unsigned);
        let whole_type_fits = ty.min >= cmin && ty.max <= cmax;
        st.evals += ty.vals.len() as u64 - 1;
        for &v in &ty.vals {
            st.transitions += 1;
            let fits = v >= cmin && v <= cmax;
            let r = guarded(|| (ty.enc)(v, &c));
            let what = format!("{} value {} into {}{} column{}", ty.name, v, cname, if unsigned { " UNSIGNED" } else { "" }, if d[3] != 0 { format!(" with flags {:?}", extra) } else { String::new() });
            match r {
                Ok(Ok(bytes)) => {
                    st.bump("accepted");
                    match decode(&bytes, bits, unsigned) {
                        Some(got) if got == v => {}
                        Some(got) => {
                            return Err(Violation::new(
                                format!("altered:{}->{}{}", ty.name, cname, if unsigned { "U" } else { "" }),
                                format!("{}: accepted, but the client decodes {}", what, got),
                            ))
                        }
                        None => return Err(Violation::new("wrong-width", format!("{}: {} bytes written for a {}-bit column", what, bytes.len(), bits))),
                    }
                    if !fits {
                        return Err(Violation::new("harness:impossible", format!("{}: decoded equal although out of range", what)));
                    }
                }
                Ok(Err(_)) | Err(_) => {
                    if r.is_err() {
                        st.bump("refused_by_panic");
                    } else {
                        st.bump("refused");
                    }
                    let must_accept = if ty.name.starts_with("Value::") { false } else if ty.pointer_sized { fits } else { whole_type_fits };
                    if must_accept {
                        return Err(Violation::new(
                            format!("refused:{}->{}{}", ty.name, cname, if unsigned { "U" } else { "" }),
                            format!("{}: refused although the column's range contains {}", what, if ty.pointer_sized { "the value" } else { "the whole range of the type" }),
                        ));
                    }
                    if fits {
                        st.bump("refused_although_representable");
                    } else {
                        st.nontrivial += 1;
                    }
                }
            }
        }
        Ok(())
    }
    fn describe(&self, idx: u64) -> J {
        let d = digits(idx, &[self.tys.len() as u64, COLS.len() as u64, 2]);
        let ty = &self.tys[d[0] as usize];
        json!({"rust_type": ty.name, "column": COLS[d[1] as usize].1, "unsigned": d[2] == 1, "other_flags": format!("{:?}", extra_flags((idx / (self.tys.len() * COLS.len() * 2) as u64) as usize)), "values": ty.vals.len(), "first_values": ty.vals.iter().take(6).map(|v| v.to_string()).collect::<Vec<_>>()})
    }
}

/// the same through write_col and the wire: one binary row per value, alone in its response and
/// behind each kind of earlier result of the same response
struct ThroughRows;
const BEFORE: [&str; 5] = ["alone in the response", "behind a zero-column resultset whose rows were given integers", "behind an OK with more results", "behind a zero-column resultset with one row", "behind a resultset of the same columns"];
impl ThroughRows {
    fn vals() -> Vec<(Val, i128)> {
        let mut v = Vec::new();
        for x in [i8::MIN, -1, 0, 1, i8::MAX] {
            v.push((Val::I8(x), x as i128));
        }
        for x in [0u8, 1, 127, 128, 255] {
            v.push((Val::U8(x), x as i128));
        }
        for x in [i16::MIN, -129, -1, 255, 256, i16::MAX] {
            v.push((Val::I16(x), x as i128));
        }
        for x in [0u16, 255, 256, 32767, 32768, u16::MAX] {
            v.push((Val::U16(x), x as i128));
        }
        for x in [i32::MIN, -32769, -1, 65535, 65536, i32::MAX] {
            v.push((Val::I32(x), x as i128));
        }
        for x in [0u32, 65536, i32::MAX as u32, i32::MAX as u32 + 1, u32::MAX] {
            v.push((Val::U32(x), x as i128));
        }
        for x in [i64::MIN, -1 - (1i64 << 31), -1, 1i64 << 32, i64::MAX] {
            v.push((Val::I64(x), x as i128));
        }
        for x in [0u64, 1u64 << 32, i64::MAX as u64, i64::MAX as u64 + 1, u64::MAX] {
            v.push((Val::U64(x), x as i128));
        }
        for x in [isize::MIN, -1, 0, 300, isize::MAX] {
            v.push((Val::Isize(x), x as i128));
        }
        for x in [0usize, 300, isize::MAX as usize, isize::MAX as usize + 1, usize::MAX] {
            v.push((Val::Usize(x), x as i128));
        }
        v
    }
}
impl Family for ThroughRows {
    fn ambient(&self, idx: u64) -> u64 {
        crate::engine::rot(idx)
    }
    fn name(&self) -> String {
        "through-write_col".into()
    }
    fn len(&self) -> u64 {
        (Self::vals().len() * COLS.len() * 2 * BEFORE.len()) as u64
    }
    fn run(&self, idx: u64, st: &mut Stats) -> Result<(), Violation> {
        let vals = Self::vals();
        let d = digits(idx, &[vals.len() as u64, COLS.len() as u64, 2, BEFORE.len() as u64]);
        let (val, num) = vals[d[0] as usize].clone();
        let (ct, cname, bits) = COLS[d[1] as usize];
        let unsigned = d[2] == 1;
        st.nontrivial += 1;
        let cols = Arc::new(vec![
            col("pad", ColumnType::MYSQL_TYPE_TINY, ColumnFlags::empty()),
            col("c", ct, if unsigned { ColumnFlags::UNSIGNED_FLAG } else { ColumnFlags::empty() }),
            col("tail", ColumnType::MYSQL_TYPE_SHORT, ColumnFlags::empty()),
        ]);
        // what the same response carries in front of the resultset under test
        let c0: Arc<Vec<Column>> = Arc::new(Vec::new());
        let mut ops = match d[3] {
            0 => vec![],
            1 => vec![WOp::Start(c0.clone()), WOp::WriteCol(val.clone()), WOp::WriteCol(Val::I64(i64::MIN)), WOp::EndRow, WOp::WriteCol(Val::U32(u32::MAX)), WOp::EndRow, WOp::FinishOne],
            2 => vec![WOp::CompleteOne(1, 1)],
            3 => vec![WOp::Start(c0.clone()), WOp::EndRow, WOp::FinishOne],
            _ => vec![WOp::Start(cols.clone()), WOp::WriteCol(Val::I8(1)), WOp::WriteCol(Val::I8(2)), WOp::WriteCol(Val::I16(3)), WOp::EndRow, WOp::FinishOne],
        };
        if d[3] != 0 {
            st.bump("rows_behind_another_result_of_the_same_response");
        }
        ops.extend(vec![WOp::Start(cols.clone()), WOp::WriteCol(Val::I8(0x55)), WOp::WriteCol(val.clone()), WOp::WriteCol(Val::I16(0x1234)), WOp::EndRow, WOp::Finish]);
        let prog = Arc::new(ops);
        let conv = Conv::new(vec![ClientCmd::new(with_byte(COM_STMT_PREPARE, b"id=1 p=0")), ClientCmd::new(cmd_execute(1, 0, 1, &[])), ping()]);
        let s = conv.stream();
        let stream = Arc::new(s.bytes);
        let mut sim = sim_for(&stream, vec![]);
        sim.log_ops = false;
        let p2 = prog.clone();
        let behave = Box::new(move |_: usize, cb: &Cb| match cb {
            Cb::Prepare(_) => Behavior::PrepReply { id: 1, params: param_cols(0), cols: param_cols(0) },
            Cb::Execute { .. } => Behavior::Prog(p2.clone()),
            _ => Behavior::Silent,
        });
        let o = run_conn(sim, ConnCfg::new(behave));
        st.transitions += 1;
        let what = format!("{:?} into {}{} column through write_col, {}", val, cname, if unsigned { " UNSIGNED" } else { "" }, BEFORE[d[3] as usize]);
        if let ConnResult::Panic(l, m) = &o.res {
            // a panic inside the shim's write call is a refusal for this property
            st.bump("refused_by_panic");
            let _ = (l, m);
            return Ok(());
        }
        let refused = o.calls.iter().any(|c| c.res.is_err());
        let (cmin, cmax) = col_range(bits, unsigned);
        if refused {
            st.bump("rows_refused");
            return Ok(());
        }
        st.bump("rows_accepted");
        let dd = decode_all(delivered(&o), &conv, &s.last_seq, 3, false).map_err(|e| Violation::new("row-undecodable", format!("{}: {}", what, e)))?;
        match dd.replies[1].last() {
            Some(Unit::ResultSet { rows, .. }) if rows.len() == 1 && dd.replies[1].len() == if d[3] == 0 { 1 } else { 2 } => {
                let want = if unsigned { Cell::Bin(BinVal::UInt(num as u64)) } else { Cell::Bin(BinVal::Int(num as i64)) };
                if rows[0][1] != want || num < cmin || num > cmax {
                    return Err(Violation::new("altered-through-row", format!("{}: accepted, the client decodes {:?}", what, rows[0][1])));
                }
                if rows[0][0] != Cell::Bin(BinVal::Int(0x55)) || rows[0][2] != Cell::Bin(BinVal::Int(0x1234)) {
                    return Err(Violation::new("neighbours-disturbed", format!("{}: neighbouring cells decode as {:?}", what, rows[0])));
                }
            }
            other => return Err(Violation::new("row-missing", format!("{}: reply is {:?}", what, other))),
        }
        Ok(())
    }
    fn describe(&self, idx: u64) -> J {
        let vals = Self::vals();
        let d = digits(idx, &[vals.len() as u64, COLS.len() as u64, 2, BEFORE.len() as u64]);
        json!({"value": format!("{:?}", vals[d[0] as usize].0), "column": COLS[d[1] as usize].1, "unsigned": d[2] == 1, "before_it_in_the_same_response": BEFORE[d[3] as usize]})
    }
}

/// thorough only: every 32-bit value of u32 and i32 into the 32- and 64-bit columns
struct Exhaustive32;
const CHUNK: u64 = 1 << 20;
impl Family for Exhaustive32 {
    fn name(&self) -> String {
        "exhaustive-32-bit".into()
    }
    fn len(&self) -> u64 {
        2 * 6 * ((1u64 << 32) / CHUNK)
    }
    fn run(&self, idx: u64, st: &mut Stats) -> Result<(), Violation> {
        let d = digits(idx, &[(1u64 << 32) / CHUNK, 6, 2]);
        let signed_ty = d[2] == 1;
        let (ct, cname, bits) = [COLS[3], COLS[4], COLS[5]][(d[1] / 2) as usize];
        let unsigned = d[1] % 2 == 1;
        let c = col("c", ct, if unsigned { ColumnFlags::UNSIGNED_FLAG } else { ColumnFlags::empty() });
        let (cmin, cmax) = col_range(bits, unsigned);
        let whole = if signed_ty { i32::MIN as i128 >= cmin && i32::MAX as i128 <= cmax } else { 0 >= cmin && u32::MAX as i128 <= cmax };
        st.evals += CHUNK - 1;
        st.nontrivial += 1;
        let base = d[0] * CHUNK;
        for k in 0..CHUNK {
            let raw = (base + k) as u32;
            let v: i128 = if signed_ty { raw as i32 as i128 } else { raw as i128 };
            let mut buf = [0u8; 8];
            let mut w = &mut buf[..];
            let r = if signed_ty { (raw as i32).to_mysql_bin(&mut w, &c) } else { raw.to_mysql_bin(&mut w, &c) };
            let used = 8 - w.len();
            match r {
                Ok(()) => match decode(&buf[..used], bits, unsigned) {
                    Some(g) if g == v => {}
                    other => return Err(Violation::new("altered:exhaustive32", format!("{} {} into {}{}: client decodes {:?}", if signed_ty { "i32" } else { "u32" }, v, cname, if unsigned { " UNSIGNED" } else { "" }, other))),
                },
                Err(_) => {
                    if whole {
                        return Err(Violation::new("refused:exhaustive32", format!("{} {} into {}{}: refused", if signed_ty { "i32" } else { "u32" }, v, cname, if unsigned { " UNSIGNED" } else { "" })));
                    }
                }
            }
        }
        Ok(())
    }
    fn describe(&self, idx: u64) -> J {
        let d = digits(idx, &[(1u64 << 32) / CHUNK, 6, 2]);
        json!({"type": if d[2] == 1 {"i32"} else {"u32"}, "column_variant": d[1], "values": format!("{}..{}", d[0] * CHUNK, (d[0] + 1) * CHUNK)})
    }
}

/// The bytes of a value must not depend on what was encoded before it on the same thread (the
/// binary twin of C06's seam histories): every ordered pair over a palette of (value, column)
/// pairs - bit twins of different Rust types and signedness in columns of every width - the first
/// encoded into a good or a failing writer, the second into a fresh buffer; its bytes (or its
/// refusal) must be what a thread that never encoded anything else produces.
struct BinSeamHistories {
    pal: Vec<(Val, Column)>,
    fresh: Vec<Option<Vec<u8>>>,
}
impl BinSeamHistories {
    fn new() -> Self {
        let c = |t: ColumnType, u: bool| col("c", t, if u { ColumnFlags::UNSIGNED_FLAG } else { ColumnFlags::empty() });
        use ColumnType::*;
        let pal: Vec<(Val, Column)> = vec![
            (Val::I8(-1), c(MYSQL_TYPE_TINY, false)),
            (Val::U8(255), c(MYSQL_TYPE_TINY, true)),
            (Val::I16(-1), c(MYSQL_TYPE_SHORT, false)),
            (Val::U16(65535), c(MYSQL_TYPE_SHORT, true)),
            (Val::I32(-1), c(MYSQL_TYPE_LONG, false)),
            (Val::U32(u32::MAX), c(MYSQL_TYPE_LONG, true)),
            (Val::I64(-1), c(MYSQL_TYPE_LONGLONG, false)),
            (Val::U64(u64::MAX), c(MYSQL_TYPE_LONGLONG, true)),
            (Val::I64(i64::MIN), c(MYSQL_TYPE_LONGLONG, false)),
            (Val::U64(1 << 63), c(MYSQL_TYPE_LONGLONG, true)),
            (Val::Isize(-1), c(MYSQL_TYPE_LONGLONG, false)),
            (Val::Usize(usize::MAX), c(MYSQL_TYPE_LONGLONG, true)),
            (Val::I8(-1), c(MYSQL_TYPE_LONGLONG, false)),
            (Val::U8(255), c(MYSQL_TYPE_LONGLONG, true)),
            (Val::I32(7), c(MYSQL_TYPE_LONG, false)),
            (Val::I32(7), c(MYSQL_TYPE_LONGLONG, false)),
            (Val::U8(7), c(MYSQL_TYPE_SHORT, true)),
            (Val::I64(1 << 40), c(MYSQL_TYPE_LONG, false)), // refused
            (Val::U64(u64::MAX), c(MYSQL_TYPE_LONGLONG, false)), // refused
            (Val::F32(1.0), c(MYSQL_TYPE_FLOAT, false)),
            (Val::U32(1.0f32.to_bits()), c(MYSQL_TYPE_LONG, true)),
            (Val::F64(1.0), c(MYSQL_TYPE_DOUBLE, false)),
            (Val::U64(1.0f64.to_bits()), c(MYSQL_TYPE_LONGLONG, true)),
            (Val::Str("7".into()), c(MYSQL_TYPE_VAR_STRING, false)),
            (Val::Bytes(vec![0xfb, 0x37]), c(MYSQL_TYPE_BLOB, false)),
        ];
        let fresh = pal
            .iter()
            .map(|(v, c)| {
                let (v, c) = (v.clone(), c.clone());
                std::thread::spawn(move || {
                    let mut out = Vec::new();
                    match guarded(|| v.to_mysql_bin(&mut out, &c)) {
                        Ok(Ok(())) => Some(out),
                        _ => None,
                    }
                })
                .join()
                .unwrap_or(None)
            })
            .collect();
        BinSeamHistories { pal, fresh }
    }
}
impl Family for BinSeamHistories {
    fn name(&self) -> String {
        "binary-encoding-histories-at-the-seam".into()
    }
    fn len(&self) -> u64 {
        (self.pal.len() * self.pal.len() * 2) as u64
    }
    fn run(&self, idx: u64, st: &mut Stats) -> Result<(), Violation> {
        let n = self.pal.len() as u64;
        let d = digits(idx, &[n, n, 2]);
        let ((x, cx), (y, cy), failing) = (&self.pal[d[0] as usize], &self.pal[d[1] as usize], d[2] == 1);
        st.nontrivial += 1;
        st.bump("seam_histories");
        let r = guarded(|| {
            if failing {
                let mut none: [u8; 0] = [];
                let _ = x.to_mysql_bin(&mut &mut none[..], cx);
            } else {
                let mut sink = Vec::new();
                let _ = x.to_mysql_bin(&mut sink, cx);
            }
            let mut out = Vec::new();
            y.to_mysql_bin(&mut out, cy).ok().map(|_| out)
        });
        let what = format!("{} into {:?}{} encoded after {} into {:?}{}{}", val_short(y), cy.coltype, if cy.colflags.contains(ColumnFlags::UNSIGNED_FLAG) { " UNSIGNED" } else { "" }, val_short(x), cx.coltype, if cx.colflags.contains(ColumnFlags::UNSIGNED_FLAG) { " UNSIGNED" } else { "" }, if failing { " (whose writer failed)" } else { "" });
        let got = match r {
            Err((l, m)) => {
                // a panic counts as a refusal (as everywhere in this check)
                let _ = (l, m);
                None
            }
            Ok(o) => o,
        };
        if got != self.fresh[d[1] as usize] {
            return Err(Violation::new("bytes-depend-on-history", format!("{}: {:02x?}, on a thread that encoded nothing before {:02x?}", what, got, self.fresh[d[1] as usize])));
        }
        Ok(())
    }
    fn describe(&self, idx: u64) -> J {
        let n = self.pal.len() as u64;
        let d = digits(idx, &[n, n, 2]);
        json!({"first": val_short(&self.pal[d[0] as usize].0), "first_writer_fails": d[2] == 1, "then": val_short(&self.pal[d[1] as usize].0), "then_column": format!("{:?}", self.pal[d[1] as usize].1.coltype)})
    }
}

pub fn build(quick: bool) -> Check {
    Check {
        id: "C15",
        level: "model_checking",
        rule: "nine typed cells (integers of every width among them) behind a filler sized so that the 2^24-1 byte packet limit falls on every byte of them, binary and text protocol; all pairs (Rust type in {u8,i8,u16,i16,u32,i32,u64,i64,usize,isize, Value::Int, Value::UInt}) x (column in {TINY,SHORT,YEAR,INT24,LONG,LONGLONG} x {signed,unsigned} x 5 sets of other flags (none, ZEROFILL, NOT NULL|PRI KEY|AUTO_INCREMENT, BINARY|NUM|PART KEY, every flag but UNSIGNED)); values exhaustive for 8- and 16-bit types, otherwise every +-2^k, +-2^k+-1, type bounds and every column bound +-1; driven at the public to_mysql_bin seam, and through write_col/run_on with neighbouring cells. Oracle: bytes decoded by the column's width and signedness; accepted => decoded == written and width == column width; fixed-width type contained in the column => accepted; pointer-sized => accepted iff the value fits; a panic counts as a refusal and is tallied. Encoding histories at the seam: every ordered pair over 25 (value, column) pairs (bit twins of different Rust types and signedness, values that must be refused, floats, strings), the first encoded into a good or a failing writer; the second's bytes or refusal must be what a thread that never encoded anything else produces. Values in context: every sequence of <= 3 (thorough: 4) events on one connection (rows of other shapes incl. all-NULL / alternating NULLs / 300- and 70000-byte cells, a refused cell, a new resultset behind finish_one with the same or other columns, behind a completion, behind a zero-column set, a new command in the same or the other protocol, finish_error) followed by a probe row of characteristic values for nine column types; every row of the conversation must decode cell for cell to what was written. Non-trivial = a value the column cannot represent.".into(),
        assumptions: vec!["32/64-bit value domains are covered at boundary lattices".into()],
        bounds: json!({"types": 12, "columns": 12}),
        exhaustive: true,
        caps_hit: vec![],
        families: if quick { vec![Box::new(Matrix { tys: types() }), Box::new(ThroughRows), Box::new(super::c07::MixedRows), Box::new(super::aftermath::Aftermath { prop: "C15" }), Box::new(BinSeamHistories::new()), Box::new(super::context::BoundaryCells { prop: "C15", bin: true }), Box::new(super::context::BoundaryCells { prop: "C15", bin: false }), Box::new(super::context::ContextWalks { prop: "C15", depth: 2, start_bin: true }), Box::new(super::context::ContextWalks { prop: "C15", depth: 3, start_bin: true })] } else { vec![Box::new(Matrix { tys: types() }), Box::new(ThroughRows), Box::new(Exhaustive32), Box::new(super::c07::MixedRows), Box::new(super::aftermath::Aftermath { prop: "C15" }), Box::new(BinSeamHistories::new()), Box::new(super::context::BoundaryCells { prop: "C15", bin: true }), Box::new(super::context::BoundaryCells { prop: "C15", bin: false }), Box::new(super::context::ContextWalks { prop: "C15", depth: 2, start_bin: true }), Box::new(super::context::ContextWalks { prop: "C15", depth: 3, start_bin: true })] },
        required: vec!["seam_histories", "context_walks", "columns_with_other_flags", "mixed_rows", "aftermath_recovered", "accepted", "refused", "rows_accepted", "rows_refused"],
    }
}
