//! C13 — errors reach the client with the exact code, SQLSTATE and message: every ErrorKind
//! variant x every reporting site x message classes; conversions both ways; golden tables.

use super::common::*;
use crate::conv::*;
use crate::engine::*;
use crate::refwire::*;
use crate::second;
use crate::shim::*;
use msql_srv::{ColumnFlags, ColumnType, ErrorKind};
use serde_json::{json, Value as J};
use std::collections::HashMap;
use std::sync::Arc;

include!(concat!(env!("OUT_DIR"), "/errkinds.rs"));

fn messages() -> Vec<Vec<u8>> {
    vec![
        vec![],
        b"x".to_vec(),
        vec![b'm'; 512],
        vec![b'L'; 70000],
        (0..5000).map(|i| b'a' + (i % 26) as u8).collect(),
        b"bad \xff\xfe utf8".to_vec(),
        b"#HY000 looks like a state".to_vec(),
        b"nul\0inside".to_vec(),
        b"\xffleading".to_vec(),
        // valid UTF-8 beyond ASCII: every character below U+0100 / wider characters
        "caf\u{e9} \u{fc}ber na\u{ef}ve".as_bytes().to_vec(),
        "\u{20ac}uro \u{65e5}\u{672c} \u{1f600}".as_bytes().to_vec(),
    ]
}

const SITES: [&str; 13] = [
    "init via COM_INIT_DB",
    "init via USE",
    "prepare",
    "query error (fresh)",
    "query error after complete_one",
    "query error after finish_one",
    "finish_error after 0 rows (text)",
    "finish_error after rows (text)",
    "finish_error with a complete unended row (text)",
    "finish_error after 0 rows (binary)",
    "finish_error after rows (binary)",
    "execute error after finish_one (binary)",
    "query error after the statement SET NAMES latin1 was served",
];

struct Sites {
    msgs: Vec<Vec<u8>>,
}

impl Sites {
    fn case(&self, idx: u64) -> (usize, usize, usize) {
        let d = digits(idx, &[KINDS.len() as u64, SITES.len() as u64, self.msgs.len() as u64]);
        (d[0] as usize, d[1] as usize, d[2] as usize)
    }
}

impl Family for Sites {
    fn ambient(&self, idx: u64) -> u64 {
        crate::engine::rot(idx)
    }
    fn name(&self) -> String {
        "kinds-x-sites-x-messages".into()
    }
    fn len(&self) -> u64 {
        (KINDS.len() * SITES.len() * self.msgs.len()) as u64
    }
    fn run(&self, idx: u64, st: &mut Stats) -> Result<(), Violation> {
        let (ki, site, mi) = self.case(idx);
        st.nontrivial += 1;
        run_site(ki, site, self.msgs[mi].clone(), None, st)
    }
    fn describe(&self, idx: u64) -> J {
        let (ki, site, mi) = self.case(idx);
        json!({"kind": KINDS[ki].0, "site": SITES[site], "message_hex": hex(&self.msgs[mi][..self.msgs[mi].len().min(40)]), "message_len": self.msgs[mi].len()})
    }
}

/// the same sites for clients that answered the greeting differently: the ERR packet a 4.1
/// server sends does not depend on it
struct Handshakes {
    kinds: Vec<usize>,
    msgs: Vec<Vec<u8>>,
}
impl Handshakes {
    fn case(&self, idx: u64) -> (usize, usize, usize, u64) {
        let d = digits(idx, &[self.kinds.len() as u64, SITES.len() as u64, self.msgs.len() as u64, N_HANDSHAKE_VARIANTS]);
        (self.kinds[d[0] as usize], d[1] as usize, d[2] as usize, d[3])
    }
}
impl Family for Handshakes {
    fn name(&self) -> String {
        "handshake-variants-x-sites".into()
    }
    fn len(&self) -> u64 {
        self.kinds.len() as u64 * SITES.len() as u64 * self.msgs.len() as u64 * N_HANDSHAKE_VARIANTS
    }
    fn run(&self, idx: u64, st: &mut Stats) -> Result<(), Violation> {
        let (ki, site, mi, hv) = self.case(idx);
        st.nontrivial += 1;
        if hv != 0 {
            st.bump("errors_to_other_handshakes");
        }
        run_site(ki, site, self.msgs[mi].clone(), Some(hv), st)
    }
    fn describe(&self, idx: u64) -> J {
        let (ki, site, mi, hv) = self.case(idx);
        json!({"kind": KINDS[ki].0, "site": SITES[site], "message_len": self.msgs[mi].len(), "handshake": handshake_variant(hv).1})
    }
}

thread_local! {
    /// the callback that reported the error then returns Err itself ("the client was told; drop it")
    static THEN_FAIL: std::cell::Cell<bool> = std::cell::Cell::new(false);
    /// (sequence id of the request that is answered with the error, rows written before a late error)
    static ERR_AT: std::cell::Cell<(u8, usize)> = std::cell::Cell::new((0, 2));
}

fn run_site(ki: usize, site: usize, msg: Vec<u8>, hs: Option<u64>, st: &mut Stats) -> Result<(), Violation> {
    {
        let then_fail = THEN_FAIL.with(|t| t.get());
        let (name, kind) = KINDS[ki];
        let c2 = Arc::new(vec![
            col("a", ColumnType::MYSQL_TYPE_LONG, ColumnFlags::empty()),
            col("b", ColumnType::MYSQL_TYPE_VAR_STRING, ColumnFlags::empty()),
        ]);
        let row = || WOp::WriteRow(vec![Val::I32(7), Val::Str("x".into())]);
        let (req_seq, n_rows) = ERR_AT.with(|e| e.get());
        let rows_then = |end: WOp| -> Vec<WOp> {
            let mut p = vec![WOp::Start(c2.clone())];
            p.extend((0..n_rows).map(|_| row()));
            p.push(end);
            p
        };
        let (cmds, prog, behave_init, behave_prep): (Vec<ClientCmd>, Vec<WOp>, bool, bool) = match site {
            0 => (vec![ClientCmd::new(with_byte(COM_INIT_DB, b"db"))], vec![], true, false),
            1 => (vec![q(b"USE db")], vec![], true, false),
            2 => (vec![ClientCmd::new(with_byte(COM_STMT_PREPARE, b"x"))], vec![], false, true),
            3 => (vec![q(b"x")], vec![WOp::Error(kind, msg.clone())], false, false),
            4 => (vec![q(b"x")], vec![WOp::CompleteOne(1, 1), WOp::Error(kind, msg.clone())], false, false),
            5 => (vec![q(b"x")], vec![WOp::Start(c2.clone()), row(), WOp::FinishOne, WOp::Error(kind, msg.clone())], false, false),
            6 => (vec![q(b"x")], vec![WOp::Start(c2.clone()), WOp::FinishError(kind, msg.clone())], false, false),
            7 => (vec![q(b"x")], rows_then(WOp::FinishError(kind, msg.clone())), false, false),
            8 => (vec![q(b"x")], vec![WOp::Start(c2.clone()), WOp::WriteCol(Val::I32(1)), WOp::WriteCol(Val::Null), WOp::FinishError(kind, msg.clone())], false, false),
            9 => (vec![ClientCmd::new(with_byte(COM_STMT_PREPARE, b"id=1 p=0")), ClientCmd::new(cmd_execute(1, 0, 1, &[]))], vec![WOp::Start(c2.clone()), WOp::FinishError(kind, msg.clone())], false, false),
            10 => (vec![ClientCmd::new(with_byte(COM_STMT_PREPARE, b"id=1 p=0")), ClientCmd::new(cmd_execute(1, 0, 1, &[]))], if n_rows == 2 { vec![WOp::Start(c2.clone()), row(), WOp::FinishError(kind, msg.clone())] } else { rows_then(WOp::FinishError(kind, msg.clone())) }, false, false),
            11 => (vec![ClientCmd::new(with_byte(COM_STMT_PREPARE, b"id=1 p=0")), ClientCmd::new(cmd_execute(1, 0, 1, &[]))], vec![WOp::Start(c2.clone()), row(), WOp::FinishOne, WOp::Error(kind, msg.clone())], false, false),
            _ => (vec![q(b"SET NAMES latin1"), q(b"x")], vec![WOp::Error(kind, msg.clone())], false, false),
        };
        let mut cmds = cmds;
        cmds.last_mut().unwrap().seq = req_seq;
        cmds.push(ping());
        let mut conv = Conv::new(cmds);
        let mut hs_what = "";
        if let Some(k) = hs {
            let (h, w) = handshake_variant(k);
            conv.handshake = h;
            hs_what = w;
        }
        let name = &if hs.is_some() { format!("{} [{}]", name, hs_what) } else { name.to_string() };
        let s = conv.stream();
        let stream = Arc::new(s.bytes);
        let mut sim = sim_for(&stream, vec![]);
        sim.log_ops = false;
        let prog = Arc::new(prog);
        let m2 = msg.clone();
        let behave = Box::new(move |_: usize, cb: &Cb| match cb {
            Cb::Init(_) if behave_init => Behavior::InitErr(kind, m2.clone()),
            Cb::Prepare(t) if behave_prep && t == "x" => Behavior::PrepError(kind, m2.clone()),
            Cb::Prepare(_) => Behavior::PrepReply { id: 1, params: param_cols(0), cols: param_cols(0) },
            Cb::Query(t) if t.starts_with("SET ") => Behavior::Prog(Arc::new(vec![WOp::Completed(0, 0)])),
            Cb::Query(_) | Cb::Execute { .. } => Behavior::Prog(prog.clone()),
            _ => Behavior::Silent,
        });
        let mut cfg = ConnCfg::new(behave);
        if then_fail {
            let bound = conv.cmds[..conv.cmds.len() - 1].iter().filter(|c| matches!(c.payload[0], COM_QUERY | COM_STMT_PREPARE | COM_STMT_EXECUTE | COM_INIT_DB)).count();
            cfg.fail_after = Some((bound - 1, 555));
        }
        let o = run_conn(sim, cfg);
        st.transitions += 1;
        if let ConnResult::Panic(l, m) = &o.res {
            return Err(Violation::new(panic_key(l, m), format!("run_on panicked at {}: {}", l, m)));
        }
        if then_fail {
            if o.res != ConnResult::ErrMarker(555) {
                return Err(Violation::new("late-shim-error-not-returned", format!("{} / {}: the callback reported the error and then failed; run_on returned {}", name, SITES[site], o.res.short())));
            }
        } else if !o.res.is_ok() {
            return Err(Violation::new("result-not-ok", format!("{} / {}: run_on returned {}", name, SITES[site], o.res.short())));
        }
        // (when the callback fails afterwards the sentinel is never served)
        let served = if then_fail { conv.cmds.len() - 1 } else { conv.cmds.len() };
        let d = decode_all(delivered(&o), &conv, &s.last_seq, served, false).map_err(|e| Violation::new(if then_fail { "reported-error-did-not-arrive" } else { "reply-decode" }, format!("{} / {}{}: {}", name, SITES[site], if then_fail { " (the callback then returned Err)" } else { "" }, e)))?;
        // the reply that must carry the error is the one before the sentinel
        let r = &d.replies[conv.cmds.len() - 2];
        let e = match r.last() {
            Some(Unit::Err(e)) => e.clone(),
            Some(Unit::ResultSet { end: Err(e), .. }) => e.clone(),
            other => return Err(Violation::new("no-error-packet", format!("{} / {}: the reply ends with {:?}", name, SITES[site], other))),
        };
        if site >= 6 && site <= 10 {
            st.bump("errors_after_resultset_header");
        }
        let want_state = kind.sqlstate().to_vec();
        if e.code != kind as u16 {
            return Err(Violation::new("wrong-code", format!("{} / {}: client decodes code {}, the kind's code is {}", name, SITES[site], e.code, kind as u16)));
        }
        if e.state != want_state {
            return Err(Violation::new("wrong-sqlstate", format!("{} / {}: client decodes SQLSTATE {:?}, sqlstate() says {:?}", name, SITES[site], String::from_utf8_lossy(&e.state), String::from_utf8_lossy(&want_state))));
        }
        if e.msg != msg {
            return Err(Violation::new("wrong-message", format!("{} / {}: message of {} bytes arrived as {} bytes", name, SITES[site], msg.len(), e.msg.len())));
        }
        // second opinion on the raw ERR packet (a message that needs continuation packets is
        // left to the strict decoder, which reassembles)
        if msg.len() + 9 >= MAXP {
            st.bump("error_messages_beyond_one_packet");
            return Ok(());
        }
        let pkts = split_packets(&o.sim.out).unwrap();
        let raw = pkts.iter().map(|p| &o.sim.out[p.start..p.start + p.len]).filter(|m| m.first() == Some(&0xff)).last().unwrap();
        let (c2_, s2, m2_) = second::err(raw).map_err(|e| Violation::new("second-opinion", e))?;
        if c2_ != e.code || s2.to_vec() != e.state || m2_ != e.msg {
            return Err(Violation::new("decoders-disagree", format!("{} / {}: mysql_common reads ({}, {:?}, {} bytes)", name, SITES[site], c2_, s2, m2_.len())));
        }
        Ok(())
    }
}

/// the ERR packet at every sequence id: the request that is refused carries each id 0..255 (so the
/// ERR carries each id, the wrap included), at the sites that answer at once, after a chained
/// result and after rows; and late errors behind every row count around 250, 506 and 762 (the ERR
/// is then the 255th, 256th, 257th, 511th... packet of its reply)
struct AtEverySequenceId {
    kinds: Vec<usize>,
    msgs: Vec<Vec<u8>>,
    rows: Vec<usize>,
}
const ID_SITES: [usize; 6] = [0, 2, 3, 4, 7, 10];
impl AtEverySequenceId {
    fn new(quick: bool) -> Self {
        let mut rows = Vec::new();
        for c in [250usize, 506, 762] {
            rows.extend(c - 6..=c + 6);
        }
        AtEverySequenceId { kinds: (0..KINDS.len()).step_by(if quick { 401 } else { 97 }).collect(), msgs: vec![b"denied".to_vec(), vec![]], rows }
    }
    fn case(&self, idx: u64) -> (usize, usize, usize, u8, usize) {
        let a = (256 * ID_SITES.len() * self.kinds.len() * self.msgs.len()) as u64;
        if idx < a {
            let d = digits(idx, &[256, ID_SITES.len() as u64, self.kinds.len() as u64, self.msgs.len() as u64]);
            (self.kinds[d[2] as usize], ID_SITES[d[1] as usize], d[3] as usize, d[0] as u8, 2)
        } else {
            let d = digits(idx - a, &[self.rows.len() as u64, 2, 3]);
            (self.kinds[0], if d[1] == 0 { 7 } else { 10 }, 0, [0u8, 1, 200][d[2] as usize], self.rows[d[0] as usize])
        }
    }
}
impl Family for AtEverySequenceId {
    fn name(&self) -> String {
        "error-packets-at-every-sequence-id".into()
    }
    fn len(&self) -> u64 {
        (256 * ID_SITES.len() * self.kinds.len() * self.msgs.len() + self.rows.len() * 6) as u64
    }
    fn run(&self, idx: u64, st: &mut Stats) -> Result<(), Violation> {
        let (ki, site, mi, seq, rows) = self.case(idx);
        st.nontrivial += 1;
        st.bump("errors_at_other_sequence_ids");
        ERR_AT.with(|e| e.set((seq, rows)));
        let r = run_site(ki, site, self.msgs[mi].clone(), None, st);
        ERR_AT.with(|e| e.set((0, 2)));
        r.map_err(|v| Violation::new(&v.key, format!("request sequence id {}, {} rows before a late error: {}", seq, rows, v.msg)))
    }
    fn describe(&self, idx: u64) -> J {
        let (ki, site, mi, seq, rows) = self.case(idx);
        json!({"kind": KINDS[ki].0, "site": SITES[site], "message_len": self.msgs[mi].len(), "request_sequence_id": seq, "rows_before_a_late_error": rows})
    }
}

/// the reporting callback then returns Err itself: the reported error must still have reached the
/// client (flushed), and run_on returns the callback's error
struct ReportedThenFailed {
    kinds: Vec<usize>,
    msgs: Vec<Vec<u8>>,
}
impl Family for ReportedThenFailed {
    fn name(&self) -> String {
        "error-reported-then-the-callback-fails".into()
    }
    fn len(&self) -> u64 {
        (self.kinds.len() * SITES.len() * self.msgs.len()) as u64
    }
    fn run(&self, idx: u64, st: &mut Stats) -> Result<(), Violation> {
        let d = digits(idx, &[self.kinds.len() as u64, SITES.len() as u64, self.msgs.len() as u64]);
        st.nontrivial += 1;
        st.bump("reported_then_failed");
        THEN_FAIL.with(|t| t.set(true));
        let r = run_site(self.kinds[d[0] as usize], d[1] as usize, self.msgs[d[2] as usize].clone(), None, st);
        THEN_FAIL.with(|t| t.set(false));
        r
    }
    fn describe(&self, idx: u64) -> J {
        let d = digits(idx, &[self.kinds.len() as u64, SITES.len() as u64, self.msgs.len() as u64]);
        json!({"kind": KINDS[self.kinds[d[0] as usize]].0, "site": SITES[d[1] as usize], "message_len": self.msgs[d[2] as usize].len(), "then": "the callback returns Err"})
    }
}

/// table-level checks: conversions both ways, golden table, independent code table, anchors
/// messages that make the ERR payload (9 bytes of code, marker and SQLSTATE in front of the
/// message) end exactly at, just below and beyond the packet limit of 2^24-1 bytes, at five sites
struct HugeMessages {
    lens: Vec<usize>,
}
const HUGE_SITES: [usize; 5] = [0, 2, 3, 7, 10];
impl Family for HugeMessages {
    fn name(&self) -> String {
        "error-messages-around-the-packet-limit".into()
    }
    fn len(&self) -> u64 {
        (self.lens.len() * HUGE_SITES.len()) as u64
    }
    fn run(&self, idx: u64, st: &mut Stats) -> Result<(), Violation> {
        let d = digits(idx, &[self.lens.len() as u64, HUGE_SITES.len() as u64]);
        st.nontrivial += 1;
        let n = self.lens[d[0] as usize];
        let msg: Vec<u8> = (0..n).map(|i| b'a' + (i % 23) as u8).collect();
        run_site(KINDS.len() / 2, HUGE_SITES[d[1] as usize], msg, None, st)
    }
    fn describe(&self, idx: u64) -> J {
        let d = digits(idx, &[self.lens.len() as u64, HUGE_SITES.len() as u64]);
        json!({"kind": KINDS[KINDS.len() / 2].0, "site": SITES[HUGE_SITES[d[1] as usize]], "message_len": self.lens[d[0] as usize], "err_payload_len": self.lens[d[0] as usize] + 9})
    }
}

/// messages of every length 0..=1100 and within 12 bytes of every power of two up to 2^17, at three
/// sites: a private buffer size or threshold an implementation may introduce lies somewhere
struct MessageLengths {
    lens: Vec<usize>,
}
const LEN_SITES: [usize; 3] = [3, 7, 2];
impl MessageLengths {
    fn new(quick: bool) -> Self {
        let mut lens: Vec<usize> = (0..=1100).collect();
        for k in 11..=17 {
            for d in -12i64..=12 {
                lens.push(((1i64 << k) + d) as usize);
            }
        }
        if !quick {
            lens.extend(1101..=9000);
        }
        MessageLengths { lens }
    }
}
impl Family for MessageLengths {
    fn name(&self) -> String {
        "error-messages-of-every-length".into()
    }
    fn len(&self) -> u64 {
        (self.lens.len() * LEN_SITES.len()) as u64
    }
    fn run(&self, idx: u64, st: &mut Stats) -> Result<(), Violation> {
        let d = digits(idx, &[self.lens.len() as u64, LEN_SITES.len() as u64]);
        st.nontrivial += 1;
        st.bump("error_messages_of_every_length");
        let n = self.lens[d[0] as usize];
        let msg: Vec<u8> = (0..n).map(|i| b' ' + ((i * 7 + n) % 90) as u8).collect();
        run_site((n * 13) % KINDS.len(), LEN_SITES[d[1] as usize], msg, None, st)
    }
    fn describe(&self, idx: u64) -> J {
        let d = digits(idx, &[self.lens.len() as u64, LEN_SITES.len() as u64]);
        let n = self.lens[d[0] as usize];
        json!({"kind": KINDS[(n * 13) % KINDS.len()].0, "site": SITES[LEN_SITES[d[1] as usize]], "message_len": n})
    }
}

struct Tables;
impl Family for Tables {
    fn name(&self) -> String {
        "code-tables".into()
    }
    fn len(&self) -> u64 {
        KINDS.len() as u64
    }
    fn run(&self, idx: u64, st: &mut Stats) -> Result<(), Violation> {
        let (name, kind) = KINDS[idx as usize];
        st.nontrivial += 1;
        let code = kind as u16;
        let back = guarded(|| ErrorKind::from(code)).map_err(|(l, m)| Violation::new("from-u16-panics", format!("ErrorKind::from({}) panicked at {}: {}", code, l, m)))?;
        if back != kind {
            return Err(Violation::new("code-roundtrip", format!("{} as u16 = {} but ErrorKind::from({}) = {:?}", name, code, code, back)));
        }
        let state = kind.sqlstate();
        if !state.iter().all(|b| b.is_ascii_uppercase() || b.is_ascii_digit()) {
            return Err(Violation::new("sqlstate-shape", format!("{}: SQLSTATE {:?} is not five upper-case alphanumerics", name, state)));
        }
        let t = tables();
        if let Some((gc, gs)) = t.golden.get(name) {
            st.bump("golden_rows_checked");
            if *gc != code {
                return Err(Violation::new("golden-code", format!("{}: code {} differs from the pinned table's {}", name, code, gc)));
            }
            if gs.as_bytes() != state {
                return Err(Violation::new("golden-sqlstate", format!("{}: SQLSTATE {} differs from the pinned table's {}", name, String::from_utf8_lossy(state), gs)));
            }
        }
        if let Some(cc) = t.client.get(name) {
            st.bump("client_crate_rows_checked");
            if *cc != code {
                return Err(Violation::new("client-code", format!("{}: code {} differs from the mysql client crate's {}", name, code, cc)));
            }
        }
        if let Some(a) = t.anchors.get(&code) {
            st.bump("anchors_checked");
            if a.as_bytes() != state {
                return Err(Violation::new("anchor-sqlstate", format!("{} ({}): SQLSTATE {} differs from the documented {}", name, code, String::from_utf8_lossy(state), a)));
            }
        }
        Ok(())
    }
    fn describe(&self, idx: u64) -> J {
        json!({"kind": KINDS[idx as usize].0})
    }
}

struct T {
    golden: HashMap<String, (u16, String)>,
    client: HashMap<String, u16>,
    anchors: HashMap<u16, String>,
}

fn tables() -> &'static T {
    static CELL: std::sync::OnceLock<T> = std::sync::OnceLock::new();
    CELL.get_or_init(|| {
        let rd = |p: &str| std::fs::read_to_string(p).unwrap_or_else(|_| panic!("VERIF harness bug: missing {}", p));
        let mut golden = HashMap::new();
        for l in rd("/verif/data/errorkinds_golden.tsv").lines() {
            let f: Vec<&str> = l.split('\t').collect();
            golden.insert(f[0].to_string(), (f[1].parse().unwrap(), f[2].to_string()));
        }
        let mut client = HashMap::new();
        for l in rd("/verif/data/mysql_client_codes.tsv").lines() {
            let f: Vec<&str> = l.split('\t').collect();
            client.insert(f[0].to_string(), f[1].parse().unwrap());
        }
        let mut anchors = HashMap::new();
        for l in rd("/verif/data/sqlstate_anchors.tsv").lines() {
            let f: Vec<&str> = l.split('\t').collect();
            anchors.insert(f[0].parse().unwrap(), f[1].to_string());
        }
        T { golden, client, anchors }
    })
}

pub fn build(quick: bool) -> Check {
    let msgs = if quick { messages().into_iter().enumerate().filter(|(i, _)| *i != 3).map(|x| x.1).collect() } else { messages() };
    Check {
        id: "C13",
        level: "model_checking",
        rule: format!("messages of every length 0..1100 (thorough: 0..9000) and within 12 bytes of every power of two to 2^17 at three sites; messages that make the ERR payload end exactly at, just below and beyond the packet limit of 2^24-1 bytes at five sites; every ErrorKind variant of the tree under test ({} variants, list regenerated by build.rs) x 13 reporting sites (init via COM_INIT_DB and USE, prepare, query error fresh / after complete_one / after finish_one, finish_error after 0 rows / rows / a complete unended row in text mode, binary finish_error after 0 rows / rows, binary error after finish_one, query error after a served SET NAMES latin1 statement) x message classes (empty, 1 byte, 512 bytes, 5000 bytes, 70000 bytes in thorough, invalid UTF-8, leading '#', embedded NUL, leading 0xFF, valid UTF-8 with all characters below U+0100, valid UTF-8 with wider characters), each followed by a sentinel PING; every 97th (thorough: every) kind x all sites x 6 messages (up to 70000 bytes, beyond the max_packet_size these clients announce) again for clients that answered the greeting with the pre-4.1 layout, with CLIENT_PROTOCOL_41 alone and a latin1 collation, and with libmysqlclient's full set (db, plugin, attributes). Every 53rd (thorough: 7th) kind x all sites x 4 messages again with the reporting callback returning Err afterwards: the ERR must still have been delivered and run_on returns the callback's error. Oracle: the decoded ERR carries (kind as u16, kind.sqlstate(), message bytes) and mysql_common reads the same; per variant: code <-> kind both ways, (name, code, SQLSTATE) equal the pinned golden table, codes equal the mysql client crate's independent table, 46 documented (code, SQLSTATE) anchors.", KINDS.len()),
        assumptions: vec![
            "trusted base for SQLSTATEs beyond the 46 anchors: the table pinned in /verif/data equals MariaDB's published one (as the generator comment in errorcodes.rs states); variants added later are checked for self-consistency only".into(),
        ],
        bounds: json!({"kinds": KINDS.len(), "sites": 12, "messages": if quick {8} else {9}}),
        exhaustive: true,
        caps_hit: vec![],
        families: vec![
            Box::new(Sites { msgs }),
            Box::new(Handshakes { kinds: (0..KINDS.len()).step_by(if quick { 97 } else { 1 }).collect(), msgs: vec![vec![], b"denied #1".to_vec(), "caf\u{e9} \u{fc}ber".as_bytes().to_vec(), vec![b'm'; 600], (0..5000).map(|i| b'A' + (i % 26) as u8).collect(), vec![b'z'; 70_000]] }),
            Box::new(ReportedThenFailed { kinds: (0..KINDS.len()).step_by(if quick { 53 } else { 7 }).collect(), msgs: vec![vec![], b"denied".to_vec(), vec![b'm'; 600], vec![b'L'; 70_000]] }),
            Box::new(AtEverySequenceId::new(quick)),
            Box::new(super::c18::TlsErrors::new(quick)),
            Box::new(HugeMessages { lens: if quick { vec![MAXP - 10, MAXP - 9, MAXP - 8] } else { vec![MAXP - 11, MAXP - 10, MAXP - 9, MAXP - 8, MAXP, MAXP + 1, 2 * MAXP - 9] } }),
            Box::new(MessageLengths::new(quick)),
            Box::new(Tables),
            Box::new(super::aftermath::Aftermath { prop: "C13" }),
        ],
        required: vec!["error_messages_of_every_length", "error_messages_beyond_one_packet", "aftermath_recovered", "reported_then_failed", "errors_to_other_handshakes", "errors_after_resultset_header", "golden_rows_checked", "client_crate_rows_checked", "anchors_checked"],
    }
}
