use crate::engine::Check;

pub mod c01;
pub mod common;

pub fn build(id: &str, tier: &str) -> Option<Check> {
    let quick = crate::engine::tier_is_quick(tier);
    Some(match id {
        "C01" => c01::build(quick),
        _ => return None,
    })
}
