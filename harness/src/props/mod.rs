use crate::engine::Check;

pub mod c01;
pub mod c02;
pub mod c03;
pub mod c04;
pub mod c05;
pub mod c06;
pub mod c07;
pub mod c08;
pub mod c09;
pub mod c10;
pub mod c11;
pub mod c16;
pub mod c17;
pub mod c18;
pub mod registry;
pub mod c12;
pub mod c13;
pub mod c14;
pub mod c15;
pub mod c19;
pub mod c20;
pub mod model;
pub mod common;
pub mod aftermath;
pub mod context;
pub mod soak;

pub fn build(id: &str, tier: &str) -> Option<Check> {
    let quick = crate::engine::tier_is_quick(tier);
    Some(match id {
        "C01" => c01::build(quick),
        "C02" => c02::build(quick),
        "C03" => c03::build(quick),
        "C04" => c04::build(quick),
        "C05" => c05::build(quick),
        "C06" => c06::build(quick),
        "C07" => c07::build(quick),
        "C08" => c08::build(quick),
        "C09" => c09::build(quick),
        "C10" => c10::build(quick),
        "C11" => c11::build(quick),
        "C12" => c12::build(quick),
        "C13" => c13::build(quick),
        "C14" => c14::build(quick),
        "C15" => c15::build(quick),
        "C16" => c16::build(quick),
        "C17" => c17::build(quick),
        "C18" => c18::build(quick),
        "C19" => c19::build(quick),
        "C20" => c20::build(quick),
        _ => return None,
    })
}
