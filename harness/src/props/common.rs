//! Shared pieces of the per-property checks: the standard shim behaviour, the exact-conversation
//! oracle, subset enumeration of cut positions.

use crate::conv::*;
use crate::engine::*;
use crate::refwire::*;
use crate::shim::*;
use crate::sim::*;
use msql_srv::{Column, ColumnFlags, ColumnType};
use serde_json::{json, Value as J};
use std::sync::Arc;

pub fn col(name: &str, ty: ColumnType, flags: ColumnFlags) -> Column {
    Column {
        table: String::new(),
        column: name.to_string(),
        coltype: ty,
        colflags: flags,
    }
}

pub fn param_cols(n: usize) -> Arc<Vec<Column>> {
    Arc::new((0..n).map(|i| col(&format!("p{}", i), ColumnType::MYSQL_TYPE_VAR_STRING, ColumnFlags::empty())).collect())
}

/// PREPARE texts of the form "id=<u32> p=<n> [c=<m>] [err|fail]" tell the shim what to answer;
/// any other text gets id 1 with one parameter.
pub fn parse_prep(text: &str) -> (u32, usize, usize, &str) {
    let mut id = 1u32;
    let mut p = 1usize;
    let mut c = 0usize;
    let mut mode = "ok";
    for tok in text.split(' ') {
        if let Some(v) = tok.strip_prefix("id=") {
            if let Ok(x) = v.parse() {
                id = x;
            }
        } else if let Some(v) = tok.strip_prefix("p=") {
            if let Ok(x) = v.parse() {
                p = x;
            }
        } else if let Some(v) = tok.strip_prefix("c=") {
            if let Ok(x) = v.parse() {
                c = x;
            }
        } else if tok == "err" {
            mode = "err";
        } else if tok == "fail" {
            mode = "fail";
        }
    }
    (id, p, c, mode)
}

/// The standard shim: every query completes with OK(0,0), prepares answer per `parse_prep`,
/// executes complete with OK, init answers OK.
pub fn std_behave() -> Box<dyn FnMut(usize, &Cb) -> Behavior> {
    let done = Arc::new(vec![WOp::Completed(0, 0)]);
    Box::new(move |_, cb| match cb {
        Cb::Query(_) | Cb::Execute { .. } => Behavior::Prog(done.clone()),
        Cb::Prepare(t) => {
            let (id, p, c, mode) = parse_prep(t);
            match mode {
                "err" => Behavior::PrepError(msql_srv::ErrorKind::ER_NO, b"no".to_vec()),
                "fail" => Behavior::Fail(77),
                _ => Behavior::PrepReply {
                    id,
                    params: param_cols(p),
                    cols: param_cols(c),
                },
            }
        }
        Cb::Init(_) => Behavior::InitOk,
        _ => Behavior::Silent,
    })
}

pub fn auth_cb() -> Cb {
    Cb::Auth {
        user: Some(b"u".to_vec()),
        certs: None,
    }
}

pub fn cb_short(c: &Cb) -> String {
    let s = format!("{:?}", c);
    if s.len() > 160 {
        format!("{}…({} chars)", s.chars().take(160).collect::<String>(), s.len())
    } else {
        s
    }
}

/// The exact-conversation oracle: result Ok, callback log == expected, every reply decodes and
/// nothing is left over.
pub fn check_exact(o: &Outcome, conv: &Conv, last_seq: &[u8], expected: &[Cb]) -> Result<Decoded, Violation> {
    if let ConnResult::Panic(l, m) = &o.res {
        return Err(Violation::new(panic_key(l, m), format!("run_on panicked at {}: {}", l, m)));
    }
    let got: Vec<&Cb> = o.log.iter().map(|x| &x.1).collect();
    let n = got.len().min(expected.len());
    for i in 0..n {
        if got[i] != &expected[i] {
            return Err(Violation::new(
                "callback-mismatch",
                format!("callback {} differs: expected {} got {}", i, cb_short(&expected[i]), cb_short(got[i])),
            )
            .with(json!({"result": o.res.short()})));
        }
    }
    if got.len() != expected.len() {
        return Err(Violation::new(
            if got.len() < expected.len() { "callback-missing" } else { "callback-extra" },
            format!(
                "{} callbacks expected, {} made; first surplus/missing: {}; run_on returned {}",
                expected.len(),
                got.len(),
                if got.len() < expected.len() { cb_short(&expected[n]) } else { cb_short(got[n]) },
                o.res.short()
            ),
        ));
    }
    if !o.res.is_ok() {
        return Err(Violation::new("result-not-ok", format!("run_on returned {} on a well-formed conversation", o.res.short())));
    }
    if o.sim.flushed != o.sim.out.len() {
        return Err(Violation::new("unflushed-tail", format!("{} bytes written but never flushed", o.sim.out.len() - o.sim.flushed)));
    }
    let n_answered = match conv.cmds.iter().position(|c| c.payload.first() == Some(&COM_QUIT)) {
        Some(p) => p,
        None => conv.cmds.len(),
    };
    decode_all(delivered(&o), conv, last_seq, n_answered, false).map_err(|e| Violation::new("reply-decode", e))
}

/// All subsets of `cands` with at most `k` elements, smallest first.
pub fn subsets_upto(cands: &[usize], k: usize) -> Vec<Vec<usize>> {
    let mut out = vec![vec![]];
    let mut frontier: Vec<(Vec<usize>, usize)> = vec![(vec![], 0)];
    for _ in 0..k {
        let mut next = Vec::new();
        for (s, from) in &frontier {
            for j in *from..cands.len() {
                let mut t = s.clone();
                t.push(cands[j]);
                out.push(t.clone());
                next.push((t, j + 1));
            }
        }
        frontier = next;
    }
    out
}

pub fn sim_for(stream: &Arc<Vec<u8>>, cuts: Vec<usize>) -> SimState {
    let mut st = SimState::new(stream.clone());
    st.cuts = cuts;
    st
}

pub fn cuts_json(cuts: &[usize]) -> J {
    json!(cuts)
}

/// does this cut set make some read end strictly inside a packet header, or let one read span
/// two commands?
pub fn chunking_nontrivial(cuts: &[usize], headers: &[usize], ends: &[usize]) -> (bool, bool) {
    let mut in_header = false;
    for c in cuts {
        if headers.iter().any(|h| *c > *h && *c < *h + 4) {
            in_header = true;
        }
    }
    // a boundary between two messages that is not a cut => some read spans both (given buffers
    // larger than the stream)
    let mut spans = false;
    for e in &ends[..ends.len().saturating_sub(1)] {
        if !cuts.contains(e) {
            spans = true;
        }
    }
    (in_header, spans)
}

// ------------------------------------------------------------------------------------------
// Environment variants. The properties quantify over every client and every transport; a family
// that enumerates programs, values or histories would otherwise always run them against the same
// client (usual 4.1 handshake, everything pipelined) and the same transport (whole reads, whole
// writes). An environment variant changes only things a conformant server must not care about.

pub const N_ENVS: u64 = 6;

pub fn env_name(k: u64) -> &'static str {
    match k % N_ENVS {
        0 => "usual 4.1 handshake, pipelined, whole reads and writes",
        1 => "pre-4.1 handshake layout announcing max_packet_size 2048",
        2 => "handshake with CLIENT_PROTOCOL_41 only, max_packet_size 3000; every transport write accepts 1 byte",
        3 => "libmysqlclient-style handshake (db, plugin, attributes); transport writes accept 7 bytes",
        4 => "lock-step client (sends a command only after the reply to the previous one) whose handshake mentions every capability the server did not offer",
        _ => "reads of at most 3 bytes; transport writes accept 1000 bytes",
    }
}

/// part 1: before the byte stream is built
pub fn env_conv(k: u64, conv: &mut Conv) {
    match k % N_ENVS {
        1 => conv.handshake = handshake_variant(1).0,
        2 => conv.handshake = handshake_variant(2).0,
        3 => conv.handshake = handshake_variant(3).0,
        4 => conv.handshake = handshake_variant(4).0,
        _ => {}
    }
}

/// gates of a client that waits for every owed reply before it sends its next message
pub fn lockstep(sim: &mut SimState, conv: &Conv) {
    let ends = conv.stream().ends;
    let total = *ends.last().unwrap();
    let mut gates = vec![Gate { pos: 0, need: 1 }];
    let mut need = 2;
    gates.push(Gate { pos: ends[0], need });
    for (i, c) in conv.cmds.iter().enumerate() {
        if c.resp != RespKind::None {
            need += 1;
        }
        gates.push(Gate { pos: ends[i + 1], need });
    }
    gates.retain(|g| g.pos < total);
    sim.gates = gates;
    sim.gate_fn = Some(Box::new(incremental_replies(conv)));
}

/// part 2: after the simulated transport exists
pub fn env_sim(k: u64, sim: &mut SimState, conv: &Conv) {
    match k % N_ENVS {
        2 => sim.write_cap = 1,
        3 => sim.write_cap = 7,
        4 => lockstep(sim, conv),
        5 => {
            sim.uniform_read = 3;
            sim.write_cap = 1000;
        }
        _ => {}
    }
}
