//! C03 — exactly one conformant response per command: every writer program up to a depth, in
//! text and binary mode, against a reference interpreter and the strict client decoder, each
//! followed by a sentinel PING.

use super::common::*;
use crate::conv::*;
use crate::engine::*;
use crate::refwire::*;
use crate::shim::*;
use msql_srv::{ColumnFlags, ColumnType, ErrorKind, MysqlIntermediary, MysqlShim};
use serde_json::{json, Value as J};
use std::sync::Arc;

// op codes (Q-state 0..8, R-state 10..20)
const START0: u8 = 0;
const START1: u8 = 1;
const START2: u8 = 2;
const COMPLETE_ONE: u8 = 3;
const COMPLETED: u8 = 4;
const ERROR: u8 = 5;
const NO_MORE: u8 = 6;
const DROP_Q: u8 = 7;
const WCOL_V: u8 = 10;
const WCOL_N: u8 = 11;
const END_ROW: u8 = 12;
const WROW_0: u8 = 13;
const WROW_K: u8 = 14;
const WROW_K1: u8 = 15;
const FINISH_ONE: u8 = 16;
const FINISH: u8 = 17;
const FINISH_ERR: u8 = 18;
const DROP_R: u8 = 19;

pub type Prog = Vec<u8>;

/// Generation state: are we in Q or R, is the writer fresh, k, cells in the open row, overflowed
#[derive(Clone, Copy)]
struct G {
    in_r: bool,
    fresh: bool,
    k: usize,
    cells: usize,
    over: bool,
}

fn closes_malformed(g: &G, op: u8, kmap: &[usize; 3]) -> bool {
    let k = g.k;
    let _ = kmap;
    if k == 0 {
        return false;
    }
    match op {
        END_ROW => g.over || g.cells != k,
        WROW_0 => g.over || g.cells != k,
        WROW_K => g.over || g.cells + k != k,
        WROW_K1 => true,
        FINISH_ONE | FINISH | FINISH_ERR | DROP_R => g.over || (g.cells != 0 && g.cells != k),
        _ => false,
    }
}

fn gen(prefix: &mut Vec<u8>, g: G, depth: usize, kmap: &[usize; 3], out: &mut Vec<Prog>) {
    if prefix.len() == depth {
        return;
    }
    let ops: &[u8] = if g.in_r {
        &[WCOL_V, WCOL_N, END_ROW, WROW_0, WROW_K, WROW_K1, FINISH_ONE, FINISH, FINISH_ERR, DROP_R]
    } else {
        &[START0, START1, START2, COMPLETE_ONE, COMPLETED, ERROR, NO_MORE, DROP_Q]
    };
    for &op in ops {
        if !g.in_r && g.fresh && (op == NO_MORE || op == DROP_Q) {
            continue; // outside the property: nothing was started
        }
        prefix.push(op);
        let mut n = g;
        n.fresh = false;
        let terminal;
        if g.in_r && closes_malformed(&g, op, kmap) {
            terminal = true; // the call must be refused; nothing after it runs
        } else {
            match op {
                START0 | START1 | START2 => {
                    n.in_r = true;
                    n.k = kmap[op as usize];
                    n.cells = 0;
                    n.over = false;
                    terminal = false;
                }
                COMPLETE_ONE => terminal = false,
                COMPLETED | ERROR | NO_MORE | DROP_Q | FINISH | FINISH_ERR | DROP_R => terminal = true,
                FINISH_ONE => {
                    n.in_r = false;
                    terminal = false;
                }
                WCOL_V | WCOL_N => {
                    if g.k > 0 {
                        if g.cells >= g.k {
                            n.over = true;
                        } else {
                            n.cells += 1;
                        }
                    }
                    terminal = false;
                }
                END_ROW | WROW_0 | WROW_K | WROW_K1 => {
                    n.cells = 0;
                    terminal = false;
                }
                _ => unreachable!(),
            }
        }
        if terminal {
            out.push(prefix.clone());
        } else {
            gen(prefix, n, depth, kmap, out);
        }
        prefix.pop();
    }
}

pub fn programs(depth: usize, kmap: &[usize; 3]) -> Vec<Prog> {
    let mut out = Vec::new();
    let g = G {
        in_r: false,
        fresh: true,
        k: 0,
        cells: 0,
        over: false,
    };
    gen(&mut Vec::new(), g, depth, kmap, &mut out);
    out
}

#[derive(Clone, Debug, PartialEq)]
enum ExpUnit {
    Ok(u64, u64),
    Err(u16, Vec<u8>),
    /// k, rows (cells: None = NULL, Some(n) = the integer n), terminator error
    Rs(usize, Vec<Vec<Option<i32>>>, Option<(u16, Vec<u8>)>),
}

struct Interp {
    wops: Vec<WOp>,
    units: Vec<ExpUnit>,
    /// index of the op that closes a malformed row (must be refused at or before it)
    refuse_by: Option<usize>,
    /// a write_col beyond k happened at this op (binary mode refuses right there)
    ends_with_drop: bool,
}

const EKIND: ErrorKind = ErrorKind::ER_DUP_ENTRY;

fn interpret(p: &[u8], kmap: &[usize; 3], cols: &[Arc<Vec<msql_srv::Column>>; 3]) -> Interp {
    let mut wops = Vec::new();
    let mut units = Vec::new();
    let mut k = 0usize;
    let mut rows: Vec<Vec<Option<i32>>> = Vec::new();
    let mut cur: Vec<Option<i32>> = Vec::new();
    let mut over = false;
    let mut zero_rows = 0u64;
    let mut refuse_by = None;
    let mut vctr = 0i32;
    let mut g = G {
        in_r: false,
        fresh: true,
        k: 0,
        cells: 0,
        over: false,
    };
    for (i, &op) in p.iter().enumerate() {
        let malformed = g.in_r && closes_malformed(&g, op, kmap);
        let pos = i as u64;
        match op {
            START0 | START1 | START2 => {
                k = kmap[op as usize];
                wops.push(WOp::Start(cols[op as usize].clone()));
                rows = Vec::new();
                cur = Vec::new();
                over = false;
                zero_rows = 0;
                g.in_r = true;
                g.k = k;
                g.cells = 0;
                g.over = false;
            }
            COMPLETE_ONE => {
                wops.push(WOp::CompleteOne(3 + pos, 100 + pos));
                units.push(ExpUnit::Ok(3 + pos, 100 + pos));
            }
            COMPLETED => {
                wops.push(WOp::Completed(3 + pos, 100 + pos));
                units.push(ExpUnit::Ok(3 + pos, 100 + pos));
            }
            ERROR => {
                let m = format!("e{}", pos).into_bytes();
                wops.push(WOp::Error(EKIND, m.clone()));
                units.push(ExpUnit::Err(EKIND as u16, m));
            }
            NO_MORE => wops.push(WOp::NoMoreResults),
            DROP_Q => wops.push(WOp::Drop),
            WCOL_V | WCOL_N => {
                vctr += 1;
                let v = if op == WCOL_V { Some(vctr * 10 + cur.len() as i32) } else { None };
                wops.push(WOp::WriteCol(match v {
                    Some(n) => Val::I32(n),
                    None => Val::Null,
                }));
                if k > 0 {
                    if cur.len() >= k {
                        over = true;
                        g.over = true;
                    } else {
                        cur.push(v);
                        g.cells += 1;
                    }
                }
            }
            END_ROW => {
                wops.push(WOp::EndRow);
                if k == 0 {
                    zero_rows += 1;
                } else if !malformed {
                    rows.push(std::mem::take(&mut cur));
                    g.cells = 0;
                }
            }
            WROW_0 | WROW_K | WROW_K1 => {
                let j = match op {
                    WROW_0 => 0,
                    WROW_K => k,
                    _ => k + 1,
                };
                let mut vals = Vec::new();
                for c in 0..j {
                    vctr += 1;
                    let v = vctr * 10 + c as i32;
                    vals.push(Val::I32(v));
                    if k > 0 && !malformed {
                        cur.push(Some(v));
                    }
                }
                wops.push(WOp::WriteRow(vals));
                if k == 0 {
                    zero_rows += 1;
                } else if !malformed {
                    rows.push(std::mem::take(&mut cur));
                    g.cells = 0;
                }
            }
            FINISH_ONE | FINISH | DROP_R | FINISH_ERR => {
                let m = format!("f{}", pos).into_bytes();
                wops.push(match op {
                    FINISH_ONE => WOp::FinishOne,
                    FINISH => WOp::Finish,
                    DROP_R => WOp::Drop,
                    _ => WOp::FinishError(EKIND, m.clone()),
                });
                if !malformed {
                    if k > 0 && !cur.is_empty() {
                        rows.push(std::mem::take(&mut cur));
                    }
                    if op == FINISH_ERR {
                        if k == 0 {
                            units.push(ExpUnit::Err(EKIND as u16, m));
                        } else {
                            units.push(ExpUnit::Rs(k, std::mem::take(&mut rows), Some((EKIND as u16, m))));
                        }
                    } else if k == 0 {
                        units.push(ExpUnit::Ok(zero_rows, 0));
                    } else {
                        units.push(ExpUnit::Rs(k, std::mem::take(&mut rows), None));
                    }
                    g.in_r = false;
                }
            }
            _ => unreachable!(),
        }
        if malformed {
            refuse_by = Some(i);
            break;
        }
    }
    let _ = over;
    let ends_with_drop = matches!(p.last(), Some(&DROP_R) | Some(&DROP_Q));
    Interp {
        wops,
        units,
        refuse_by,
        ends_with_drop,
    }
}

fn op_name(op: u8, kmap: &[usize; 3]) -> String {
    match op {
        START0 | START1 | START2 => format!("start({})", kmap[op as usize]),
        COMPLETE_ONE => "complete_one".into(),
        COMPLETED => "completed".into(),
        ERROR => "error".into(),
        NO_MORE => "no_more_results".into(),
        DROP_Q => "drop(QueryResultWriter)".into(),
        WCOL_V => "write_col(v)".into(),
        WCOL_N => "write_col(NULL)".into(),
        END_ROW => "end_row".into(),
        WROW_0 => "write_row(0 values)".into(),
        WROW_K => "write_row(k values)".into(),
        WROW_K1 => "write_row(k+1 values)".into(),
        FINISH_ONE => "finish_one".into(),
        FINISH => "finish".into(),
        FINISH_ERR => "finish_error".into(),
        DROP_R => "drop(RowWriter)".into(),
        _ => "?".into(),
    }
}

pub fn prog_names(p: &[u8], kmap: &[usize; 3]) -> Vec<String> {
    p.iter().map(|o| op_name(*o, kmap)).collect()
}

fn mk_cols(k: usize) -> Arc<Vec<msql_srv::Column>> {
    Arc::new((0..k).map(|i| col(&format!("c{}", i), ColumnType::MYSQL_TYPE_LONG, ColumnFlags::empty())).collect())
}

/// compare what the strict decoder saw with what the interpreter predicts
fn compare_units(got: &[Unit], exp: &[ExpUnit], bin: bool) -> Result<(), String> {
    if got.len() != exp.len() {
        return Err(format!("{} response units decoded, {} predicted ({:?} vs {:?})", got.len(), exp.len(), summarize(got), exp));
    }
    for (i, (g, e)) in got.iter().zip(exp.iter()).enumerate() {
        let last = i + 1 == exp.len();
        match (g, e) {
            (Unit::Ok { rows, id, status, .. }, ExpUnit::Ok(r, l)) => {
                if rows != r || id != l {
                    return Err(format!("unit {}: OK({}, {}) decoded, OK({}, {}) predicted", i, rows, id, r, l));
                }
                if (status & STATUS_MORE_RESULTS != 0) == last {
                    return Err(format!("unit {}: more-results flag is {} on {} unit", i, status & STATUS_MORE_RESULTS != 0, if last { "the last" } else { "a non-last" }));
                }
            }
            (Unit::Err(p), ExpUnit::Err(code, msg)) => {
                if p.code != *code || &p.msg != msg || p.state != EKIND.sqlstate().to_vec() {
                    return Err(format!("unit {}: ERR {:?} decoded, code {} msg {:?} predicted", i, p, code, msg));
                }
                if !last {
                    return Err(format!("unit {}: ERR in the middle of a response", i));
                }
            }
            (Unit::ResultSet { cols, rows, end }, ExpUnit::Rs(k, erows, eerr)) => {
                if cols.len() != *k {
                    return Err(format!("unit {}: {} columns decoded, {} predicted", i, cols.len(), k));
                }
                if rows.len() != erows.len() {
                    return Err(format!("unit {}: {} rows decoded, {} predicted", i, rows.len(), erows.len()));
                }
                for (ri, (gr, er)) in rows.iter().zip(erows.iter()).enumerate() {
                    for (ci, (gc, ec)) in gr.iter().zip(er.iter()).enumerate() {
                        let want = match ec {
                            None => Cell::Null,
                            Some(n) => {
                                if bin {
                                    Cell::Bin(BinVal::Int(*n as i64))
                                } else {
                                    Cell::Text(n.to_string().into_bytes())
                                }
                            }
                        };
                        if gc != &want {
                            return Err(format!("unit {} row {} cell {}: {:?} decoded, {:?} predicted", i, ri, ci, gc, want));
                        }
                    }
                }
                match (end, eerr) {
                    (Ok(st), None) => {
                        if (st & STATUS_MORE_RESULTS != 0) == last {
                            return Err(format!("unit {}: more-results flag on the resultset terminator is {} on {} unit", i, st & STATUS_MORE_RESULTS != 0, if last { "the last" } else { "a non-last" }));
                        }
                    }
                    (Err(p), Some((code, msg))) => {
                        if p.code != *code || &p.msg != msg {
                            return Err(format!("unit {}: resultset ended by ERR {:?}, predicted code {} msg {:?}", i, p, code, msg));
                        }
                    }
                    (a, b) => return Err(format!("unit {}: resultset terminator {:?} decoded, {:?} predicted", i, a, b)),
                }
            }
            (g, e) => return Err(format!("unit {}: {:?} decoded, {:?} predicted", i, summarize(std::slice::from_ref(g)), e)),
        }
    }
    Ok(())
}

fn summarize(u: &[Unit]) -> Vec<String> {
    u.iter()
        .map(|x| match x {
            Unit::Ok { rows, id, status, .. } => format!("OK({},{},st={:#x})", rows, id, status),
            Unit::Err(p) => format!("ERR({})", p.code),
            Unit::ResultSet { cols, rows, end } => format!("RS({} cols,{} rows,{:?})", cols.len(), rows.len(), end.as_ref().map_err(|e| e.code)),
            Unit::PrepareOk { id, .. } => format!("PREPARE_OK({})", id),
            Unit::FieldList { cols } => format!("FIELDS({})", cols.len()),
        })
        .collect()
}

/// run one or two programs as consecutive commands (text or binary), each followed by a PING
fn run_programs(progs: &[&Prog], kmap: &[usize; 3], bin: bool, env: u64, st: &mut Stats) -> Result<(), Violation> {
    run_programs_mixed(progs, kmap, bin, 0, env, st)
}

/// `mix`: bit i set = program i runs in the other mode than `bin` says
fn run_programs_mixed(progs: &[&Prog], kmap: &[usize; 3], bin: bool, mix: u64, env: u64, st: &mut Stats) -> Result<(), Violation> {
    let bin_of = |i: usize| bin ^ (mix >> i & 1 == 1);
    let any_bin = (0..progs.len()).any(bin_of);
    let cols = [mk_cols(kmap[0]), mk_cols(kmap[1]), mk_cols(kmap[2])];
    let interps: Vec<Interp> = progs.iter().map(|p| interpret(p, kmap, &cols)).collect();
    let mut cmds = Vec::new();
    if any_bin {
        cmds.push(ClientCmd::new(with_byte(COM_STMT_PREPARE, b"id=1 p=0")));
    }
    let mut prog_cmd_idx = Vec::new();
    for i in 0..progs.len() {
        prog_cmd_idx.push(cmds.len());
        if bin_of(i) {
            cmds.push(ClientCmd::new(cmd_execute(1, 0, 1, &[])));
        } else {
            cmds.push(q(b"run"));
        }
        cmds.push(ping());
    }
    // every other environment: the client says goodbye right behind the sentinel, in the same
    // burst (a reply must not be left unflushed because the connection is about to end)
    if env % 2 == 1 {
        cmds.push(quit());
    }
    let mut conv = Conv::new(cmds);
    env_conv(env, &mut conv);
    let s = conv.stream();
    let stream = Arc::new(s.bytes);
    let mut sim = sim_for(&stream, vec![]);
    sim.log_ops = false;
    env_sim(env, &mut sim, &conv);
    if env % N_ENVS != 0 {
        st.bump("runs_under_another_environment");
    }
    let wprogs: Vec<Arc<Vec<WOp>>> = interps.iter().map(|i| Arc::new(i.wops.clone())).collect();
    let mut next = 0usize;
    let behave = Box::new(move |_: usize, cb: &Cb| match cb {
        Cb::Query(_) | Cb::Execute { .. } => {
            let b = Behavior::Prog(wprogs[next].clone());
            next += 1;
            b
        }
        Cb::Prepare(_) => Behavior::PrepReply {
            id: 1,
            params: param_cols(0),
            cols: param_cols(0),
        },
        _ => Behavior::Silent,
    });
    let o = run_conn(sim, ConnCfg::new(behave));
    st.transitions += progs.iter().map(|p| p.len() as u64).sum::<u64>();
    if let ConnResult::Panic(l, m) = &o.res {
        return Err(Violation::new(panic_key(l, m), format!("run_on panicked at {}: {}", l, m)));
    }
    // which program (if any) must be refused first
    let first_refused = interps.iter().position(|i| i.refuse_by.is_some());
    // per-call results, grouped by callback index
    let cb_of_prog: Vec<usize> = (0..progs.len()).map(|i| 1 + if any_bin { 1 } else { 0 } + i).collect();
    for (pi, it) in interps.iter().enumerate() {
        if let Some(fr) = first_refused {
            if pi > fr {
                break;
            }
        }
        let calls: Vec<&CallRes> = o.calls.iter().filter(|c| c.cb == cb_of_prog[pi]).collect();
        match it.refuse_by {
            None => {
                if let Some(bad) = calls.iter().find(|c| c.res.is_err()) {
                    return Err(Violation::new(
                        "valid-call-refused",
                        format!("shape-valid program: call {} ({}) returned Err({})", bad.op, it.wops[bad.op].short(), bad.res.clone().unwrap_err()),
                    ));
                }
            }
            Some(by) => {
                st.bump("shape_contradicting_programs");
                let refused = calls.iter().any(|c| c.op <= by && c.res.is_err());
                let drop_close = matches!(it.wops[by], WOp::Drop);
                if drop_close {
                    st.bump("malformed_row_closed_by_drop");
                }
                if !refused && !(drop_close && o.res.is_err()) {
                    return Err(Violation::new(
                        "malformed-row-accepted",
                        format!(
                            "no call up to #{} ({}) returned an error although it closes a row with the wrong number of cells; run_on returned {}",
                            by,
                            it.wops[by].short(),
                            o.res.short()
                        ),
                    ));
                }
                if !o.res.is_err() {
                    return Err(Violation::new("refusal-not-propagated", format!("a writer call was refused but run_on returned {}", o.res.short())));
                }
                // nothing malformed may have reached the transport: everything written must be a
                // decodable prefix of a response
                let n_ok = prog_cmd_idx[pi];
                match decode_all(delivered(&o), &conv, &s.last_seq, n_ok + 1, true) {
                    Ok(_) => {}
                    Err(e) if e.contains("server output ends where") => {}
                    Err(e) => {
                        return Err(Violation::new("malformed-row-emitted", format!("after a refused call the transport holds undecodable output: {}", e)));
                    }
                }
                return Ok(());
            }
        }
    }
    // all programs shape-valid: full decode, exact units, sentinel after each
    if !o.res.is_ok() {
        return Err(Violation::new("result-not-ok", format!("run_on returned {} for shape-valid writer programs", o.res.short())));
    }
    if o.sim.flushed != o.sim.out.len() {
        return Err(Violation::new("unflushed-tail", "bytes written but never flushed"));
    }
    let d = decode_all(delivered(&o), &conv, &s.last_seq, conv.cmds.len(), false).map_err(|e| Violation::new("response-undecodable", e))?;
    for (pi, it) in interps.iter().enumerate() {
        let ci = prog_cmd_idx[pi];
        compare_units(&d.replies[ci], &it.units, bin_of(pi)).map_err(|e| Violation::new("response-differs", format!("program {}: {}", pi, e)))?;
        match &d.replies[ci + 1][..] {
            [Unit::Ok { status, .. }] if status & STATUS_MORE_RESULTS == 0 => {}
            other => return Err(Violation::new("sentinel-shifted", format!("the PING after program {} was answered by {:?}", pi, summarize(other)))),
        }
        if it.units.len() > 1 {
            st.bump("chained_responses");
        }
        if it.ends_with_drop {
            st.bump("programs_ending_in_drop");
        }
    }
    Ok(())
}

pub struct ProgFamily {
    label: String,
    progs: Vec<Prog>,
    kmap: [usize; 3],
    /// programs of at most this many calls run under every environment variant
    all_envs_upto: usize,
}

impl Family for ProgFamily {
    fn name(&self) -> String {
        self.label.clone()
    }
    fn len(&self) -> u64 {
        self.progs.len() as u64 * 2
    }
    fn run(&self, idx: u64, st: &mut Stats) -> Result<(), Violation> {
        let p = &self.progs[(idx / 2) as usize];
        let bin = idx % 2 == 1;
        if p.len() >= 3 {
            st.nontrivial += 1;
        }
        // the environment rotates with the program index; short programs run under all of them
        let envs: Vec<u64> = if p.len() <= self.all_envs_upto { (0..N_ENVS).collect() } else { vec![(idx / 2) % N_ENVS] };
        for (j, env) in envs.iter().enumerate() {
            if j > 0 {
                st.evals += 1;
            }
            run_programs(&[p], &self.kmap, bin, *env, st).map_err(|mut v| {
                v.key = format!("{}:{}", if bin { "bin" } else { "text" }, v.key);
                if *env != 0 {
                    v.msg = format!("[{}] {}", env_name(*env), v.msg);
                }
                v
            })?;
        }
        Ok(())
    }
    fn describe(&self, idx: u64) -> J {
        let p = &self.progs[(idx / 2) as usize];
        json!({"mode": if idx % 2 == 1 {"binary (COM_STMT_EXECUTE)"} else {"text (COM_QUERY)"}, "program": prog_names(p, &self.kmap), "then": "COM_PING sentinel", "environment": if p.len() <= self.all_envs_upto { "all six".to_string() } else { env_name((idx / 2) % N_ENVS).to_string() }})
    }
}

pub struct PairFamily {
    progs: Vec<Prog>,
}

impl Family for PairFamily {
    fn name(&self) -> String {
        "program-pairs".into()
    }
    fn len(&self) -> u64 {
        (self.progs.len() * self.progs.len()) as u64 * 2
    }
    fn run(&self, idx: u64, st: &mut Stats) -> Result<(), Violation> {
        let n = self.progs.len() as u64;
        let bin = idx % 2 == 1;
        let a = &self.progs[((idx / 2) / n) as usize];
        let b = &self.progs[((idx / 2) % n) as usize];
        st.nontrivial += 1;
        st.bump("pairs");
        run_programs(&[a, b], &[0, 1, 2], bin, (idx / 2) % N_ENVS, st).map_err(|mut v| {
            v.key = format!("pair:{}:{}", if bin { "bin" } else { "text" }, v.key);
            v
        })
    }
    fn describe(&self, idx: u64) -> J {
        let n = self.progs.len() as u64;
        let a = &self.progs[((idx / 2) / n) as usize];
        let b = &self.progs[((idx / 2) % n) as usize];
        json!({"mode": if idx % 2 == 1 {"binary"} else {"text"}, "first": prog_names(a, &[0,1,2]), "second": prog_names(b, &[0,1,2])})
    }
}

/// three programs on one connection, in every combination of text and binary mode
pub struct TripleFamily {
    progs: Vec<Prog>,
    /// true: every triple under all 8 mode combinations; false: the combination rotates
    all_modes: bool,
    label: &'static str,
}

impl TripleFamily {
    fn pick(&self, idx: u64) -> (Vec<&Prog>, u64) {
        let n = self.progs.len() as u64;
        if !self.all_modes {
            let d = digits(idx, &[n, n, n]);
            return (vec![&self.progs[d[0] as usize], &self.progs[d[1] as usize], &self.progs[d[2] as usize]], (d[0] + 3 * d[1] + 5 * d[2]) % 8);
        }
        let d = digits(idx, &[8, n, n, n]);
        (vec![&self.progs[d[1] as usize], &self.progs[d[2] as usize], &self.progs[d[3] as usize]], d[0])
    }
}

impl Family for TripleFamily {
    fn name(&self) -> String {
        self.label.into()
    }
    fn len(&self) -> u64 {
        (self.progs.len() as u64).pow(3) * if self.all_modes { 8 } else { 1 }
    }
    fn run(&self, idx: u64, st: &mut Stats) -> Result<(), Violation> {
        let (ps, mix) = self.pick(idx);
        st.nontrivial += 1;
        st.bump("triples");
        run_programs_mixed(&ps, &[0, 1, 2], false, mix, (idx / 8) % N_ENVS, st).map_err(|mut v| {
            v.key = format!("triple:{}", v.key);
            v.msg = format!("modes {:03b} (bit i set = program i binary): {}", mix, v.msg);
            v
        })
    }
    fn describe(&self, idx: u64) -> J {
        let (ps, mix) = self.pick(idx);
        json!({"binary_mask": mix, "programs": ps.iter().map(|p| prog_names(p, &[0,1,2])).collect::<Vec<_>>()})
    }
}

/// A shim that does not override on_init (the library's default must answer).
struct PlainShim;
impl<W: std::io::Read + std::io::Write> MysqlShim<W> for PlainShim {
    type Error = std::io::Error;
    fn on_prepare(&mut self, _: &str, info: msql_srv::StatementMetaWriter<'_, W>) -> std::io::Result<()> {
        info.reply(1, &[], &[])
    }
    fn on_execute(&mut self, _: u32, _: msql_srv::ParamParser<'_>, r: msql_srv::QueryResultWriter<'_, W>) -> std::io::Result<()> {
        r.completed(0, 0)
    }
    fn on_close(&mut self, _: u32) {}
    fn on_query(&mut self, _: &str, r: msql_srv::QueryResultWriter<'_, W>) -> std::io::Result<()> {
        r.completed(0, 0)
    }
}

/// the library's own replies and the commands that must stay silent
pub struct BuiltinFamily;

impl Family for BuiltinFamily {
    fn name(&self) -> String {
        "library-replies-and-silent-commands".into()
    }
    fn len(&self) -> u64 {
        6
    }
    fn run(&self, idx: u64, st: &mut Stats) -> Result<(), Violation> {
        st.nontrivial += 1;
        st.bump("builtin");
        let long = ClientCmd::new(cmd_long(1, 0, b"abc"));
        let close = ClientCmd::new(cmd_close(1));
        let prep = ClientCmd::new(with_byte(COM_STMT_PREPARE, b"id=1 p=1"));
        let fl = ClientCmd::new(with_byte(COM_FIELD_LIST, b"t\0"));
        let cmds = match idx {
            0 => vec![ping(), ping(), fl.clone(), ping(), fl, ping()],
            1 => vec![q(b"SELECT @@max_allowed_packet"), ping(), q(b"select @@version_comment limit 1"), ping(), q(b"SELECT @@"), ping()],
            2 => vec![prep, ping(), long.clone(), ping(), long, close.clone(), ping(), close, ping(), quit()],
            3 => vec![ClientCmd::new(with_byte(COM_INIT_DB, b"db")), ping(), q(b"USE other"), ping()],
            4 => vec![ClientCmd::new(with_byte(COM_INIT_DB, b"bad")), ping(), q(b"USE bad"), ping()],
            _ => vec![ClientCmd::new(with_byte(COM_INIT_DB, b"db")), ping(), q(b"USE `x`;"), ping(), quit()],
        };
        let conv = Conv::new(cmds);
        let s = conv.stream();
        let stream = Arc::new(s.bytes);
        let n_ans = conv.cmds.iter().position(|c| c.payload[0] == COM_QUIT).unwrap_or(conv.cmds.len());
        let (res, out, flushed) = if idx == 5 {
            // default on_init of the trait
            let sim = crate::sim::Sim::new(sim_for(&stream, vec![]));
            let tr = sim.clone();
            let r = guarded(move || MysqlIntermediary::run_on(PlainShim, tr));
            let stt = sim.0.borrow();
            let res = match r {
                Ok(Ok(())) => ConnResult::Ok,
                Ok(Err(e)) => ConnResult::ErrIo(e.kind(), e.to_string()),
                Err((l, m)) => ConnResult::Panic(l, m),
            };
            (res, stt.out.clone(), stt.flushed)
        } else {
            let behave: Box<dyn FnMut(usize, &Cb) -> Behavior> = if idx == 4 {
                Box::new(|_, cb| match cb {
                    Cb::Init(_) => Behavior::InitErr(ErrorKind::ER_BAD_DB_ERROR, b"no such db".to_vec()),
                    _ => Behavior::Silent,
                })
            } else {
                std_behave()
            };
            let o = run_conn(sim_for(&stream, vec![]), ConnCfg::new(behave));
            (o.res, o.sim.out.clone(), o.sim.flushed)
        };
        if !res.is_ok() {
            return Err(Violation::new("builtin:result-not-ok", format!("run_on returned {}", res.short())));
        }
        if flushed != out.len() {
            return Err(Violation::new("builtin:unflushed-tail", "bytes written but never flushed"));
        }
        let d = decode_all(&out, &conv, &s.last_seq, n_ans, false).map_err(|e| Violation::new("builtin:response-undecodable", e))?;
        for (i, c) in conv.cmds.iter().take(n_ans).enumerate() {
            let r = &d.replies[i];
            let ok = match c.payload[0] {
                COM_PING => matches!(r[..], [Unit::Ok { .. }]),
                COM_INIT_DB => {
                    if idx == 4 {
                        matches!(&r[..], [Unit::Err(p)] if p.code == 1049 && p.state == b"42000" && p.msg == b"no such db")
                    } else {
                        matches!(r[..], [Unit::Ok { .. }])
                    }
                }
                COM_QUERY if c.payload[1..].starts_with(b"USE ") => {
                    if idx == 4 {
                        matches!(&r[..], [Unit::Err(p)] if p.code == 1049)
                    } else {
                        matches!(r[..], [Unit::Ok { .. }])
                    }
                }
                COM_FIELD_LIST => matches!(r[..], [Unit::FieldList { .. }] | [Unit::Err(_)]),
                COM_STMT_SEND_LONG_DATA | COM_STMT_CLOSE => r.is_empty(),
                _ => r.len() == 1,
            };
            if !ok {
                return Err(Violation::new("builtin:reply", format!("command {} ({:02x?}) answered by {:?}", i, &c.payload[..c.payload.len().min(10)], summarize(r))));
            }
        }
        Ok(())
    }
    fn describe(&self, idx: u64) -> J {
        json!(["ping/field-list", "SELECT @@ probes", "prepare/long data/close/quit stay silent", "custom on_init ok", "custom on_init error", "default on_init"][idx as usize])
    }
}

/// replies of several hundred packets / units (the reply must still be one conformant response)
fn long_programs() -> Vec<Prog> {
    let mut v: Vec<Prog> = Vec::new();
    for r in (245..=262).chain([300, 520, 1000]) {
        // one column, r rows via write_row, finished explicitly / by drop
        let mut p = vec![START1];
        p.extend(std::iter::repeat(WROW_K).take(r));
        let mut q = p.clone();
        p.push(FINISH);
        q.push(DROP_R);
        v.push(p);
        v.push(q);
    }
    for n in [70usize, 130, 300] {
        // a chain of n one-row resultsets, then a completion
        let mut p = Vec::new();
        for _ in 0..n {
            p.extend([START1, WROW_K, FINISH_ONE]);
        }
        p.push(COMPLETED);
        v.push(p);
        // a chain of n completions
        let mut q: Prog = std::iter::repeat(COMPLETE_ONE).take(n).collect();
        q.push(NO_MORE);
        v.push(q);
        // zero-column sets with rows in a chain
        let mut z = Vec::new();
        for _ in 0..n {
            z.extend([START0, END_ROW, END_ROW, FINISH_ONE]);
        }
        z.push(ERROR);
        v.push(z);
    }
    v
}

pub fn build(quick: bool) -> Check {
    let depth = if quick { 7 } else { 11 };
    let main = ProgFamily {
        label: format!("writer-programs-depth-{}", depth),
        progs: programs(depth, &[0, 1, 2]),
        kmap: [0, 1, 2],
        all_envs_upto: if quick { 4 } else { 6 },
    };
    let wide = ProgFamily {
        label: "writer-programs-k3-k300".into(),
        progs: programs(if quick { 4 } else { 5 }, &[0, 3, 300]),
        kmap: [0, 3, 300],
        all_envs_upto: 0,
    };
    let pairs = PairFamily {
        progs: programs(if quick { 3 } else { 4 }, &[0, 1, 2]),
    };
    let triples = TripleFamily {
        progs: programs(if quick { 2 } else { 3 }, &[0, 1, 2]),
        all_modes: true,
        label: "program-triples-all-mode-combinations",
    };
    let triples_rot = TripleFamily {
        progs: programs(3, &[0, 1, 2]),
        all_modes: false,
        label: "program-triples-rotating-modes",
    };
    let long = ProgFamily {
        label: "long-replies".into(),
        progs: long_programs(),
        kmap: [0, 1, 2],
        all_envs_upto: 0,
    };
    let long_wide = ProgFamily {
        label: "long-replies-300-columns".into(),
        progs: vec![vec![START1, WROW_K, WROW_K, FINISH], vec![START1, WCOL_V, END_ROW, FINISH]],
        kmap: [0, 300, 2],
        all_envs_upto: 0,
    };
    let n_main = main.progs.len();
    Check {
        id: "C03",
        level: "model_checking",
        rule: format!("every complete program of <= {} writer calls through the typestate automaton (start(0|1|2 cols), write_col(v|NULL), end_row, write_row(0|k|k+1), finish, finish_one, finish_error, complete_one, completed, error, no_more_results, drop), in text and binary mode, each followed by a PING sentinel ({} programs); wide variants (k=3, k=300); all ordered pairs of short programs; 129..513 distinct resultset shapes on one connection each started twice; a large reply, every number <= 600 (1300) of quiet exchanges, then a multi-packet reply; all ordered triples of programs of <= 2 (thorough: 3) calls in all 8 combinations of text and binary mode on one connection, and of <= 3 calls with the combination rotating; library replies and silent commands; replies of 245..262, 300, 520, 1000 rows, 300 columns, and chains of 70..300 resultsets / completions. Environment: every program of <= 4 (thorough: 6) calls runs under each of six client/transport variants (other handshake layouts and capability sets, 1- and 7-byte transport writes, 3-byte reads, lock-step client); longer programs and pairs rotate through them. Oracle: reference interpreter -> predicted response units vs strict decode; shape-contradicting programs must be refused at or before the call that closes the malformed row and nothing malformed may reach the transport. Non-trivial = program of >= 3 calls.", depth, n_main),
        assumptions: vec![
            "a fresh QueryResultWriter that is dropped or told no_more_results without starting anything is outside the property and not generated".into(),
            "a malformed row closed by drop has no call result: refusal is then 'run_on returns the deferred error'".into(),
        ],
        bounds: json!({"max_calls": depth, "programs": n_main}),
        exhaustive: true,
        caps_hit: vec![],
        families: vec![Box::new(main), Box::new(wide), Box::new(pairs), Box::new(triples), Box::new(triples_rot), Box::new(super::soak::QuietRuns { max_n: if quick { 600 } else { 1300 }, ends_in_completion: false }), Box::new(super::c09::ManyShapes { ns: if quick { vec![129, 257, 513] } else { vec![129, 257, 513, 1025, 4200] } }), Box::new(BuiltinFamily), Box::new(long), Box::new(long_wide)],
        required: vec!["runs_under_another_environment", "shape_contradicting_programs", "chained_responses", "programs_ending_in_drop", "malformed_row_closed_by_drop", "pairs", "triples", "builtin", "quiet_runs"],
    }
}
