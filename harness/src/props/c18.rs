//! C18 — TLS upgrade loses no bytes and leaks no plaintext. The transport embeds a live rustls
//! client; schedules are cut positions in the client->server byte stream it actually produces.

use super::common::*;
use crate::conv::*;
use crate::engine::*;
use crate::refwire::*;
use crate::shim::*;
use crate::tlsutil::pki;
use msql_srv::MysqlIntermediary;
use rustls::pki_types::{CertificateDer, PrivateKeyDer, PrivatePkcs8KeyDer, ServerName, UnixTime};
use serde_json::{json, Value as J};
use std::cell::RefCell;
use std::io::{self, Read, Write};
use std::rc::Rc;
use std::sync::Arc;

#[derive(Debug)]
struct AcceptAny(Arc<rustls::crypto::CryptoProvider>);

impl rustls::client::danger::ServerCertVerifier for AcceptAny {
    fn verify_server_cert(&self, _: &CertificateDer<'_>, _: &[CertificateDer<'_>], _: &ServerName<'_>, _: &[u8], _: UnixTime) -> Result<rustls::client::danger::ServerCertVerified, rustls::Error> {
        Ok(rustls::client::danger::ServerCertVerified::assertion())
    }
    fn verify_tls12_signature(&self, _: &[u8], _: &CertificateDer<'_>, _: &rustls::DigitallySignedStruct) -> Result<rustls::client::danger::HandshakeSignatureValid, rustls::Error> {
        Ok(rustls::client::danger::HandshakeSignatureValid::assertion())
    }
    fn verify_tls13_signature(&self, _: &[u8], _: &CertificateDer<'_>, _: &rustls::DigitallySignedStruct) -> Result<rustls::client::danger::HandshakeSignatureValid, rustls::Error> {
        Ok(rustls::client::danger::HandshakeSignatureValid::assertion())
    }
    fn supported_verify_schemes(&self) -> Vec<rustls::SignatureScheme> {
        self.0.signature_verification_algorithms.supported_schemes()
    }
}

/// `alpn_pad` > 0 makes the ClientHello that many bytes longer (a list of ALPN protocol names,
/// which the server ignores): legal, and what clients with many extensions / padding produce.
fn client_config(with_cert: bool, alpn_pad: usize, tls12: bool) -> Arc<rustls::ClientConfig> {
    let provider = Arc::new(rustls::crypto::ring::default_provider());
    let versions: &[&rustls::SupportedProtocolVersion] = if tls12 { &[&rustls::version::TLS12] } else { &[&rustls::version::TLS13] };
    let b = rustls::ClientConfig::builder_with_provider(provider.clone()).with_protocol_versions(versions).unwrap().dangerous().with_custom_certificate_verifier(Arc::new(AcceptAny(provider)));
    let mut cfg = if with_cert {
        let p = pki();
        b.with_client_auth_cert(vec![CertificateDer::from(p.client_cert.clone())], PrivateKeyDer::Pkcs8(PrivatePkcs8KeyDer::from(p.client_key.clone()))).unwrap()
    } else {
        b.with_no_client_auth()
    };
    cfg.resumption = rustls::client::Resumption::disabled();
    if alpn_pad > 0 {
        // each name costs 1 length byte + its bytes; the extension header costs 6 more
        let mut left = alpn_pad.saturating_sub(6);
        let mut names = Vec::new();
        while left > 1 {
            let n = (left - 1).min(255);
            names.push(vec![b'x'; n]);
            left -= n + 1;
        }
        cfg.alpn_protocols = names;
    }
    Arc::new(cfg)
}

struct TlsState {
    client: rustls::ClientConnection,
    /// everything the client has produced for the server so far
    to_server: Vec<u8>,
    delivered: usize,
    cuts: Vec<usize>,
    uniform: usize,
    /// all bytes the server wrote; how many the client has consumed
    from_server: Vec<u8>,
    consumed: usize,
    greeting_len: Option<usize>,
    ssl_request_sent: bool,
    /// framed SSL request to send instead of the usual HandshakeResponse41-style one
    ssl_req: Option<Vec<u8>>,
    script_written: bool,
    script: Vec<u8>,
    decrypted: Vec<u8>,
    tls_error: Option<String>,
    first_flight_end: usize,
    hang: bool,
    reads: usize,
    /// the n-th transport write fails once with this kind (a transient condition)
    write_fault: Option<(usize, io::ErrorKind)>,
    writes: usize,
    /// the n-th transport read fails once with this kind, before it delivers anything
    read_fault: Option<(usize, io::ErrorKind)>,
    /// the client->server stream ends (read returns 0) after this many bytes
    eof_at: Option<usize>,
    /// ends of the client messages inside `script` when each goes into its own TLS record
    part_ends: Vec<usize>,
    /// a lock-step client: a message is only written once every reply owed for the earlier ones
    /// has been decrypted (commands without a reply release the next one at once)
    lockstep: Option<Conv>,
    script_pos: usize,
}

#[derive(Clone)]
struct TlsSim(Rc<RefCell<TlsState>>);

impl TlsState {
    fn pump(&mut self) {
        // 1. the greeting (plaintext) must be complete before the client says anything
        if self.greeting_len.is_none() {
            if self.from_server.len() >= 4 {
                let n = self.from_server[0] as usize | (self.from_server[1] as usize) << 8 | (self.from_server[2] as usize) << 16;
                if self.from_server.len() >= 4 + n {
                    self.greeting_len = Some(4 + n);
                    self.consumed = 4 + n;
                }
            }
            if self.greeting_len.is_none() {
                return;
            }
        }
        if !self.ssl_request_sent {
            let caps = CAP_LONG_PASSWORD | CAP_PROTOCOL_41 | CAP_SECURE_CONNECTION | CAP_SSL;
            match self.ssl_req.take() {
                Some(r) => self.to_server.extend_from_slice(&r),
                None => self.to_server.extend_from_slice(&frame(1, &ssl_request(caps, 1 << 24, 0x21)).0),
            }
            self.ssl_request_sent = true;
        }
        // 2. server bytes after the greeting go to the TLS client
        while self.consumed < self.from_server.len() && self.tls_error.is_none() {
            let mut slice = &self.from_server[self.consumed..];
            match self.client.read_tls(&mut slice) {
                Ok(0) => break,
                Ok(n) => self.consumed += n,
                Err(e) => {
                    self.tls_error = Some(format!("read_tls: {}", e));
                    break;
                }
            }
            match self.client.process_new_packets() {
                Ok(_) => {}
                Err(e) => {
                    self.tls_error = Some(format!("the TLS client rejects what the server sent: {}", e));
                    break;
                }
            }
            // drain decrypted bytes as they come (rustls bounds its plaintext buffer)
            let mut plain = Vec::new();
            let _ = self.client.reader().read_to_end(&mut plain);
            self.decrypted.extend_from_slice(&plain);
        }
        let mut plain = Vec::new();
        match self.client.reader().read_to_end(&mut plain) {
            Ok(_) => {}
            Err(e) if e.kind() == io::ErrorKind::WouldBlock => {}
            Err(_) => {}
        }
        self.decrypted.extend_from_slice(&plain);
        // 3. the application data: buffered by rustls until the handshake allows sending it
        if let (false, Some(k)) = (self.script_written, GOODBYE_AFTER.with(|g| g.get())) {
            // a client that leaves early: nothing is written before the TLS handshake is done, then
            // the first k bytes of the script, then close_notify
            if !self.client.is_handshaking() {
                let s = std::mem::take(&mut self.script);
                let _ = self.client.writer().write_all(&s[..k.min(s.len())]);
                self.client.send_close_notify();
                self.script_written = true;
            }
        } else if let (false, Some(conv)) = (self.script_written, self.lockstep.as_ref()) {
            let g = self.greeting_len.unwrap_or(0);
            let mut all = self.from_server[..g].to_vec();
            all.extend_from_slice(&self.decrypted);
            let seen = complete_replies(&all, conv);
            let mut need = 1;
            let mut allowed = 0;
            for k in 0..self.part_ends.len() {
                if seen < need {
                    break;
                }
                allowed = self.part_ends[k];
                if k == 0 {
                    need = 2;
                } else if conv.cmds[k - 1].resp != RespKind::None {
                    need += 1;
                }
            }
            let mut from = self.script_pos;
            for e in self.part_ends.clone() {
                if e > from && e <= allowed {
                    let _ = self.client.writer().write_all(&self.script[from..e]);
                    from = e;
                }
            }
            self.script_pos = from;
            if self.script_pos >= self.script.len() {
                self.script_written = true;
            }
        } else if !self.script_written {
            let s = std::mem::take(&mut self.script);
            if self.part_ends.is_empty() {
                self.client.writer().write_all(&s).expect("VERIF harness bug: the TLS client did not take the whole script");
            } else {
                // one write per client message: each becomes its own TLS record(s)
                let mut from = 0;
                for e in self.part_ends.clone() {
                    let _ = self.client.writer().write_all(&s[from..e]);
                    from = e;
                }
            }
            self.script_written = true;
        }
        // 4. collect what the client wants to send
        while self.client.wants_write() {
            let mut out = Vec::new();
            match self.client.write_tls(&mut out) {
                Ok(0) => break,
                Ok(_) => self.to_server.extend_from_slice(&out),
                Err(_) => break,
            }
        }
        if self.first_flight_end == 0 {
            self.first_flight_end = self.to_server.len();
            if let Some(v) = HELLO_VERSION.with(|w| w.get()) {
                // the record-layer version of the first flight is a legacy field receivers must ignore
                let off = self.to_server.len().min(37);
                let start = self.to_server.iter().position(|b| *b == 0x16).filter(|p| *p >= 9).unwrap_or(off - 1);
                if start + 3 <= self.to_server.len() && self.to_server[start] == 0x16 {
                    self.to_server[start + 1] = v[0];
                    self.to_server[start + 2] = v[1];
                }
            }
        }
    }
}

impl Read for TlsSim {
    fn read(&mut self, buf: &mut [u8]) -> io::Result<usize> {
        let mut s = self.0.borrow_mut();
        s.reads += 1;
        if s.reads > 200_000 {
            return Err(io::Error::new(io::ErrorKind::Other, "VERIF op budget exhausted"));
        }
        s.pump();
        if let Some((at, kind)) = s.read_fault {
            if at + 1 == s.reads {
                return Err(io::Error::new(kind, "VERIF transient read fault"));
            }
        }
        if let Some(e) = s.eof_at {
            if s.delivered >= e {
                return Ok(0);
            }
        }
        if s.delivered >= s.to_server.len() {
            if s.script_written && !s.client.is_handshaking() && !s.client.wants_write() {
                return Ok(0); // the client has said everything
            }
            s.hang = true;
            return Err(io::Error::new(io::ErrorKind::TimedOut, "VERIF hang: the server reads while the client waits for it"));
        }
        let mut end = s.to_server.len();
        if let Some(c) = s.cuts.iter().find(|c| **c > s.delivered) {
            end = end.min(*c);
        }
        if let Some(e) = s.eof_at {
            end = end.min(e);
        }
        let n = (end - s.delivered).min(buf.len()).min(s.uniform);
        let d = s.delivered;
        buf[..n].copy_from_slice(&s.to_server[d..d + n]);
        s.delivered += n;
        Ok(n)
    }
}

impl Write for TlsSim {
    fn write(&mut self, buf: &[u8]) -> io::Result<usize> {
        let mut s = self.0.borrow_mut();
        let k = s.writes;
        s.writes += 1;
        if let Some((at, kind)) = s.write_fault {
            if at == k {
                return Err(io::Error::new(kind, "VERIF transient write fault"));
            }
        }
        s.from_server.extend_from_slice(buf);
        Ok(buf.len())
    }
    /// like a socket: one operation that takes all the slices
    fn write_vectored(&mut self, bufs: &[io::IoSlice<'_>]) -> io::Result<usize> {
        let joined: Vec<u8> = bufs.iter().flat_map(|b| b.iter().copied()).collect();
        self.write(&joined)
    }
    fn flush(&mut self) -> io::Result<()> {
        Ok(())
    }
}

fn big_rows() -> Vec<Vec<u8>> {
    let mut rows = vec![(0..40_000).map(|i| (i % 251) as u8).collect::<Vec<u8>>()];
    for r in 0..250u8 {
        rows.push(vec![r; 300]);
    }
    rows
}

/// queries starting with "big" get a resultset that spans several TLS records
fn tls_behave() -> Box<dyn FnMut(usize, &Cb) -> Behavior> {
    let mut std = std_behave();
    let cols = Arc::new(vec![col("c", msql_srv::ColumnType::MYSQL_TYPE_BLOB, msql_srv::ColumnFlags::empty())]);
    let mut p = vec![WOp::Start(cols)];
    for r in big_rows() {
        p.push(WOp::WriteRow(vec![Val::Bytes(r)]));
    }
    p.push(WOp::Finish);
    let prog = Arc::new(p);
    let c1 = Arc::new(vec![col("c", msql_srv::ColumnType::MYSQL_TYPE_BLOB, msql_srv::ColumnFlags::empty())]);
    Box::new(move |i, cb| match cb {
        Cb::Query(t) if t.starts_with("big") => Behavior::Prog(prog.clone()),
        // "cell=<n>": one row with one cell of n bytes
        Cb::Query(t) if t.starts_with("cell=") => {
            let n: usize = t[5..].parse().unwrap_or(0);
            Behavior::Prog(Arc::new(vec![WOp::Start(c1.clone()), WOp::WriteRow(vec![Val::Bytes((0..n).map(|k| (k % 253) as u8).collect())]), WOp::Finish]))
        }
        // "err=<n>": an ERR with a message of n bytes at once; "late=<n>": two rows, then that ERR
        Cb::Query(t) if t.starts_with("err=") => {
            let n: usize = t[4..].parse().unwrap_or(0);
            Behavior::Prog(Arc::new(vec![WOp::Error(msql_srv::ErrorKind::ER_NO_SUCH_TABLE, tls_err_msg(n))]))
        }
        Cb::Query(t) if t.starts_with("late=") => {
            let n: usize = t[5..].parse().unwrap_or(0);
            Behavior::Prog(Arc::new(vec![WOp::Start(c1.clone()), WOp::WriteRow(vec![Val::Bytes(b"r1".to_vec())]), WOp::WriteRow(vec![Val::Bytes(b"r2".to_vec())]), WOp::FinishError(msql_srv::ErrorKind::ER_QUERY_INTERRUPTED, tls_err_msg(n))]))
        }
        Cb::Prepare(t) if t.starts_with("refuse=") => {
            let n: usize = t[7..].parse().unwrap_or(0);
            Behavior::PrepError(msql_srv::ErrorKind::ER_PARSE_ERROR, tls_err_msg(n))
        }
        other => std(i, other),
    })
}

fn tls_err_msg(n: usize) -> Vec<u8> {
    "d\u{e9}fendu: ".bytes().chain((0..n).map(|k| b'a' + (k % 26) as u8)).take(n).collect()
}

struct TlsOutcome {
    res: ConnResult,
    log: Vec<Cb>,
    st: TlsState,
}

fn script() -> (Vec<u8>, Conv, Vec<u8>) {
    script_with(2)
}

fn script_with(hs_seq: u8) -> (Vec<u8>, Conv, Vec<u8>) {
    let mut caps = CAP_LONG_PASSWORD | CAP_PROTOCOL_41 | CAP_SECURE_CONNECTION | CAP_SSL;
    if POST_TLS_WITHOUT_SSL_BIT.with(|w| w.get()) {
        caps &= !CAP_SSL;
    }
    let hs = if INNER_320.with(|w| w.get()) {
        frame(hs_seq, &handshake320((CAP_LONG_PASSWORD | CAP_SSL) as u16, 0xff_ffff, b"tls-user", b"pw\0")).0
    } else {
        frame(hs_seq, &handshake41(caps, 1 << 24, 0x21, b"tls-user", &[0])).0
    };
    let mut big = b"big ".to_vec();
    big.extend((0..20_000).map(|i| b'a' + (i % 26) as u8));
    let mut cmds = vec![q(b"SELECT 1"), ClientCmd::new(with_byte(COM_STMT_PREPARE, b"id=1 p=0")), ClientCmd::new(cmd_execute(1, 0, 1, &[])), q(&big), ping(), quit()];
    if let Some(c) = SCRIPT_CMDS.with(|c| c.borrow().clone()) {
        cmds = c;
        cmds.push(quit());
    }
    let mut conv = Conv::new(cmds);
    conv.handshake = hs;
    conv.hs_seq = hs_seq;
    let s = conv.stream();
    (s.bytes, conv, s.last_seq)
}

fn run_tls(server_tls: Option<Arc<rustls::ServerConfig>>, client_cert: bool, cuts: Vec<usize>, uniform: usize) -> TlsOutcome {
    run_tls_with(server_tls, client_cert, cuts, uniform, 0, false)
}

fn run_tls_with(server_tls: Option<Arc<rustls::ServerConfig>>, client_cert: bool, cuts: Vec<usize>, uniform: usize, alpn_pad: usize, tls12: bool) -> TlsOutcome {
    run_tls_full(server_tls, client_cert, cuts, uniform, alpn_pad, tls12, None, 2)
}

#[allow(clippy::too_many_arguments)]
fn run_tls_full(server_tls: Option<Arc<rustls::ServerConfig>>, client_cert: bool, cuts: Vec<usize>, uniform: usize, alpn_pad: usize, tls12: bool, ssl_req: Option<Vec<u8>>, hs_seq: u8) -> TlsOutcome {
    let (bytes, _, _) = script_with(hs_seq);
    let mut client = rustls::ClientConnection::new(client_config(client_cert, alpn_pad, tls12), ServerName::try_from("localhost").unwrap()).unwrap();
    // the whole script is handed to rustls at once; its default 64 KiB send-buffer limit would
    // silently truncate longer scripts
    client.set_buffer_limit(None);
    let st = TlsState {
        client,
        to_server: Vec::new(),
        delivered: 0,
        cuts,
        uniform,
        from_server: Vec::new(),
        consumed: 0,
        greeting_len: None,
        ssl_request_sent: false,
        ssl_req,
        script_written: false,
        script: bytes,
        decrypted: Vec::new(),
        tls_error: None,
        first_flight_end: 0,
        hang: false,
        reads: 0,
        write_fault: WRITE_FAULT.with(|w| w.get()),
        writes: 0,
        read_fault: READ_FAULT.with(|w| w.get()),
        eof_at: EOF_AT.with(|w| w.get()),
        part_ends: if PER_MESSAGE.with(|w| w.get()) || LOCKSTEP.with(|w| w.get()) { script_with(hs_seq).1.stream().ends } else { Vec::new() },
        lockstep: if LOCKSTEP.with(|w| w.get()) { Some(script_with(hs_seq).1) } else { None },
        script_pos: 0,
    };
    let sim = TlsSim(Rc::new(RefCell::new(st)));
    let mut shim = Shim::new(None, tls_behave());
    shim.tls = server_tls;
    shim.auth_reject = AUTH_REJECT.with(|w| w.get());
    shim.fail_after = FAIL_AFTER.with(|w| w.get());
    let r = {
        let sh = &mut shim;
        let tr = sim.clone();
        guarded(move || MysqlIntermediary::run_on(sh, tr))
    };
    let res = match r {
        Ok(Ok(())) => ConnResult::Ok,
        Ok(Err(ShimErr::Io(e))) => ConnResult::ErrIo(e.kind(), e.to_string()),
        Ok(Err(ShimErr::Marker(m))) => ConnResult::ErrMarker(m),
        Err((l, m)) => ConnResult::Panic(l, m),
    };
    let log = shim.log.iter().map(|x| x.1.clone()).collect();
    drop(shim);
    // a final pump so that everything the server wrote is decrypted
    sim.0.borrow_mut().pump();
    let st = match Rc::try_unwrap(sim.0) {
        Ok(c) => c.into_inner(),
        Err(_) => panic!("VERIF harness bug: transport still referenced"),
    };
    // the observable outcome: result, callbacks, and what the client decrypted (the ciphertext
    // itself differs from run to run)
    let log: Vec<Cb> = log;
    record_connection(&res, &log, &st.decrypted);
    TlsOutcome { res, log, st }
}

/// every server byte after the greeting must be inside a well-formed TLS record
fn only_tls_records(b: &[u8]) -> Result<usize, String> {
    let mut p = 0;
    let mut n = 0;
    while p < b.len() {
        if b.len() - p < 5 {
            return Err(format!("{} stray bytes after the last TLS record: {:02x?}", b.len() - p, &b[p..]));
        }
        let ct = b[p];
        let ver = (b[p + 1], b[p + 2]);
        let len = (b[p + 3] as usize) << 8 | b[p + 4] as usize;
        if !(20..=23).contains(&ct) || ver.0 != 3 || ver.1 > 4 || len > 16384 + 256 {
            return Err(format!("bytes at offset {} after the greeting are not a TLS record: {:02x?}", p, &b[p..(p + 12).min(b.len())]));
        }
        if b.len() - p - 5 < len {
            return Err(format!("truncated TLS record at offset {}", p));
        }
        p += 5 + len;
        n += 1;
    }
    Ok(n)
}

fn judge(o: &TlsOutcome, client_cert: bool, what: &str, st: &mut Stats) -> Result<(), Violation> {
    judge_with(o, client_cert, what, 2, st)
}

fn judge_with(o: &TlsOutcome, client_cert: bool, what: &str, hs_seq: u8, st: &mut Stats) -> Result<(), Violation> {
    if let ConnResult::Panic(l, m) = &o.res {
        return Err(Violation::new(panic_key(l, m), format!("{}: run_on panicked at {}: {}", what, l, m)));
    }
    if o.st.hang {
        return Err(Violation::new("hang", format!("{}: the server waited for bytes although the client had sent everything it could ({} of {} bytes delivered); result {}", what, o.st.delivered, o.st.to_server.len(), o.res.short())));
    }
    if let Some(e) = &o.st.tls_error {
        return Err(Violation::new("tls-error", format!("{}: {}", what, e)));
    }
    let g = o.st.greeting_len.unwrap_or(0);
    let n = only_tls_records(&o.st.from_server[g..]).map_err(|e| Violation::new("plaintext-after-switch", format!("{}: {}", what, e)))?;
    st.add("tls_records_from_server", n as u64);
    if !o.res.is_ok() {
        return Err(Violation::new("result-not-ok", format!("{}: run_on returned {}", what, o.res.short())));
    }
    // callbacks: authentication with the user of the encrypted handshake response and the chain
    let want_user = b"tls-user".to_vec();
    match o.log.first() {
        Some(Cb::Auth { user, certs }) => {
            if user.as_ref() != Some(&want_user) {
                return Err(Violation::new("auth-username", format!("{}: after_authentication saw user {:?}", what, user.as_ref().map(|u| String::from_utf8_lossy(u).to_string()))));
            }
            let have = certs.as_ref().map(|c| c.len()).unwrap_or(0);
            if client_cert {
                if certs.as_ref().map(|c| c.first() == Some(&pki().client_cert)).unwrap_or(false) {
                    st.bump("client_chains_delivered");
                } else {
                    return Err(Violation::new("client-certs-missing", format!("{}: the client presented a certificate but after_authentication saw {} certificates", what, have)));
                }
            } else if have != 0 {
                return Err(Violation::new("phantom-client-certs", format!("{}: {} client certificates reported", what, have)));
            }
        }
        other => return Err(Violation::new("auth-missing", format!("{}: first callback is {:?}", what, other.map(cb_short)))),
    }
    let (_, conv0, _) = script_with(hs_seq);
    let big_text = String::from_utf8(conv0.cmds[3].payload[1..].to_vec()).unwrap();
    let expected = vec![o.log[0].clone(), Cb::Query("SELECT 1".into()), Cb::Prepare("id=1 p=0".into()), Cb::Execute { id: 1, params: vec![] }, Cb::Query(big_text)];
    if o.log != expected {
        return Err(Violation::new("commands-differ", format!("{}: callback log {:?}", what, o.log.iter().map(cb_short).collect::<Vec<_>>())));
    }
    // decrypted replies: auth OK at id 3, then one reply per command
    let (_, conv, last_seq) = script_with(hs_seq);
    let mut all = o.st.from_server[..g].to_vec();
    all.extend_from_slice(&o.st.decrypted);
    let d = decode_all(&all, &conv, &last_seq, 5, false).map_err(|e| Violation::new("decrypted-replies", format!("{}: {}", what, e)))?;
    match &d.replies[3][..] {
        [Unit::ResultSet { rows, end: Ok(_), .. }] => {
            let want = big_rows();
            if rows.len() != want.len() || rows.iter().zip(want.iter()).any(|(g, w)| g[0] != Cell::Text(w.clone())) {
                return Err(Violation::new("decrypted-rows-differ", format!("{}: the multi-record resultset arrives changed", what)));
            }
        }
        other => return Err(Violation::new("decrypted-replies", format!("{}: reply to the big query has {} units", what, other.len()))),
    }
    Ok(())
}


/// cut positions for the single-split families. Thorough: every position of the stream. Quick:
/// every position of the first 1600 bytes (SSL request, the whole TLS handshake, the encrypted
/// handshake response and first commands), every 13th beyond, and every position within 6 bytes
/// of a TLS record header of the client stream actually produced.
fn split_positions(stream: &[u8], quick: bool) -> Vec<usize> {
    let n = stream.len();
    if !quick {
        return (1..n + 6).collect();
    }
    let mut v: Vec<usize> = (1..n.min(1600)).collect();
    let mut p = 1600;
    while p < n {
        v.push(p);
        p += 13;
    }
    // record headers: the plaintext SSL request (36 bytes) is followed by TLS records
    let mut off = 36;
    while off + 5 <= n {
        for d in 0..=6 {
            if off + d < n {
                v.push(off + d);
            }
            if off >= d && off - d > 0 {
                v.push(off - d);
            }
        }
        let len = (stream[off + 3] as usize) << 8 | stream[off + 4] as usize;
        off += 5 + len;
    }
    for d in 0..6 {
        v.push(n + d);
    }
    v.sort();
    v.dedup();
    v
}

struct Baseline {
    n: usize,
    first_flight: usize,
    singles: Vec<usize>,
}

fn baseline(client_cert: bool) -> Baseline {
    baseline_q(client_cert, false)
}

fn baseline_q(client_cert: bool, quick: bool) -> Baseline {
    let cfg = if client_cert { pki().server_client_auth.clone() } else { pki().server_plain.clone() };
    let o = run_tls(Some(cfg), client_cert, vec![], usize::MAX);
    Baseline {
        n: o.st.to_server.len(),
        first_flight: o.st.first_flight_end,
        singles: split_positions(&o.st.to_server, quick),
    }
}

struct Splits {
    client_cert: bool,
    base: Baseline,
    mode: u8, // 0 single, 1 pairs in first flight, 2 uniform, 3 pairs over the whole stream
}

impl Splits {
    fn cuts(&self, idx: u64) -> (Vec<usize>, usize) {
        match self.mode {
            0 => (vec![self.base.singles[idx as usize]], usize::MAX),
            1 | 3 => {
                // pairs a<b within the first flight (+ a little beyond), or over the whole stream
                let m = if self.mode == 1 { (self.base.first_flight + 8) as u64 } else { (self.base.n + 4).min(1100) as u64 };
                let mut k = idx;
                let mut a = 1u64;
                loop {
                    let cnt = m - a;
                    if k < cnt {
                        return (vec![a as usize, (a + 1 + k) as usize], usize::MAX);
                    }
                    k -= cnt;
                    a += 1;
                }
            }
            _ => (vec![], idx as usize + 1),
        }
    }
}

impl Family for Splits {
    fn name(&self) -> String {
        format!("{}-{}", ["single-splits", "split-pairs-first-flight", "uniform-chunks", "split-pairs-whole-stream"][self.mode as usize], if self.client_cert { "client-cert" } else { "no-client-cert" })
    }
    fn len(&self) -> u64 {
        match self.mode {
            0 => self.base.singles.len() as u64,
            1 | 3 => {
                let m = if self.mode == 1 { (self.base.first_flight + 8) as u64 } else { (self.base.n + 4).min(1100) as u64 };
                m * (m - 1) / 2
            }
            _ => 64,
        }
    }
    fn run(&self, idx: u64, st: &mut Stats) -> Result<(), Violation> {
        let (cuts, uniform) = self.cuts(idx);
        st.nontrivial += 1;
        if cuts.iter().any(|c| *c > 36 && *c < self.base.first_flight) {
            st.bump("splits_inside_client_hello");
        }
        if cuts.iter().any(|c| *c < 36) {
            st.bump("splits_inside_ssl_request");
        }
        if cuts.is_empty() || !cuts.contains(&36) {
            st.bump("ssl_request_coalesced_with_client_hello");
        }
        let cfg = if self.client_cert { pki().server_client_auth.clone() } else { pki().server_plain.clone() };
        let o = run_tls(Some(cfg), self.client_cert, cuts.clone(), uniform);
        st.transitions += o.st.reads as u64;
        judge(&o, self.client_cert, &format!("cuts {:?} uniform {}", cuts, if uniform == usize::MAX { 0 } else { uniform }), st)
    }
    fn describe(&self, idx: u64) -> J {
        let (cuts, uniform) = self.cuts(idx);
        json!({"client_to_server_stream_bytes": self.base.n, "ssl_request_ends_at": 36, "first_flight_ends_at": self.base.first_flight, "cuts": cuts, "uniform_read_size": if uniform == usize::MAX { 0 } else { uniform }, "client_certificate": self.client_cert})
    }
}

/// a client that requests TLS from a shim that offers none, under every split of its first flight
struct NoConfig {
    base: Baseline,
}
impl Family for NoConfig {
    fn name(&self) -> String {
        "tls-requested-but-not-offered".into()
    }
    fn len(&self) -> u64 {
        (self.base.first_flight + 2) as u64 * 2
    }
    fn run(&self, idx: u64, st: &mut Stats) -> Result<(), Violation> {
        st.nontrivial += 1;
        st.bump("refusals");
        let pre41 = idx >= (self.base.first_flight + 2) as u64;
        let idx = idx % (self.base.first_flight + 2) as u64;
        let cuts = if idx == 0 { vec![] } else { vec![idx as usize] };
        // the SSL request in the 4.1 layout, or in the pre-4.1 layout (CLIENT_SSL set,
        // CLIENT_PROTOCOL_41 clear, a user name in the clear)
        let req = if pre41 { Some(frame(1, &handshake320(0x0805, 1 << 20, b"someone", b"")).0) } else { None };
        let o = run_tls_full(None, false, cuts.clone(), usize::MAX, 0, false, req, 2);
        if let ConnResult::Panic(l, m) = &o.res {
            return Err(Violation::new(panic_key(l, m), format!("run_on panicked at {}: {}", l, m)));
        }
        if !o.log.is_empty() {
            return Err(Violation::new("refusal-reached-shim", format!("cuts {:?}: callbacks ran: {:?}", cuts, o.log.iter().map(cb_short).collect::<Vec<_>>())));
        }
        if !o.res.is_err() {
            return Err(Violation::new("not-refused", format!("cuts {:?}: run_on returned {}", cuts, o.res.short())));
        }
        Ok(())
    }
    fn describe(&self, idx: u64) -> J {
        json!({"cut": idx, "shim_tls_config": "none"})
    }
}


/// ClientHello sizes swept byte by byte across the sizes at which the server's read buffer, the
/// prepended-bytes reader and the TLS record limit change behaviour; SSL request coalesced with
/// the ClientHello or not; a few read sizes.
struct HelloSizes {
    cases: Vec<(usize, u8, bool)>, // (alpn padding, schedule, tls12)
}
impl HelloSizes {
    fn new(quick: bool) -> Self {
        let mut pads: Vec<usize> = Vec::new();
        let step = if quick { 7 } else { 1 };
        for (lo, hi) in [(3600usize, 4200usize), (7800, 8300), (15900, 16500)] {
            let mut p = lo;
            while p <= hi {
                pads.push(p);
                p += step;
            }
        }
        pads.extend([300, 1000, 2000, 3000, 5000, 6000, 10000, 12000, 20000, 33000, 60000]);
        let mut cases = Vec::new();
        for p in pads {
            for sched in 0..4u8 {
                cases.push((p, sched, false));
            }
            if p % 5 == 0 {
                cases.push((p, 0, true));
                cases.push((p, 1, true));
            }
        }
        HelloSizes { cases }
    }
    fn sched(k: u8) -> (Vec<usize>, usize, &'static str) {
        match k {
            0 => (vec![], usize::MAX, "everything the client has said arrives in as few reads as the server's buffer allows"),
            1 => (vec![36], usize::MAX, "SSL request alone, then the ClientHello"),
            2 => (vec![], 1460, "reads of at most 1460 bytes"),
            _ => (vec![20], usize::MAX, "cut inside the SSL request"),
        }
    }
}
impl Family for HelloSizes {
    fn name(&self) -> String {
        "client-hello-sizes".into()
    }
    fn len(&self) -> u64 {
        self.cases.len() as u64
    }
    fn run(&self, idx: u64, st: &mut Stats) -> Result<(), Violation> {
        let (pad, k, tls12) = self.cases[idx as usize];
        let (cuts, uniform, what) = Self::sched(k);
        st.nontrivial += 1;
        let o = run_tls_with(Some(pki().server_plain.clone()), false, cuts, uniform, pad, tls12);
        st.transitions += o.st.reads as u64;
        if o.st.first_flight_end > 4096 + 36 {
            st.bump("client_hello_beyond_4096_bytes");
        }
        if o.st.first_flight_end > 16384 + 5 + 36 {
            st.bump("client_hello_in_two_records");
        }
        if tls12 {
            st.bump("tls12_handshakes");
        }
        judge(&o, false, &format!("ClientHello padded by {} bytes (first flight {} bytes), {}, {}", pad, o.st.first_flight_end, if tls12 { "TLS 1.2" } else { "TLS 1.3" }, what), st)
    }
    fn describe(&self, idx: u64) -> J {
        let (pad, k, tls12) = self.cases[idx as usize];
        json!({"alpn_padding_bytes": pad, "schedule": Self::sched(k).2, "tls12": tls12})
    }
}

/// the same splits with a TLS 1.2 client (two round trips, other record sequence)
struct Tls12Splits {
    positions: Vec<usize>,
    client_cert: bool,
}
impl Family for Tls12Splits {
    fn name(&self) -> String {
        format!("tls12-single-splits-{}", if self.client_cert { "client-cert" } else { "no-client-cert" })
    }
    fn len(&self) -> u64 {
        self.positions.len() as u64
    }
    fn run(&self, idx: u64, st: &mut Stats) -> Result<(), Violation> {
        st.nontrivial += 1;
        st.bump("tls12_handshakes");
        let cfg = if self.client_cert { pki().server_client_auth.clone() } else { pki().server_plain.clone() };
        let cuts = vec![self.positions[idx as usize]];
        let o = run_tls_with(Some(cfg), self.client_cert, cuts.clone(), usize::MAX, 0, true);
        st.transitions += o.st.reads as u64;
        judge(&o, self.client_cert, &format!("TLS 1.2, cuts {:?}", cuts), st)
    }
    fn describe(&self, idx: u64) -> J {
        json!({"tls": "1.2", "cuts": [self.positions[idx as usize]], "client_certificate": self.client_cert})
    }
}


/// other shapes of the SSL request and other connection-phase sequence ids: the pre-4.1 layout
/// (which carries a user name in the clear - the name that counts is the one sent inside TLS),
/// and (SSL request id, handshake id) pairs that are not 1, 2
struct SslRequests;
const SEQS: [(u8, u8); 6] = [(1, 2), (1, 9), (0, 1), (254, 255), (255, 0), (200, 7)];
impl SslRequests {
    fn case(idx: u64) -> (usize, (u8, u8), usize) {
        let d = digits(idx, &[3, SEQS.len() as u64, 3]);
        (d[0] as usize, SEQS[d[1] as usize], d[2] as usize)
    }
    fn request(kind: usize, seq: u8) -> (Vec<u8>, &'static str) {
        let caps = CAP_LONG_PASSWORD | CAP_PROTOCOL_41 | CAP_SECURE_CONNECTION | CAP_SSL;
        match kind {
            0 => (frame(seq, &ssl_request(caps, 1 << 24, 0x21)).0, "4.1 SSL request"),
            1 => (frame(seq, &handshake320(0x0805, 1 << 20, b"mallory", b"")).0, "pre-4.1 SSL request naming another user in the clear"),
            _ => (frame(seq, &handshake320(0x0805, 1 << 20, b"", b"")).0, "pre-4.1 SSL request with an empty user name"),
        }
    }
}
impl Family for SslRequests {
    fn name(&self) -> String {
        "ssl-request-shapes-and-sequence-ids".into()
    }
    fn len(&self) -> u64 {
        (3 * SEQS.len() * 3) as u64
    }
    fn run(&self, idx: u64, st: &mut Stats) -> Result<(), Violation> {
        let (kind, (a, b), sched) = Self::case(idx);
        let (req, what) = Self::request(kind, a);
        let cuts = match sched {
            0 => vec![],
            1 => vec![req.len()],
            _ => vec![5],
        };
        st.nontrivial += 1;
        st.bump("ssl_request_variants");
        let o = run_tls_full(Some(pki().server_plain.clone()), false, cuts.clone(), usize::MAX, 0, false, Some(req), b);
        st.transitions += o.st.reads as u64;
        judge_with(&o, false, &format!("{} with sequence id {}, handshake response inside TLS with id {}, cuts {:?}", what, a, b, cuts), b, st)
    }
    fn describe(&self, idx: u64) -> J {
        let (kind, (a, b), sched) = Self::case(idx);
        let sch = ["coalesced", "SSL request alone", "cut inside the SSL request"][sched];
        json!({"ssl_request": Self::request(kind, a).1, "ssl_request_sequence_id": a, "handshake_response_sequence_id": b, "schedule": sch})
    }
}


thread_local! {
    static WRITE_FAULT: std::cell::Cell<Option<(usize, io::ErrorKind)>> = std::cell::Cell::new(None);
    static READ_FAULT: std::cell::Cell<Option<(usize, io::ErrorKind)>> = std::cell::Cell::new(None);
    static AUTH_REJECT: std::cell::Cell<Option<u64>> = std::cell::Cell::new(None);
    static EOF_AT: std::cell::Cell<Option<usize>> = std::cell::Cell::new(None);
    static PER_MESSAGE: std::cell::Cell<bool> = std::cell::Cell::new(false);
    static LOCKSTEP: std::cell::Cell<bool> = std::cell::Cell::new(false);
    /// legacy_record_version bytes to put into the header of the record carrying the ClientHello
    static HELLO_VERSION: std::cell::Cell<Option<[u8; 2]>> = std::cell::Cell::new(None);
    /// the handshake response sent inside TLS does not repeat the CLIENT_SSL bit
    static POST_TLS_WITHOUT_SSL_BIT: std::cell::Cell<bool> = std::cell::Cell::new(false);
    /// the handshake response sent inside TLS uses the pre-4.1 (3.20) layout
    static INNER_320: std::cell::Cell<bool> = std::cell::Cell::new(false);
    /// the client says goodbye (close_notify, then end of stream) after this many bytes of its script
    static GOODBYE_AFTER: std::cell::Cell<Option<usize>> = std::cell::Cell::new(None);
    /// commands to send inside TLS instead of the fixed script (TlsWalks)
    static SCRIPT_CMDS: RefCell<Option<Vec<ClientCmd>>> = RefCell::new(None);
    /// the k-th command callback does its work and then returns Err(marker)
    static FAIL_AFTER: std::cell::Cell<Option<(usize, u64)>> = std::cell::Cell::new(None);
}

/// the client's stream ends (no close_notify) after k bytes of a TLS session: inside the TLS
/// handshake, inside a record that carries commands, or exactly between two records. Only the
/// last can be a legitimate end of the conversation; anywhere else run_on must report an error.
pub struct TlsEof {
    positions: Vec<usize>,
    boundaries: Vec<usize>,
    tls12: bool,
    /// the client sends every message in a TLS record of its own (record boundaries then
    /// coincide with command boundaries, so the server's packet buffer is empty at each)
    per_message: bool,
}
impl TlsEof {
    pub fn new(quick: bool, tls12: bool, per_message: bool) -> Self {
        PER_MESSAGE.with(|w| w.set(per_message));
        let o = run_tls_with(Some(pki().server_plain.clone()), false, vec![], usize::MAX, 0, tls12);
        PER_MESSAGE.with(|w| w.set(false));
        let stream = o.st.to_server;
        let mut boundaries = vec![];
        let mut off = 36;
        while off + 5 <= stream.len() {
            boundaries.push(off);
            off += 5 + ((stream[off + 3] as usize) << 8 | stream[off + 4] as usize);
        }
        boundaries.push(stream.len());
        let positions = split_positions(&stream, quick).into_iter().filter(|p| *p < stream.len()).collect();
        TlsEof { positions, boundaries, tls12, per_message }
    }
}
impl Family for TlsEof {
    fn name(&self) -> String {
        format!("tls-stream-ends-early-{}{}", if self.tls12 { "tls12" } else { "tls13" }, if self.per_message { "-one-record-per-message" } else { "" })
    }
    fn len(&self) -> u64 {
        self.positions.len() as u64
    }
    fn run(&self, idx: u64, st: &mut Stats) -> Result<(), Violation> {
        let p = self.positions[idx as usize];
        st.nontrivial += 1;
        st.bump("tls_eof_points");
        EOF_AT.with(|w| w.set(Some(p)));
        PER_MESSAGE.with(|w| w.set(self.per_message));
        let o = run_tls_with(Some(pki().server_plain.clone()), false, vec![], usize::MAX, 0, self.tls12);
        PER_MESSAGE.with(|w| w.set(false));
        EOF_AT.with(|w| w.set(None));
        st.transitions += o.st.reads as u64;
        let at_boundary = self.boundaries.contains(&p);
        if let ConnResult::Panic(l, m) = &o.res {
            return Err(Violation::new(panic_key(l, m), format!("client stream ends after {} bytes: run_on panicked at {}: {}", p, l, m)));
        }
        if o.res.is_ok() && !at_boundary {
            return Err(Violation::new("eof-inside-tls-record-masked", format!("the client's stream ends after {} bytes, inside a TLS record (records start at {:?}...): run_on returned Ok", p, &self.boundaries[..self.boundaries.len().min(8)])));
        }
        if !at_boundary {
            st.bump("tls_eof_inside_a_record");
        }
        Ok(())
    }
    fn describe(&self, idx: u64) -> J {
        json!({"client_stream_ends_after_bytes": self.positions[idx as usize], "tls12": self.tls12})
    }
}

/// one transient failure (`Interrupted` / `WouldBlock`, once) of each transport write the server
/// makes during a TLS session, on the accepting and on the rejecting path: either run_on reports
/// a transport error, or the client must not notice anything (every reply arrives once, whole,
/// in order; a rejected client receives its ERR 1045)
struct TlsWriteFaults {
    n_writes: usize,
    reject: bool,
}
impl TlsWriteFaults {
    fn new(reject: bool) -> Self {
        AUTH_REJECT.with(|w| w.set(if reject { Some(4711) } else { None }));
        let o = run_tls(Some(pki().server_plain.clone()), false, vec![], usize::MAX);
        AUTH_REJECT.with(|w| w.set(None));
        TlsWriteFaults { n_writes: o.st.writes, reject }
    }
}
impl Family for TlsWriteFaults {
    fn name(&self) -> String {
        format!("tls-one-transient-write-failure-{}", if self.reject { "rejecting" } else { "accepting" })
    }
    fn len(&self) -> u64 {
        self.n_writes as u64 * 2
    }
    fn run(&self, idx: u64, st: &mut Stats) -> Result<(), Violation> {
        let at = (idx / 2) as usize;
        let kind = if idx % 2 == 0 { io::ErrorKind::Interrupted } else { io::ErrorKind::WouldBlock };
        st.nontrivial += 1;
        st.bump("tls_write_faults");
        WRITE_FAULT.with(|w| w.set(Some((at, kind))));
        AUTH_REJECT.with(|w| w.set(if self.reject { Some(4711) } else { None }));
        let o = run_tls(Some(pki().server_plain.clone()), false, vec![], usize::MAX);
        WRITE_FAULT.with(|w| w.set(None));
        AUTH_REJECT.with(|w| w.set(None));
        st.transitions += o.st.reads as u64;
        let what = format!("{:?} once at transport write {} of {} ({})", kind, at, self.n_writes, if self.reject { "shim rejects" } else { "shim accepts" });
        match &o.res {
            ConnResult::Panic(l, m) => return Err(Violation::new(panic_key(l, m), format!("{}: run_on panicked at {}: {}", what, l, m))),
            ConnResult::ErrIo(..) => {
                st.bump("tls_write_fault_reported");
                return Ok(());
            }
            _ => {}
        }
        st.bump("tls_write_fault_absorbed");
        if self.reject {
            // run_on returned the shim's error: the client must have its ERR 1045
            if o.res != ConnResult::ErrMarker(4711) {
                return Err(Violation::new("reject-result", format!("{}: run_on returned {}", what, o.res.short())));
            }
            if let Some(e) = &o.st.tls_error {
                return Err(Violation::new("tls-error", format!("{}: {}", what, e)));
            }
            let pk = split_packets(&o.st.decrypted).map_err(|e| Violation::new("decrypted-replies", format!("{}: {}", what, e)))?;
            let ok = pk.len() == 1 && pk[0].seq == 3 && parse_err(&o.st.decrypted[pk[0].start..pk[0].start + pk[0].len]).map(|e| e.code == 1045 && e.state == b"28000").unwrap_or(false);
            if !ok {
                return Err(Violation::new("reject-reply-lost", format!("{}: run_on returned the shim's error but the client decrypted {} bytes in {} packets, not one ERR 1045/28000 with sequence id 3", what, o.st.decrypted.len(), pk.len())));
            }
            return Ok(());
        }
        judge(&o, false, &what, st)
    }
    fn describe(&self, idx: u64) -> J {
        json!({"transport_write": idx / 2, "fails_once_with": if idx % 2 == 0 { "Interrupted" } else { "WouldBlock" }, "shim": if self.reject { "rejects" } else { "accepts" }})
    }
}


/// one transient `Interrupted` at each transport read of a TLS session (the one error kind a
/// reader may retry): with the SSL request arriving alone, coalesced with the ClientHello, and
/// under small reads. Either nothing changes for client and shim, or run_on reports a transport
/// error - but an honest client must never be told (by a fatal TLS alert) that its traffic was
/// corrupt: that would mean bytes it sent were interpreted twice or not at all.
struct TlsReadInterruptions {
    modes: Vec<(Vec<usize>, usize, usize)>,
}
impl TlsReadInterruptions {
    fn new() -> Self {
        let mut modes = Vec::new();
        for (cuts, uniform) in [(vec![], usize::MAX), (vec![36usize], usize::MAX), (vec![], 1400usize), (vec![36], 311)] {
            let o = run_tls(Some(pki().server_plain.clone()), false, cuts.clone(), uniform);
            modes.push((cuts, uniform, o.st.reads));
        }
        TlsReadInterruptions { modes }
    }
    fn locate(&self, idx: u64) -> (usize, usize) {
        let mut r = idx as usize;
        for (m, (_, _, n)) in self.modes.iter().enumerate() {
            if r < *n {
                return (m, r);
            }
            r -= n;
        }
        unreachable!()
    }
}
impl Family for TlsReadInterruptions {
    fn name(&self) -> String {
        "tls-one-interrupted-read".into()
    }
    fn len(&self) -> u64 {
        self.modes.iter().map(|m| m.2 as u64).sum()
    }
    fn run(&self, idx: u64, st: &mut Stats) -> Result<(), Violation> {
        let (m, at) = self.locate(idx);
        let (cuts, uniform, n) = &self.modes[m];
        st.nontrivial += 1;
        st.bump("tls_read_interruptions");
        READ_FAULT.with(|w| w.set(Some((at, io::ErrorKind::Interrupted))));
        let o = run_tls(Some(pki().server_plain.clone()), false, cuts.clone(), *uniform);
        READ_FAULT.with(|w| w.set(None));
        st.transitions += o.st.reads as u64;
        let what = format!("Interrupted once at transport read {} of {} (read boundaries {:?}, reads of at most {})", at, n, cuts, if *uniform == usize::MAX { "everything".to_string() } else { uniform.to_string() });
        match &o.res {
            ConnResult::Panic(l, m) => return Err(Violation::new(panic_key(l, m), format!("{}: run_on panicked at {}: {}", what, l, m))),
            ConnResult::ErrIo(..) => {
                if let Some(e) = &o.st.tls_error {
                    return Err(Violation::new("honest-client-told-its-traffic-is-corrupt", format!("{}: run_on returned {} and the client received: {}", what, o.res.short(), e)));
                }
                st.bump("tls_read_interruption_reported");
                return Ok(());
            }
            _ => {}
        }
        st.bump("tls_read_interruption_absorbed");
        judge(&o, false, &what, st)
    }
    fn describe(&self, idx: u64) -> J {
        let (m, at) = self.locate(idx);
        json!({"transport_read": at, "fails_once_with": "Interrupted", "read_boundaries": self.modes[m].0, "reads_of_at_most": self.modes[m].1})
    }
}


/// variations a TLS client is free to make: the legacy record version of the ClientHello record
/// (0x0301 / 0x0302 / 0x0303 / 0x0300) under several schedules, and a handshake response inside
/// TLS that does not repeat the CLIENT_SSL bit
struct ClientQuirks;
impl ClientQuirks {
    fn case(idx: u64) -> (usize, usize) {
        let d = digits(idx, &[6, 7]);
        (d[0] as usize, d[1] as usize)
    }
}
impl Family for ClientQuirks {
    fn name(&self) -> String {
        "tls-client-quirks".into()
    }
    fn len(&self) -> u64 {
        42
    }
    fn run(&self, idx: u64, st: &mut Stats) -> Result<(), Violation> {
        let (quirk, sched) = Self::case(idx);
        let (cuts, uniform) = match sched {
            0 => (vec![], usize::MAX),
            1 => (vec![36], usize::MAX),
            2 => (vec![37], usize::MAX),
            3 => (vec![38], usize::MAX),
            4 => (vec![39], usize::MAX),
            5 => (vec![41], usize::MAX),
            _ => (vec![], 7),
        };
        st.nontrivial += 1;
        st.bump("tls_client_quirks");
        let what = match quirk {
            0 => "ClientHello record version 0x0301",
            1 => "ClientHello record version 0x0302",
            2 => "ClientHello record version 0x0303",
            3 => "ClientHello record version 0x0300",
            4 => "handshake response inside TLS without the CLIENT_SSL bit",
            _ => "handshake response inside TLS in the pre-4.1 layout",
        };
        HELLO_VERSION.with(|w| w.set([Some([3, 1]), Some([3, 2]), Some([3, 3]), Some([3, 0]), None, None][quirk]));
        POST_TLS_WITHOUT_SSL_BIT.with(|w| w.set(quirk == 4));
        INNER_320.with(|w| w.set(quirk == 5));
        let o = run_tls(Some(pki().server_plain.clone()), false, cuts.clone(), uniform);
        let r = judge(&o, false, &format!("{}, cuts {:?}, reads of at most {}", what, cuts, if uniform == usize::MAX { 0 } else { uniform }), st);
        HELLO_VERSION.with(|w| w.set(None));
        POST_TLS_WITHOUT_SSL_BIT.with(|w| w.set(false));
        INNER_320.with(|w| w.set(false));
        st.transitions += o.st.reads as u64;
        r
    }
    fn describe(&self, idx: u64) -> J {
        let (quirk, sched) = Self::case(idx);
        json!({"quirk": quirk, "schedule": sched})
    }
}

/// the command-kind walks of C01 (PREPARE, long data, EXECUTE, CLOSE, queries, PING in every order)
/// inside a TLS session, under whole reads and two small uniform read sizes: what the shim sees and
/// what the client decrypts must be what a plaintext connection would give
pub struct TlsWalks {
    pub depth: usize,
    /// the client sends a command only after it has decrypted every reply owed so far
    pub lockstep: bool,
}
const WALK_READS: [usize; 3] = [usize::MAX, 7, 61];
impl Family for TlsWalks {
    fn name(&self) -> String {
        format!("command-kind-walks-inside-tls-depth-{}{}", self.depth, if self.lockstep { "-lock-step-client" } else { "" })
    }
    fn len(&self) -> u64 {
        super::c01::KIND_WALK_ALPHABET.pow(self.depth as u32) * WALK_READS.len() as u64
    }
    fn run(&self, idx: u64, st: &mut Stats) -> Result<(), Violation> {
        let uniform = WALK_READS[(idx % 3) as usize];
        let (names, cmds, mut expected) = match super::c01::kind_walk(self.depth, idx / 3) {
            Some(x) => x,
            None => {
                st.skipped += 1;
                return Ok(());
            }
        };
        st.nontrivial += 1;
        st.bump(if self.lockstep { "tls_walks_lock_step" } else { "tls_walks" });
        let n = cmds.len();
        SCRIPT_CMDS.with(|c| *c.borrow_mut() = Some(cmds));
        LOCKSTEP.with(|w| w.set(self.lockstep));
        let o = run_tls_full(Some(pki().server_plain.clone()), false, vec![], uniform, 0, false, None, 2);
        LOCKSTEP.with(|w| w.set(false));
        let (_, conv, last_seq) = script_with(2);
        SCRIPT_CMDS.with(|c| *c.borrow_mut() = None);
        let what = format!("{:?} inside TLS{}, reads of at most {} bytes", names, if self.lockstep { " from a lock-step client" } else { "" }, if uniform == usize::MAX { 0 } else { uniform });
        if let ConnResult::Panic(l, m) = &o.res {
            return Err(Violation::new(panic_key(l, m), format!("{}: run_on panicked at {}: {}", what, l, m)));
        }
        if o.st.hang {
            return Err(Violation::new("hang", format!("{}: the server waited for bytes although the client had sent everything it could and was waiting for a reply", what)));
        }
        if let Some(e) = &o.st.tls_error {
            return Err(Violation::new("tls-error", format!("{}: {}", what, e)));
        }
        let g = o.st.greeting_len.unwrap_or(0);
        only_tls_records(&o.st.from_server[g..]).map_err(|e| Violation::new("plaintext-after-switch", format!("{}: {}", what, e)))?;
        if !o.res.is_ok() {
            return Err(Violation::new("result-not-ok", format!("{}: run_on returned {}", what, o.res.short())));
        }
        expected[0] = Cb::Auth { user: Some(b"tls-user".to_vec()), certs: None };
        let got: Vec<Cb> = o
            .log
            .iter()
            .map(|c| match c {
                Cb::Auth { user, certs } => Cb::Auth { user: user.clone(), certs: certs.clone().filter(|c| !c.is_empty()) },
                other => other.clone(),
            })
            .collect();
        if got != expected {
            return Err(Violation::new("commands-differ", format!("{}: callback log {:?}, expected {:?}", what, got.iter().map(cb_short).collect::<Vec<_>>(), expected.iter().map(cb_short).collect::<Vec<_>>())));
        }
        let mut all = o.st.from_server[..g].to_vec();
        all.extend_from_slice(&o.st.decrypted);
        decode_all(&all, &conv, &last_seq, n, false).map_err(|e| Violation::new("decrypted-replies", format!("{}: {}", what, e)))?;
        Ok(())
    }
    fn describe(&self, idx: u64) -> J {
        json!({"walk": super::c01::kind_walk(self.depth, idx / 3).map(|x| x.0), "uniform_read": WALK_READS[(idx % 3) as usize]})
    }
}

/// replies of every size in windows around 16 KiB, 32 KiB and 64 KiB (TLS record and buffer sizes)
/// inside a TLS session: one row with one cell of n bytes, then a PING
pub struct TlsReplySizes {
    pub sizes: Vec<usize>,
}
impl TlsReplySizes {
    fn new(quick: bool) -> Self {
        let mut sizes = Vec::new();
        for c in if quick { vec![16_384usize, 32_768] } else { vec![4_096usize, 8_192, 16_384, 32_768, 49_152, 65_536, 131_072] } {
            sizes.extend(c - 220..=c + 60);
        }
        TlsReplySizes { sizes }
    }
}
impl Family for TlsReplySizes {
    fn name(&self) -> String {
        "reply-sizes-inside-tls".into()
    }
    fn len(&self) -> u64 {
        self.sizes.len() as u64
    }
    fn run(&self, idx: u64, st: &mut Stats) -> Result<(), Violation> {
        let n = self.sizes[idx as usize];
        st.nontrivial += 1;
        st.bump("tls_reply_sizes");
        SCRIPT_CMDS.with(|c| *c.borrow_mut() = Some(vec![q(format!("cell={}", n).as_bytes()), ping()]));
        let o = run_tls_full(Some(pki().server_plain.clone()), false, vec![], usize::MAX, 0, false, None, 2);
        let (_, conv, last_seq) = script_with(2);
        SCRIPT_CMDS.with(|c| *c.borrow_mut() = None);
        let what = format!("a reply with one cell of {} bytes inside TLS", n);
        if let ConnResult::Panic(l, m) = &o.res {
            return Err(Violation::new(panic_key(l, m), format!("{}: run_on panicked at {}: {}", what, l, m)));
        }
        if o.st.hang {
            return Err(Violation::new("hang", format!("{}: the server waited for bytes although the client had sent everything it could and was waiting for a reply", what)));
        }
        if let Some(e) = &o.st.tls_error {
            return Err(Violation::new("tls-error", format!("{}: {}", what, e)));
        }
        let g = o.st.greeting_len.unwrap_or(0);
        only_tls_records(&o.st.from_server[g..]).map_err(|e| Violation::new("plaintext-after-switch", format!("{}: {}", what, e)))?;
        if !o.res.is_ok() {
            return Err(Violation::new("result-not-ok", format!("{}: run_on returned {}", what, o.res.short())));
        }
        let mut all = o.st.from_server[..g].to_vec();
        all.extend_from_slice(&o.st.decrypted);
        let d = decode_all(&all, &conv, &last_seq, 2, false).map_err(|e| Violation::new("decrypted-replies", format!("{}: {}", what, e)))?;
        match &d.replies[0][..] {
            [Unit::ResultSet { rows, end: Ok(_), .. }] if rows.len() == 1 && matches!(&rows[0][0], Cell::Text(t) if t.len() == n) => Ok(()),
            other => Err(Violation::new("decrypted-rows-differ", format!("{}: the reply arrives as {} unit(s)", what, other.len()))),
        }
    }
    fn describe(&self, idx: u64) -> J {
        json!({"cell_bytes": self.sizes[idx as usize]})
    }
}

/// requests of every size in windows around 16 KiB and 32 KiB (TLS record and buffer sizes) inside a
/// TLS session: PREPARE, one long-data chunk of n bytes, EXECUTE, a query of n bytes, a short query.
/// The expected callbacks come from the registry model; the replies are decoded after decryption.
struct TlsRequestSizes {
    sizes: Vec<usize>,
}
impl TlsRequestSizes {
    fn new(quick: bool) -> Self {
        let mut sizes = Vec::new();
        for c in if quick { vec![16_384usize] } else { vec![4_096usize, 8_192, 16_384, 32_768, 49_152, 65_536] } {
            sizes.extend(c - 60..=c + 30);
        }
        TlsRequestSizes { sizes }
    }
}
impl Family for TlsRequestSizes {
    fn name(&self) -> String {
        "request-sizes-inside-tls".into()
    }
    fn len(&self) -> u64 {
        self.sizes.len() as u64 * 2
    }
    fn run(&self, idx: u64, st: &mut Stats) -> Result<(), Violation> {
        use super::model::{Registry, Routed};
        use super::registry::{encode, Action, Bind};
        let n = self.sizes[(idx / 2) as usize];
        let uniform = if idx % 2 == 0 { usize::MAX } else { 4093 };
        st.nontrivial += 1;
        st.bump("tls_request_sizes");
        let mut reg = Registry::default();
        let mut cmds = Vec::new();
        let mut expected = vec![Cb::Auth { user: Some(b"tls-user".to_vec()), certs: None }];
        let data: Vec<u8> = (0..n).map(|k| (k % 249) as u8).collect();
        let mut text = b"SELECT '".to_vec();
        text.extend((0..n - 9).map(|k| b'a' + (k % 26) as u8));
        text.push(b'\'');
        for step in 0..5 {
            let p = match step {
                0 => encode(&reg, &Action::Prepare { id: 1, n: 1, ok: true }, step),
                1 => cmd_long(1, 0, &data),
                2 => encode(&reg, &Action::Exec { id: 1, bind: Bind::C, null_first: false, shim_ignores: 0 }, step),
                3 => with_byte(COM_QUERY, &text),
                _ => with_byte(COM_QUERY, b"tail"),
            };
            match reg.route(&p) {
                Routed::Cb(cb) => expected.push(cb),
                Routed::NoCb => {}
                _ => {
                    st.skipped += 1;
                    return Ok(());
                }
            }
            cmds.push(ClientCmd::new(p));
        }
        let ncmds = cmds.len();
        SCRIPT_CMDS.with(|c| *c.borrow_mut() = Some(cmds));
        let o = run_tls_full(Some(pki().server_plain.clone()), false, vec![], uniform, 0, false, None, 2);
        let (_, conv, last_seq) = script_with(2);
        SCRIPT_CMDS.with(|c| *c.borrow_mut() = None);
        let what = format!("PREPARE, a long-data chunk of {} bytes, EXECUTE, a query of {} bytes, a short query inside TLS, reads of at most {} bytes", n, n, if uniform == usize::MAX { 0 } else { uniform });
        if let ConnResult::Panic(l, m) = &o.res {
            return Err(Violation::new(panic_key(l, m), format!("{}: run_on panicked at {}: {}", what, l, m)));
        }
        if o.st.hang {
            return Err(Violation::new("hang", format!("{}: the server waited for bytes although the client had sent everything it could and was waiting for a reply", what)));
        }
        if let Some(e) = &o.st.tls_error {
            return Err(Violation::new("tls-error", format!("{}: {}", what, e)));
        }
        let g = o.st.greeting_len.unwrap_or(0);
        only_tls_records(&o.st.from_server[g..]).map_err(|e| Violation::new("plaintext-after-switch", format!("{}: {}", what, e)))?;
        if !o.res.is_ok() {
            return Err(Violation::new("result-not-ok", format!("{}: run_on returned {}", what, o.res.short())));
        }
        let got: Vec<Cb> = o
            .log
            .iter()
            .map(|c| match c {
                Cb::Auth { user, certs } => Cb::Auth { user: user.clone(), certs: certs.clone().filter(|c| !c.is_empty()) },
                other => other.clone(),
            })
            .collect();
        if got != expected {
            return Err(Violation::new("commands-differ", format!("{}: callback log {:?}, expected {:?}", what, got.iter().map(cb_short).collect::<Vec<_>>(), expected.iter().map(cb_short).collect::<Vec<_>>())));
        }
        let mut all = o.st.from_server[..g].to_vec();
        all.extend_from_slice(&o.st.decrypted);
        decode_all(&all, &conv, &last_seq, ncmds, false).map_err(|e| Violation::new("decrypted-replies", format!("{}: {}", what, e)))?;
        Ok(())
    }
    fn describe(&self, idx: u64) -> J {
        json!({"request_bytes": self.sizes[(idx / 2) as usize], "uniform_read": if idx % 2 == 0 { 0 } else { 4093 }})
    }
}

/// error replies inside a TLS session: an ERR at once, an ERR behind rows, a refused PREPARE, with
/// messages of every length in windows (empty, short, around the TLS record size), followed by a
/// PING; the client must decode code, SQLSTATE and message exactly as on a plaintext connection
pub struct TlsErrors {
    lens: Vec<usize>,
}
impl TlsErrors {
    pub fn new(quick: bool) -> Self {
        let mut lens: Vec<usize> = (0..40).collect();
        lens.extend([250, 251, 252, 600, 5000]);
        for c in if quick { vec![16_384usize] } else { vec![16_384usize, 32_768, 65_536] } {
            lens.extend(c - 40..=c + 10);
        }
        TlsErrors { lens }
    }
}
impl Family for TlsErrors {
    fn name(&self) -> String {
        "error-replies-inside-tls".into()
    }
    fn len(&self) -> u64 {
        self.lens.len() as u64 * 6 + 1
    }
    fn run(&self, idx: u64, st: &mut Stats) -> Result<(), Violation> {
        if idx == self.lens.len() as u64 * 6 {
            // the login itself is refused inside TLS: the client must decrypt exactly one ERR
            // 1045 / 28000 carrying the id that follows its handshake response
            st.nontrivial += 1;
            st.bump("tls_error_replies");
            AUTH_REJECT.with(|w| w.set(Some(4711)));
            let o = run_tls(Some(pki().server_plain.clone()), false, vec![], usize::MAX);
            AUTH_REJECT.with(|w| w.set(None));
            let what = "a login refused inside TLS";
            if let ConnResult::Panic(l, m) = &o.res {
                return Err(Violation::new(panic_key(l, m), format!("{}: run_on panicked at {}: {}", what, l, m)));
            }
            if o.res != ConnResult::ErrMarker(4711) {
                return Err(Violation::new("reject-result", format!("{}: run_on returned {}", what, o.res.short())));
            }
            if let Some(e) = &o.st.tls_error {
                return Err(Violation::new("tls-error", format!("{}: {}", what, e)));
            }
            let pk = split_packets(&o.st.decrypted).map_err(|e| Violation::new("decrypted-replies", format!("{}: {}", what, e)))?;
            let ok = pk.len() == 1 && pk[0].seq == 3 && parse_err(&o.st.decrypted[pk[0].start..pk[0].start + pk[0].len]).map(|e| e.code == 1045 && e.state == b"28000").unwrap_or(false);
            if !ok {
                return Err(Violation::new("reject-reply-lost", format!("{}: the client decrypted {} bytes in {} packets (first id {:?}), not one ERR 1045/28000 with sequence id 3", what, o.st.decrypted.len(), pk.len(), pk.first().map(|p| p.seq))));
            }
            return Ok(());
        }
        let n = self.lens[(idx / 6) as usize];
        let site = idx % 3;
        // the callback that reported the error then returns Err itself: the client must still get
        // the error, run_on returns the callback's error
        let then_fail = idx % 6 >= 3;
        st.nontrivial += 1;
        st.bump("tls_error_replies");
        let (cmd, kind) = match site {
            0 => (q(format!("err={}", n).as_bytes()), msql_srv::ErrorKind::ER_NO_SUCH_TABLE),
            1 => (q(format!("late={}", n).as_bytes()), msql_srv::ErrorKind::ER_QUERY_INTERRUPTED),
            _ => (ClientCmd::new(with_byte(COM_STMT_PREPARE, format!("refuse={}", n).as_bytes())), msql_srv::ErrorKind::ER_PARSE_ERROR),
        };
        SCRIPT_CMDS.with(|c| *c.borrow_mut() = Some(vec![q(b"SELECT 1"), cmd, ping()]));
        FAIL_AFTER.with(|f| f.set(if then_fail { Some((1, 777)) } else { None }));
        let o = run_tls_full(Some(pki().server_plain.clone()), false, vec![], usize::MAX, 0, false, None, 2);
        FAIL_AFTER.with(|f| f.set(None));
        let (_, conv, last_seq) = script_with(2);
        SCRIPT_CMDS.with(|c| *c.borrow_mut() = None);
        let what = format!("{} with a message of {} bytes inside TLS{}", ["an ERR at once", "an ERR behind two rows", "a refused PREPARE"][site as usize], n, if then_fail { ", the callback then returns Err" } else { "" });
        if let ConnResult::Panic(l, m) = &o.res {
            return Err(Violation::new(panic_key(l, m), format!("{}: run_on panicked at {}: {}", what, l, m)));
        }
        if o.st.hang {
            return Err(Violation::new("hang", format!("{}: the server waited for bytes although the client had sent everything it could and was waiting for a reply", what)));
        }
        if let Some(e) = &o.st.tls_error {
            return Err(Violation::new("tls-error", format!("{}: {}", what, e)));
        }
        let g = o.st.greeting_len.unwrap_or(0);
        only_tls_records(&o.st.from_server[g..]).map_err(|e| Violation::new("plaintext-after-switch", format!("{}: {}", what, e)))?;
        if then_fail {
            if o.res != ConnResult::ErrMarker(777) {
                return Err(Violation::new("late-shim-error-not-returned", format!("{}: run_on returned {}", what, o.res.short())));
            }
        } else if !o.res.is_ok() {
            return Err(Violation::new("result-not-ok", format!("{}: run_on returned {}", what, o.res.short())));
        }
        let mut all = o.st.from_server[..g].to_vec();
        all.extend_from_slice(&o.st.decrypted);
        let d = decode_all(&all, &conv, &last_seq, if then_fail { 2 } else { 4 }, false).map_err(|e| Violation::new(if then_fail { "reported-error-did-not-arrive" } else { "decrypted-replies" }, format!("{}: {}", what, e)))?;
        let e = match d.replies[1].last() {
            Some(Unit::Err(e)) => e.clone(),
            Some(Unit::ResultSet { rows, end: Err(e), .. }) if rows.len() == 2 => e.clone(),
            other => return Err(Violation::new("no-error-packet", format!("{}: the reply ends with {:?}", what, other.map(|u| format!("{:?}", u).chars().take(80).collect::<String>())))),
        };
        if e.code != kind as u16 || e.state != kind.sqlstate().to_vec() || e.msg != tls_err_msg(n) {
            return Err(Violation::new("error-altered-inside-tls", format!("{}: the client decodes code {}, SQLSTATE {:?}, a message of {} bytes", what, e.code, String::from_utf8_lossy(&e.state), e.msg.len())));
        }
        Ok(())
    }
    fn describe(&self, idx: u64) -> J {
        if idx == self.lens.len() as u64 * 6 {
            return json!({"site": "login refused"});
        }
        let site = ["query refused", "error behind rows", "prepare refused"][(idx % 3) as usize];
        json!({"message_bytes": self.lens[(idx / 6) as usize], "site": site, "callback_then_returns_err": idx % 6 >= 3})
    }
}

/// a TLS client that says goodbye properly (close_notify, then end of stream) at every kind of
/// position: right after the TLS handshake and before the login packet, inside the login packet, at
/// the end of it, inside and at the end of the commands behind it. run_on returns Ok exactly when
/// the goodbye comes at a command boundary after a completed login.
struct TlsGoodbyes;
impl TlsGoodbyes {
    fn positions() -> Vec<(usize, bool)> {
        let (bytes, conv, _) = script();
        let ends = conv.stream().ends;
        let mut v = vec![(0usize, false), (1, false), (ends[0] - 1, false)];
        for (i, e) in ends.iter().enumerate() {
            // a boundary behind the login; the script's last command is QUIT
            v.push((*e, true));
            if i + 1 < ends.len() {
                v.push((*e + 1, false));
                v.push((*e + 4, false));
            }
        }
        v.retain(|(p, _)| *p <= bytes.len());
        v
    }
}
impl Family for TlsGoodbyes {
    fn name(&self) -> String {
        "close-notify-at-every-kind-of-position".into()
    }
    fn len(&self) -> u64 {
        Self::positions().len() as u64 * 2
    }
    fn run(&self, idx: u64, st: &mut Stats) -> Result<(), Violation> {
        let (k, boundary) = Self::positions()[(idx / 2) as usize];
        let uniform = if idx % 2 == 0 { usize::MAX } else { 7 };
        st.nontrivial += 1;
        st.bump("tls_goodbyes");
        GOODBYE_AFTER.with(|g| g.set(Some(k)));
        let o = run_tls(Some(pki().server_plain.clone()), false, vec![], uniform);
        GOODBYE_AFTER.with(|g| g.set(None));
        st.transitions += o.st.reads as u64;
        let what = format!("close_notify after {} bytes of the client's MySQL stream ({}), reads of at most {}", k, if k == 0 { "before the login packet" } else if boundary { "a command boundary" } else { "inside a packet" }, if uniform == usize::MAX { 0 } else { uniform });
        if let ConnResult::Panic(l, m) = &o.res {
            return Err(Violation::new(panic_key(l, m), format!("{}: run_on panicked at {}: {}", what, l, m)));
        }
        if o.st.hang {
            return Err(Violation::new("hang", format!("{}: the server kept reading after the client had said goodbye", what)));
        }
        if boundary && !o.res.is_ok() {
            return Err(Violation::new("clean-goodbye-is-an-error", format!("{}: run_on returned {}", what, o.res.short())));
        }
        if !boundary && o.res.is_ok() {
            return Err(Violation::new("early-goodbye-is-ok", format!("{}: run_on returned Ok although the connection ended {}", what, if k == 0 { "before the handshake completed" } else { "inside a packet" })));
        }
        Ok(())
    }
    fn describe(&self, idx: u64) -> J {
        let (k, boundary) = Self::positions()[(idx / 2) as usize];
        json!({"close_notify_after_script_bytes": k, "at_a_command_boundary_behind_the_login": boundary, "uniform_read": if idx % 2 == 0 { 0 } else { 7 }})
    }
}

pub fn build(quick: bool) -> Check {
    let mut families: Vec<Box<dyn Family>> = Vec::new();
    for cc in [false, true] {
        families.push(Box::new(Splits { client_cert: cc, base: baseline_q(cc, quick), mode: 0 }));
        families.push(Box::new(Splits { client_cert: cc, base: baseline(cc), mode: 2 }));
        families.push(Box::new(Splits { client_cert: cc, base: baseline(cc), mode: 1 }));
        if !quick {
            families.push(Box::new(Splits { client_cert: cc, base: baseline(cc), mode: 3 }));
        }
    }
    families.push(Box::new(HelloSizes::new(quick)));
    families.push(Box::new(SslRequests));
    families.push(Box::new(ClientQuirks));
    families.push(Box::new(TlsEof::new(quick, false, false)));
    families.push(Box::new(TlsEof::new(quick, true, false)));
    families.push(Box::new(TlsEof::new(quick, false, true)));
    families.push(Box::new(TlsEof::new(quick, true, true)));
    families.push(Box::new(TlsWriteFaults::new(false)));
    families.push(Box::new(TlsWriteFaults::new(true)));
    families.push(Box::new(TlsReadInterruptions::new()));
    for cc in [false, true] {
        let cfg = if cc { pki().server_client_auth.clone() } else { pki().server_plain.clone() };
        let stream = run_tls_with(Some(cfg), cc, vec![], usize::MAX, 0, true).st.to_server;
        families.push(Box::new(Tls12Splits { positions: split_positions(&stream, quick), client_cert: cc }));
    }
    families.push(Box::new(NoConfig { base: baseline(false) }));
    families.push(Box::new(TlsGoodbyes));
    families.push(Box::new(TlsReplySizes::new(quick)));
    families.push(Box::new(TlsRequestSizes::new(quick)));
    families.push(Box::new(TlsErrors::new(quick)));
    families.push(Box::new(TlsWalks { lockstep: false, depth: 3 }));
    families.push(Box::new(TlsWalks { lockstep: true, depth: 3 }));
    families.push(Box::new(TlsWalks { lockstep: false, depth: if quick { 4 } else { 5 } }));
    Check {
        id: "C18",
        level: "model_checking",
        rule: "a live rustls client inside the transport: SSLRequest (plaintext) immediately followed by the ClientHello, then, once the server's flight arrived, Finished (+ client certificate) coalesced with the encrypted HandshakeResponse41 and six pipelined commands, among them a 20000-byte query (several inbound TLS records) answered by a resultset with a 40000-byte cell and 250 rows (115 KB: several outbound records, more than rustls buffers unsent). Schedules: every single cut position of the whole client->server stream (quick: every position of the first 1600 bytes and within 6 bytes of each TLS record header, every 13th elsewhere), every pair of cut positions within SSLRequest+ClientHello (thorough: every pair within the first 1100 bytes), uniform read sizes 1..64; with and without a client certificate; the single cuts again with a TLS 1.2 client; ClientHello sizes (padded with ALPN names) swept across 3.6-4.2 KB, 7.8-8.3 KB, 15.9-16.5 KB and up to 60 KB, coalesced with the SSL request or not; SSL requests in the pre-4.1 layout (naming another user in the clear) and connection-phase sequence ids other than 1, 2; ClientHello records with legacy versions 0x0300..0x0303 and a handshake response inside TLS that does not repeat CLIENT_SSL; the client's stream ending (without close_notify) at every such position of a TLS 1.3 and a TLS 1.2 session - with all messages in one burst of records and with one record per message; Ok is only acceptable exactly between two TLS records; each transport write of a TLS session failing once with Interrupted / WouldBlock, with an accepting and a rejecting shim; each transport read of a TLS session (SSL request alone or coalesced with the ClientHello, whole and small reads) failing once with Interrupted (retried unnoticed, or reported - but never answered with a fatal TLS alert to the honest client); plus a TLS-requesting client against a shim without TLS configuration under every cut of its first flight. Plus every history of 3-4 (thorough: 5) commands of every kind (PREPARE, long data, EXECUTE, CLOSE, queries, PING) inside a TLS session under whole, 7- and 61-byte reads; replies of every size within -220..+60 bytes of 16 KiB and 32 KiB (thorough: 4..128 KiB) inside TLS; a handshake response inside TLS in the pre-4.1 layout; a client that sends close_notify before the login packet, inside packets and at every command boundary (Ok exactly at boundaries behind the login). Oracle: user name and certificate chain at after_authentication, callback log = script, every server byte after the greeting lies in a well-formed TLS record the client accepts, decrypted replies decode strictly with the right sequence ids, run_on returns Ok; no-config case: Err and no callback.".into(),
        assumptions: vec![
            "ring's randomness is not owned: handshake bytes differ between runs and with a client certificate the stream length varies by a byte or two; cut positions are taken from the stream actually produced, the verdict does not depend on the random values".into(),
            "flush behaviour is C12's subject; here written bytes are visible to the client at once".into(),
        ],
        bounds: json!({"uniform_chunk_max": 64}),
        exhaustive: true,
        caps_hit: vec![],
        families,
        required: vec!["tls_walks", "tls_goodbyes", "tls_reply_sizes", "tls_client_quirks", "tls_eof_inside_a_record", "tls_write_faults", "tls_read_interruptions", "ssl_request_variants", "client_hello_beyond_4096_bytes", "client_hello_in_two_records", "tls12_handshakes", "splits_inside_client_hello", "splits_inside_ssl_request", "ssl_request_coalesced_with_client_hello", "client_chains_delivered", "refusals", "tls_records_from_server"],
    }
}
