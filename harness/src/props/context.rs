//! Values in context (shared by C06, C07, C15): a value that is encoded correctly on its own must
//! be encoded correctly wherever it stands. A *context walk* is a sequence of events on one
//! connection - rows of other shapes (all NULL, NULLs at even / odd positions, 300-byte and
//! 70 000-byte cells), a refused cell, a new resultset in the same response (same columns, other
//! columns, behind a completion, behind a zero-column set, behind a twin of the
//! columns with flipped signedness), a new command in the same or the other
//! protocol, an error ending the resultset - followed by a probe row of characteristic values for
//! nine column types. Every row of the conversation (events and probe) must decode, cell for cell,
//! to what was written; text rows by refwire's text decoding, binary rows by the advertised column
//! definitions.

use super::common::*;
use crate::conv::*;
use crate::engine::*;
use crate::refwire::*;
use crate::shim::*;
use chrono::NaiveDate;
use msql_srv::{Column, ColumnFlags, ColumnType};
use serde_json::{json, Value as J};
use std::sync::Arc;
use std::time::Duration;

pub struct ContextWalks {
    pub prop: &'static str,
    pub depth: usize,
    /// protocol of the first command
    pub start_bin: bool,
}

const N_EVENTS: u64 = 15;
const EVENT_NAMES: [&str; 15] = [
    "row of small values (write_row)",
    "row of NULLs (write_col)",
    "row with 300-byte cells",
    "row with 70000-byte cells",
    "a refused cell (binary: a value too wide for its column), then a row",
    "finish_one + start(same columns)",
    "finish_one + start(two other columns) + a row + finish_one + start",
    "finish; next command, same protocol",
    "finish; next command, other protocol",
    "finish_one + complete_one(3,4) + start",
    "finish_error; next command, same protocol",
    "finish_one + a zero-column set of one row + start",
    "row with NULLs at even positions (write_col)",
    "row with NULLs at odd positions (write_row)",
    "finish_one + start(same names and types, signedness of the integer columns flipped) + a row + finish_one + start",
];
const PROBES: [&str; 4] = ["characteristic values (write_col)", "characteristic values (write_row)", "NULLs at even positions", "NULLs at odd positions"];

fn layout_a() -> Arc<Vec<Column>> {
    let e = ColumnFlags::empty();
    Arc::new(vec![
        col("i", ColumnType::MYSQL_TYPE_LONG, e),
        col("s", ColumnType::MYSQL_TYPE_VAR_STRING, e),
        col("d", ColumnType::MYSQL_TYPE_DOUBLE, e),
        col("t", ColumnType::MYSQL_TYPE_DATETIME, e),
        col("u", ColumnType::MYSQL_TYPE_LONGLONG, ColumnFlags::UNSIGNED_FLAG),
        col("b", ColumnType::MYSQL_TYPE_TINY, e),
        col("x", ColumnType::MYSQL_TYPE_BLOB, e),
        col("e", ColumnType::MYSQL_TYPE_TIME, e),
        col("y", ColumnType::MYSQL_TYPE_DATE, e),
    ])
}
/// layout A with the UNSIGNED flag of every integer column flipped
fn layout_a_flipped() -> Arc<Vec<Column>> {
    Arc::new(
        layout_a()
            .iter()
            .map(|c| {
                let mut c = c.clone();
                if matches!(c.coltype, ColumnType::MYSQL_TYPE_LONG | ColumnType::MYSQL_TYPE_LONGLONG | ColumnType::MYSQL_TYPE_TINY) {
                    c.colflags.toggle(ColumnFlags::UNSIGNED_FLAG);
                }
                c
            })
            .collect(),
    )
}
fn layout_b() -> Arc<Vec<Column>> {
    Arc::new(vec![col("p", ColumnType::MYSQL_TYPE_VAR_STRING, ColumnFlags::empty()), col("q", ColumnType::MYSQL_TYPE_SHORT, ColumnFlags::UNSIGNED_FLAG)])
}

fn probe_row() -> Vec<Val> {
    let d = NaiveDate::from_ymd_opt(2020, 2, 29).unwrap();
    vec![
        Val::I32(i32::MIN),
        Val::Str("h\u{e9}llo w\u{f6}rld".into()),
        Val::F64(-0.1),
        Val::DateTime(d.and_hms_micro_opt(1, 2, 3, 4).unwrap()),
        Val::U64(u64::MAX),
        Val::I8(-128),
        Val::Bytes(vec![0xfb, 0x00, 0xff]),
        Val::Dur(Duration::new(3 * 3600 + 4 * 60 + 5, 0)),
        Val::Date(d),
    ]
}
fn small_row() -> Vec<Val> {
    let d = NaiveDate::from_ymd_opt(2001, 1, 1).unwrap();
    vec![
        Val::I32(1),
        Val::Str("a".into()),
        Val::F64(1.5),
        Val::DateTime(d.and_hms_opt(0, 0, 0).unwrap()),
        Val::U64(0),
        Val::I8(1),
        Val::Bytes(vec![]),
        Val::Dur(Duration::new(0, 0)),
        Val::Date(d),
    ]
}
fn nulls_at(parity: usize, base: Vec<Val>) -> Vec<Val> {
    base.into_iter().enumerate().map(|(i, v)| if i % 2 == parity { Val::Null } else { v }).collect()
}
fn big_row(n: usize) -> Vec<Val> {
    let mut r = small_row();
    r[1] = Val::Str((0..n).map(|i| (b'a' + (i % 26) as u8) as char).collect());
    r[6] = Val::Bytes((0..n).map(|i| (i % 251) as u8).collect());
    r
}

/// the text a conformant client must read for the values used here
fn text_of(v: &Val) -> Option<Vec<u8>> {
    Some(match v {
        Val::Null => return None,
        Val::I32(x) => x.to_string().into_bytes(),
        Val::U64(x) => x.to_string().into_bytes(),
        Val::I8(x) => x.to_string().into_bytes(),
        Val::U16(x) => x.to_string().into_bytes(),
        Val::U32(x) => x.to_string().into_bytes(),
        Val::I64(x) => x.to_string().into_bytes(),
        Val::U8(x) => x.to_string().into_bytes(),
        Val::Str(s) => s.clone().into_bytes(),
        Val::Bytes(b) => b.clone(),
        Val::F64(f) => format!("{}", f).into_bytes(),
        Val::DateTime(d) => {
            use chrono::Timelike;
            if d.nanosecond() == 0 {
                d.format("%Y-%m-%d %H:%M:%S").to_string().into_bytes()
            } else {
                d.format("%Y-%m-%d %H:%M:%S%.6f").to_string().into_bytes()
            }
        }
        Val::Date(d) => d.format("%Y-%m-%d").to_string().into_bytes(),
        Val::Dur(d) => {
            let s = d.as_secs();
            format!("{:02}:{:02}:{:02}", s / 3600, (s % 3600) / 60, s % 60).into_bytes()
        }
        other => panic!("context walks do not use {:?}", val_short(other)),
    })
}

#[derive(Clone)]
enum ExpU {
    Rs { cols: Arc<Vec<Column>>, rows: Vec<Vec<Val>>, err: bool },
    Ok(u64, u64),
}
struct CmdPlan {
    bin: bool,
    wops: Vec<WOp>,
    exp: Vec<ExpU>,
}

struct Builder {
    cmds: Vec<CmdPlan>,
    a: Arc<Vec<Column>>,
}
impl Builder {
    fn cur(&mut self) -> &mut CmdPlan {
        self.cmds.last_mut().unwrap()
    }
    fn command(&mut self, bin: bool) {
        self.cmds.push(CmdPlan { bin, wops: Vec::new(), exp: Vec::new() });
        let a = self.a.clone();
        self.start(a);
    }
    fn start(&mut self, cols: Arc<Vec<Column>>) {
        let c = self.cur();
        c.wops.push(WOp::Start(cols.clone()));
        c.exp.push(ExpU::Rs { cols, rows: Vec::new(), err: false });
    }
    fn row(&mut self, vals: Vec<Val>, by_row: bool) {
        let c = self.cur();
        if by_row {
            c.wops.push(WOp::WriteRow(vals.clone()));
        } else {
            for v in &vals {
                c.wops.push(WOp::WriteCol(v.clone()));
            }
            c.wops.push(WOp::EndRow);
        }
        if let Some(ExpU::Rs { rows, .. }) = c.exp.last_mut() {
            rows.push(vals);
        }
    }
    fn event(&mut self, e: u64) {
        let bin = self.cur().bin;
        let a = self.a.clone();
        match e {
            0 => self.row(small_row(), true),
            1 => self.row(vec![Val::Null; 9], false),
            2 => self.row(big_row(300), true),
            3 => self.row(big_row(70_000), false),
            4 => {
                if bin {
                    self.cur().wops.push(WOp::WriteColRefused(Val::I64(i64::MAX)));
                }
                self.row(small_row(), false);
            }
            5 => {
                self.cur().wops.push(WOp::FinishOne);
                self.start(a);
            }
            6 => {
                self.cur().wops.push(WOp::FinishOne);
                self.start(layout_b());
                self.row(vec![Val::Str("b".into()), Val::U16(65535)], false);
                self.cur().wops.push(WOp::FinishOne);
                self.start(a);
            }
            7 | 8 => {
                self.cur().wops.push(WOp::Finish);
                self.command(if e == 7 { bin } else { !bin });
            }
            9 => {
                let c = self.cur();
                c.wops.push(WOp::FinishOne);
                c.wops.push(WOp::CompleteOne(3, 4));
                c.exp.push(ExpU::Ok(3, 4));
                self.start(a);
            }
            10 => {
                let c = self.cur();
                c.wops.push(WOp::FinishError(msql_srv::ErrorKind::ER_NO, b"stop".to_vec()));
                if let Some(ExpU::Rs { err, .. }) = c.exp.last_mut() {
                    *err = true;
                }
                self.command(bin);
            }
            11 => {
                let c = self.cur();
                c.wops.push(WOp::FinishOne);
                c.wops.push(WOp::Start(Arc::new(Vec::new())));
                c.wops.push(WOp::EndRow);
                c.wops.push(WOp::FinishOne);
                c.exp.push(ExpU::Ok(1, 0));
                self.start(a);
            }
            14 => {
                self.cur().wops.push(WOp::FinishOne);
                self.start(layout_a_flipped());
                // value sources of the flipped signedness (a signed source into an unsigned column
                // may legitimately be refused)
                let mut r = small_row();
                r[0] = Val::U32(1);
                r[4] = Val::I64(0);
                r[5] = Val::U8(1);
                self.row(r, true);
                self.cur().wops.push(WOp::FinishOne);
                self.start(a);
            }
            12 => self.row(nulls_at(0, small_row()), false),
            _ => self.row(nulls_at(1, small_row()), true),
        }
    }
}

impl ContextWalks {
    fn radices(&self) -> Vec<u64> {
        let mut r = vec![PROBES.len() as u64];
        r.extend(std::iter::repeat(N_EVENTS).take(self.depth));
        r
    }
    fn plan(&self, idx: u64) -> (Vec<CmdPlan>, Vec<String>) {
        let d = digits(idx, &self.radices());
        let mut b = Builder { cmds: Vec::new(), a: layout_a() };
        b.command(self.start_bin);
        let mut names = Vec::new();
        for e in &d[1..] {
            b.event(*e);
            names.push(EVENT_NAMES[*e as usize].to_string());
        }
        match d[0] {
            0 => b.row(probe_row(), false),
            1 => b.row(probe_row(), true),
            2 => b.row(nulls_at(0, probe_row()), false),
            _ => b.row(nulls_at(1, probe_row()), true),
        }
        b.cur().wops.push(WOp::Finish);
        names.push(format!("probe: {}", PROBES[d[0] as usize]));
        (b.cmds, names)
    }
}

fn type_code(c: &Column) -> (u8, bool) {
    (c.coltype as u8, c.colflags.contains(ColumnFlags::UNSIGNED_FLAG))
}

impl Family for ContextWalks {
    fn ambient(&self, idx: u64) -> u64 {
        rot(idx)
    }
    fn name(&self) -> String {
        format!("values-in-context-{}-first-depth-{}", if self.start_bin { "binary" } else { "text" }, self.depth)
    }
    fn len(&self) -> u64 {
        self.radices().iter().product()
    }
    fn max_threads(&self) -> Option<usize> {
        None
    }
    fn run(&self, idx: u64, st: &mut Stats) -> Result<(), Violation> {
        let (plans, names) = self.plan(idx);
        st.nontrivial += 1;
        st.bump("context_walks");
        let mut cmds = vec![ClientCmd::new(with_byte(COM_STMT_PREPARE, b"id=1 p=0"))];
        for p in &plans {
            cmds.push(if p.bin { ClientCmd::new(cmd_execute(1, 0, 1, &[])) } else { q(b"x") });
        }
        cmds.push(ping());
        let conv = Conv::new(cmds);
        let s = conv.stream();
        let stream = Arc::new(s.bytes);
        let mut sim = sim_for(&stream, vec![]);
        sim.log_ops = false;
        let progs: Vec<Arc<Vec<WOp>>> = plans.iter().map(|p| Arc::new(p.wops.clone())).collect();
        let mut k = 0usize;
        let behave = Box::new(move |_: usize, cb: &Cb| match cb {
            Cb::Prepare(_) => Behavior::PrepReply { id: 1, params: param_cols(0), cols: param_cols(0) },
            Cb::Query(_) | Cb::Execute { .. } => {
                let p = progs[k].clone();
                k += 1;
                Behavior::Prog(p)
            }
            _ => Behavior::Silent,
        });
        let o = run_conn(sim, ConnCfg::new(behave));
        st.transitions += names.len() as u64;
        let tag = |e: String| format!("{:?}: {}", names, e);
        if let ConnResult::Panic(l, m) = &o.res {
            return Err(Violation::new(panic_key(l, m), tag(format!("run_on panicked at {}: {}", l, m))));
        }
        // only the deliberately refused cell may have been refused
        for c in &o.calls {
            if let Err(e) = &c.res {
                let wop = &plans[c.cb - 2].wops[c.op];
                if !matches!(wop, WOp::WriteColRefused(_)) {
                    return Err(Violation::new("valid-write-refused-in-context", tag(format!("command {} call {} ({}) returned Err({})", c.cb - 2, c.op, wop.short(), e))));
                }
            }
        }
        if !o.res.is_ok() {
            return Err(Violation::new("result-not-ok", tag(format!("run_on returned {}", o.res.short()))));
        }
        let d = decode_all(delivered(&o), &conv, &s.last_seq, conv.cmds.len(), false).map_err(|e| Violation::new("reply-decode-in-context", tag(e)))?;
        for (ci, p) in plans.iter().enumerate() {
            let got = &d.replies[ci + 1];
            if got.len() != p.exp.len() {
                return Err(Violation::new("unit-count-in-context", tag(format!("command {}: {} unit(s) decoded, {} written", ci, got.len(), p.exp.len()))));
            }
            for (ui, (e, u)) in p.exp.iter().zip(got.iter()).enumerate() {
                match (e, u) {
                    (ExpU::Ok(r, i), Unit::Ok { rows, id, .. }) if rows == r && id == i => {}
                    (ExpU::Rs { cols, rows, err }, Unit::ResultSet { rows: grows, end, .. }) if end.is_err() == *err && grows.len() == rows.len() => {
                        for (ri, (want, have)) in rows.iter().zip(grows.iter()).enumerate() {
                            for (k, (v, cell)) in want.iter().zip(have.iter()).enumerate() {
                                let ok = if p.bin {
                                    let (ty, uns) = type_code(&cols[k]);
                                    match super::c07::expected_cell(v, ty, uns) {
                                        None => matches!(v, Val::Null) && *cell == Cell::Null,
                                        Some(b) => super::c07::same_cell(cell, &Cell::Bin(b)),
                                    }
                                } else {
                                    match text_of(v) {
                                        None => *cell == Cell::Null,
                                        Some(t) => super::c06::text_cell_equivalent(v, cell, &Cell::Text(t)),
                                    }
                                };
                                if !ok {
                                    let shown = format!("{:?}", cell);
                                    return Err(Violation::new(
                                        if p.bin { "binary-cell-differs-in-context" } else { "text-cell-differs-in-context" },
                                        tag(format!("command {} unit {} row {} column {}: wrote {}, the client decodes {}", ci, ui, ri, k, val_short(v), shown.chars().take(80).collect::<String>())),
                                    ));
                                }
                            }
                        }
                    }
                    (_, other) => {
                        return Err(Violation::new("unit-differs-in-context", tag(format!("command {} unit {}: the client decodes {}", ci, ui, format!("{:?}", other).chars().take(100).collect::<String>()))));
                    }
                }
            }
        }
        Ok(())
    }
    fn describe(&self, idx: u64) -> J {
        json!({"property": self.prop, "first_command": if self.start_bin { "binary" } else { "text" }, "events": self.plan(idx).1})
    }
}

/// Cells of every type straddling the packet limit: one row = a filler blob followed by the probe
/// row's nine typed cells; the filler is sized so that the 2^24-1 byte limit of the first packet
/// falls at *every* byte position of the typed cells (and a few before / behind them). A cell
/// encoder that does not push all of its bytes through the packet writer (a single `write` whose
/// short count is dropped) loses the part behind the limit. Text or binary protocol.
pub struct BoundaryCells {
    pub prop: &'static str,
    pub bin: bool,
}
impl BoundaryCells {
    /// how many byte positions are swept (the typed cells take less than this in either protocol)
    const SPAN: u64 = 150;
}
impl Family for BoundaryCells {
    fn name(&self) -> String {
        format!("typed-cells-straddling-the-packet-limit-{}", if self.bin { "binary" } else { "text" })
    }
    fn len(&self) -> u64 {
        Self::SPAN
    }
    fn max_threads(&self) -> Option<usize> {
        Some(8)
    }
    fn run(&self, idx: u64, st: &mut Stats) -> Result<(), Violation> {
        st.nontrivial += 1;
        st.bump("boundary_cells");
        let mut cols = vec![col("filler", ColumnType::MYSQL_TYPE_BLOB, ColumnFlags::empty())];
        cols.extend(layout_a().iter().cloned());
        let cols = Arc::new(cols);
        // the filler's data ends (MAXP - 10 + idx) bytes into the row message, give or take its own
        // prefix: the sweep is wide enough to cover every position of the cells behind it
        let filler_len = MAXP - 160 + idx as usize;
        let mut row = vec![Val::Bytes((0..filler_len).map(|i| (i % 249) as u8).collect())];
        row.extend(probe_row());
        let prog = Arc::new(vec![WOp::Start(cols.clone()), WOp::WriteRow(row.clone()), WOp::WriteRow(std::iter::once(Val::Bytes(vec![1, 2, 3])).chain(small_row()).collect()), WOp::Finish]);
        let cmds = vec![ClientCmd::new(with_byte(COM_STMT_PREPARE, b"id=1 p=0")), if self.bin { ClientCmd::new(cmd_execute(1, 0, 1, &[])) } else { q(b"x") }, ping()];
        let conv = Conv::new(cmds);
        let s = conv.stream();
        let stream = Arc::new(s.bytes);
        let mut sim = sim_for(&stream, vec![]);
        sim.log_ops = false;
        let p2 = prog.clone();
        let behave = Box::new(move |_: usize, cb: &Cb| match cb {
            Cb::Prepare(_) => Behavior::PrepReply { id: 1, params: param_cols(0), cols: param_cols(0) },
            Cb::Query(_) | Cb::Execute { .. } => Behavior::Prog(p2.clone()),
            _ => Behavior::Silent,
        });
        let o = run_conn(sim, ConnCfg::new(behave));
        st.transitions += 1;
        let what = format!("{} row: a filler of {} bytes, then nine typed cells across the packet limit", if self.bin { "binary" } else { "text" }, filler_len);
        if let ConnResult::Panic(l, m) = &o.res {
            return Err(Violation::new(panic_key(l, m), format!("{}: run_on panicked at {}: {}", what, l, m)));
        }
        if let Some(bad) = o.calls.iter().find(|c| c.res.is_err()) {
            return Err(Violation::new("valid-write-refused", format!("{}: writer call {} returned {:?}", what, bad.op, bad.res)));
        }
        if !o.res.is_ok() {
            return Err(Violation::new("result-not-ok", format!("{}: run_on returned {}", what, o.res.short())));
        }
        let d = decode_all(delivered(&o), &conv, &s.last_seq, conv.cmds.len(), false).map_err(|e| Violation::new("reply-decode", format!("{}: {}", what, e)))?;
        let rows = match &d.replies[1][..] {
            [Unit::ResultSet { rows, end: Ok(_), .. }] if rows.len() == 2 => rows,
            other => return Err(Violation::new("rows-missing", format!("{}: the reply has {} unit(s)", what, other.len()))),
        };
        for (k, (v, cell)) in row.iter().zip(rows[0].iter()).enumerate() {
            let ok = if self.bin {
                let (ty, uns) = type_code(&cols[k]);
                match super::c07::expected_cell(v, ty, uns) {
                    None => *cell == Cell::Null,
                    Some(b) => super::c07::same_cell(cell, &Cell::Bin(b)),
                }
            } else {
                match text_of(v) {
                    None => *cell == Cell::Null,
                    Some(t) => super::c06::text_cell_equivalent(v, cell, &Cell::Text(t)),
                }
            };
            if !ok {
                let shown = format!("{:?}", cell);
                return Err(Violation::new("cell-differs-at-the-packet-limit", format!("{}: column {}: wrote {}, the client decodes {}", what, k, val_short(v).chars().take(40).collect::<String>(), shown.chars().take(60).collect::<String>())));
            }
        }
        Ok(())
    }
    fn describe(&self, idx: u64) -> J {
        json!({"property": self.prop, "protocol": if self.bin { "binary" } else { "text" }, "filler_bytes": MAXP - 160 + idx as usize})
    }
}
