//! C06 — text-protocol values arrive unchanged: exhaustive small domains, boundary lattices,
//! all dates / times / durations, byte strings across the length classes, row arrangements.

use super::common::*;
use crate::conv::*;
use crate::engine::*;
use crate::refwire::*;
use crate::second;
use crate::shim::*;
use chrono::{Datelike, NaiveDate, Timelike};
use msql_srv::{ColumnFlags, ColumnType, ToMysqlValue};
use serde_json::{json, Value as J};
use std::sync::Arc;
use std::time::Duration;

/// Decode one text cell both ways; None = NULL.
fn decode_cell(bytes: &[u8], what: &str) -> Result<Option<Vec<u8>>, Violation> {
    let row = parse_text_row(bytes, 1).map_err(|e| Violation::new("cell-undecodable", format!("{}: {}", what, e)))?;
    let mine = match &row[0] {
        Cell::Null => None,
        Cell::Text(t) => Some(t.clone()),
        _ => unreachable!(),
    };
    let (v, used) = second::text_value(bytes).map_err(|e| Violation::new("cell-rejected-by-mysql_common", format!("{}: {}", what, e)))?;
    let theirs = match v {
        mysql_common::value::Value::NULL => None,
        mysql_common::value::Value::Bytes(b) => Some(b),
        other => return Err(Violation::new("second-opinion", format!("{}: mysql_common reads {:?}", what, other))),
    };
    if used != bytes.len() || mine != theirs {
        return Err(Violation::new("decoders-disagree", format!("{}: refwire and mysql_common read the cell differently", what)));
    }
    Ok(mine)
}

fn enc<T: ToMysqlValue + ?Sized>(v: &T) -> Result<Vec<u8>, Violation> {
    let mut out = Vec::new();
    match guarded(|| v.to_mysql_text(&mut out)) {
        Ok(Ok(())) => Ok(out),
        Ok(Err(e)) => Err(Violation::new("encode-error", format!("to_mysql_text returned {}", e))),
        Err((l, m)) => Err(Violation::new(panic_key(&l, &m), format!("to_mysql_text panicked at {}: {}", l, m))),
    }
}

fn expect_text<T: ToMysqlValue + ?Sized>(v: &T, what: &str, ok: impl Fn(&[u8]) -> bool) -> Result<(), Violation> {
    let b = enc(v).map_err(|mut e| {
        e.msg = format!("{}: {}", what, e.msg);
        e
    })?;
    match decode_cell(&b, what)? {
        Some(t) if ok(&t) => Ok(()),
        Some(t) => Err(Violation::new(
            format!("value-differs:{}", what.split(' ').next().unwrap_or("")),
            format!("{}: the client decodes {:?}", what, String::from_utf8_lossy(&t[..t.len().min(60)])),
        )),
        None => Err(Violation::new(format!("value-became-null:{}", what.split(' ').next().unwrap_or("")), format!("{}: the client decodes NULL", what))),
    }
}

fn int_ok<T: std::str::FromStr + PartialEq>(v: T) -> impl Fn(&[u8]) -> bool {
    move |t: &[u8]| std::str::from_utf8(t).ok().and_then(|s| s.parse::<T>().ok()).map(|x| x == v).unwrap_or(false)
}

fn lattice_i128(min: i128, max: i128) -> Vec<i128> {
    let mut v = vec![min, min + 1, max - 1, max, 0, 1, -1];
    for k in 0..64 {
        let p = 1i128 << k;
        v.extend([p, p - 1, p + 1, -p, -p - 1, -p + 1]);
    }
    let mut p = 1i128;
    for _ in 0..20 {
        v.extend([p, p - 1, p + 1, -p, -p - 1, -p + 1]);
        p *= 10;
    }
    // decimal shapes: d*10^k, repdigits, ascending digit runs, 25*10^k / 5*10^k, every small value
    let mut p = 1i128;
    for len in 1..=20u32 {
        for d in 1..=9i128 {
            v.extend([d * p, -(d * p)]);
            let mut rep = 0i128;
            for _ in 0..len {
                rep = rep * 10 + d;
            }
            v.extend([rep, -rep]);
        }
        let mut asc = 0i128;
        for i in 0..len {
            asc = asc * 10 + ((i as i128 + 1) % 10);
        }
        v.extend([asc, -asc, 25 * p, -25 * p, 5 * p + 5, 10 * p - 10, 10 * p + 10]);
        p *= 10;
    }
    for x in -20_000i128..=70_000 {
        v.push(x);
    }
    v.retain(|x| *x >= min && *x <= max);
    v.sort();
    v.dedup();
    v
}

fn f64_lattice() -> Vec<f64> {
    let mut v = vec![0.0, -0.0, 1.0, -1.0, 0.1, 1.0 / 3.0, 2.0 / 3.0, 1e-7, 1e21, 1e22, 123456789.125, f64::MAX, f64::MIN, f64::MIN_POSITIVE, f64::EPSILON, 5e-324, 1.7976931348623157e308, 4.9406564584124654e-324, 9007199254740993.0, 0.30000000000000004];
    for k in -1074..1024 {
        v.push(2f64.powi(k));
        v.push(-(2f64.powi(k)) * 1.0000000000000002);
    }
    // decimal shapes: m * 10^k for every exponent and several mantissas
    for k in -330..=308 {
        for m in ["1", "-1", "9.999999999999999", "1.5", "-2.5", "1.2345678901234567", "4.000000000000001"] {
            if let Ok(x) = format!("{}e{}", m, k).parse::<f64>() {
                if x.is_finite() {
                    v.push(x);
                }
            }
        }
    }
    for i in 0..2000 {
        v.push(i as f64 / 8.0 - 100.0);
        v.push(i as f64 * 0.01);
    }
    v
}

fn f32_lattice() -> Vec<f32> {
    let mut v = vec![0.0f32, -0.0, 1.0, -1.0, 0.1, 1.0 / 3.0, 16777217.0, f32::MAX, f32::MIN, f32::MIN_POSITIVE, f32::EPSILON, 1e-45, 3.4028235e38];
    for k in -149..128 {
        v.push(2f32.powi(k));
        v.push(-(2f32.powi(k)) * 1.0000001);
    }
    for k in -46..=38 {
        for m in ["1", "-1", "9.999999", "1.5", "-2.5", "1.2345678"] {
            if let Ok(x) = format!("{}e{}", m, k).parse::<f32>() {
                if x.is_finite() {
                    v.push(x);
                }
            }
        }
    }
    for i in 0..2000 {
        v.push(i as f32 / 8.0 - 100.0);
        v.push(i as f32 * 0.01);
    }
    v
}

const N_SCALAR_JOBS: u64 = 12;

/// integer and float domains at the to_mysql_text seam
struct Scalars {
    thorough: bool,
}
impl Family for Scalars {
    fn name(&self) -> String {
        "scalars".into()
    }
    fn len(&self) -> u64 {
        N_SCALAR_JOBS
    }
    fn run(&self, idx: u64, st: &mut Stats) -> Result<(), Violation> {
        st.nontrivial += 1;
        macro_rules! exhaustive {
            ($t:ty) => {{
                let mut n = 0u64;
                for v in <$t>::MIN..=<$t>::MAX {
                    expect_text(&v, &format!("{} {}", stringify!($t), v), int_ok::<$t>(v))?;
                    n += 1;
                }
                n
            }};
        }
        macro_rules! lattice {
            ($t:ty) => {{
                let mut n = 0u64;
                for x in lattice_i128(<$t>::MIN as i128, <$t>::MAX as i128) {
                    let v = x as $t;
                    expect_text(&v, &format!("{} {}", stringify!($t), v), int_ok::<$t>(v))?;
                    // via Option and reference too
                    expect_text(&Some(v), &format!("Option<{}> Some({})", stringify!($t), v), int_ok::<$t>(v))?;
                    expect_text(&&v, &format!("&{} {}", stringify!($t), v), int_ok::<$t>(v))?;
                    n += 3;
                }
                n
            }};
        }
        let n = match idx {
            0 => exhaustive!(u8),
            1 => exhaustive!(i8),
            2 => exhaustive!(u16),
            3 => exhaustive!(i16),
            4 => lattice!(u32),
            5 => lattice!(i32),
            6 => lattice!(u64) + lattice!(usize),
            7 => lattice!(i64) + lattice!(isize),
            8 => {
                let mut n = 0;
                for v in f64_lattice() {
                    expect_text(&v, &format!("f64 {:e}", v), move |t| std::str::from_utf8(t).ok().and_then(|s| s.parse::<f64>().ok()).map(|x| x.to_bits() == v.to_bits()).unwrap_or(false))?;
                    n += 1;
                }
                n
            }
            9 => {
                let mut n = 0;
                for v in f32_lattice() {
                    expect_text(&v, &format!("f32 {:e}", v), move |t| std::str::from_utf8(t).ok().and_then(|s| s.parse::<f32>().ok()).map(|x| x.to_bits() == v.to_bits()).unwrap_or(false))?;
                    n += 1;
                }
                n
            }
            10 => {
                // generic values
                use mysql_common::value::Value as V;
                let mut n = 0;
                for x in lattice_i128(i64::MIN as i128, i64::MAX as i128) {
                    let v = x as i64;
                    expect_text(&V::Int(v), &format!("Value::Int {}", v), int_ok::<i64>(v))?;
                    n += 1;
                }
                for x in lattice_i128(0, u64::MAX as i128) {
                    let v = x as u64;
                    expect_text(&V::UInt(v), &format!("Value::UInt {}", v), int_ok::<u64>(v))?;
                    n += 1;
                }
                for v in f64_lattice() {
                    expect_text(&V::Double(v), &format!("Value::Double {:e}", v), move |t| std::str::from_utf8(t).ok().and_then(|s| s.parse::<f64>().ok()).map(|x| x.to_bits() == v.to_bits()).unwrap_or(false))?;
                    n += 1;
                }
                for v in f32_lattice() {
                    expect_text(&V::Float(v), &format!("Value::Float {:e}", v), move |t| std::str::from_utf8(t).ok().and_then(|s| s.parse::<f32>().ok()).map(|x| x.to_bits() == v.to_bits()).unwrap_or(false))?;
                    n += 1;
                }
                expect_text(&V::Bytes(b"NULL".to_vec()), "Value::Bytes NULL-text", |t| t == b"NULL")?;
                expect_text(&V::Date(2024, 2, 29, 23, 59, 58, 7), "Value::Date 2024-02-29 23:59:58.000007", |t| t.len() >= 19 && parse_date(&t[..10]) == Some((2024, 2, 29)) && parse_time(&t[11..]) == Some((23, 59, 58, 7)))?;
                expect_text(&V::Date(1, 1, 1, 0, 0, 0, 0), "Value::Date 0001-01-01", |t| t.len() >= 19 && parse_date(&t[..10]) == Some((1, 1, 1)) && parse_time(&t[11..]) == Some((0, 0, 0, 0)))?;
                expect_text(&V::Time(false, 34, 22, 59, 59, 999999), "Value::Time 838:59:59.999999", |t| parse_time(t) == Some((838, 59, 59, 999999)))?;
                expect_text(&V::Time(false, 0, 0, 0, 0, 0), "Value::Time zero", |t| parse_time(t) == Some((0, 0, 0, 0)))?;
                // NULLs stay distinguishable
                for (what, b) in [("None::<i32>", enc(&None::<i32>)?), ("Value::NULL", enc(&V::NULL)?), ("None::<String>", enc(&None::<String>)?)] {
                    if decode_cell(&b, what)?.is_some() {
                        return Err(Violation::new("null-not-null", format!("{} is not decoded as NULL", what)));
                    }
                    n += 1;
                }
                expect_text("", "str empty", |t| t.is_empty())?;
                expect_text("NULL", "str NULL-text", |t| t == b"NULL")?;
                expect_text(&Some(String::new()), "Option<String> Some(empty)", |t| t.is_empty())?;
                n + 8
            }
            _ => {
                if !self.thorough {
                    return Ok(());
                }
                0
            }
        };
        st.evals += n.saturating_sub(1);
        st.add("scalar_values", n);
        Ok(())
    }
    fn describe(&self, idx: u64) -> J {
        let names = ["u8 exhaustive", "i8 exhaustive", "u16 exhaustive", "i16 exhaustive", "u32 lattice", "i32 lattice", "u64+usize lattice", "i64+isize lattice", "f64 lattice", "f32 lattice", "generic values and NULLs", "-"];
        json!(names[idx as usize])
    }
}

/// thorough: every u32, i32 and finite f32
struct Exhaustive32 {
    which: u8,
}
const CHUNK: u64 = 1 << 18;
impl Family for Exhaustive32 {
    fn name(&self) -> String {
        format!("exhaustive-{}", ["u32", "i32", "f32"][self.which as usize])
    }
    fn len(&self) -> u64 {
        (1u64 << 32) / CHUNK
    }
    fn run(&self, idx: u64, st: &mut Stats) -> Result<(), Violation> {
        st.nontrivial += 1;
        st.evals += CHUNK - 1;
        let mut buf: Vec<u8> = Vec::with_capacity(64);
        for k in 0..CHUNK {
            let raw = (idx * CHUNK + k) as u32;
            buf.clear();
            let (r, ok): (std::io::Result<()>, Box<dyn Fn(&str) -> bool>) = match self.which {
                0 => (raw.to_mysql_text(&mut buf), Box::new(move |s| s.parse::<u32>().ok() == Some(raw))),
                1 => ((raw as i32).to_mysql_text(&mut buf), Box::new(move |s| s.parse::<i32>().ok() == Some(raw as i32))),
                _ => {
                    let f = f32::from_bits(raw);
                    if !f.is_finite() {
                        continue;
                    }
                    (f.to_mysql_text(&mut buf), Box::new(move |s| s.parse::<f32>().ok().map(|x| x.to_bits()) == Some(raw)))
                }
            };
            if let Err(e) = r {
                return Err(Violation::new("encode-error", format!("raw {:#x}: {}", raw, e)));
            }
            // a text cell: one length byte (< 251) then the text
            let n = buf[0] as usize;
            if n >= 251 || buf.len() != n + 1 || !std::str::from_utf8(&buf[1..]).map(|s| ok(s)).unwrap_or(false) {
                return Err(Violation::new(format!("value-differs:{}", self.name()), format!("raw {:#x} is sent as {:?}", raw, String::from_utf8_lossy(&buf))));
            }
        }
        Ok(())
    }
    fn describe(&self, idx: u64) -> J {
        json!({"raw_values": format!("{:#x}..{:#x}", idx * CHUNK, (idx + 1) * CHUNK)})
    }
}

fn parse_date(t: &[u8]) -> Option<(i32, u32, u32)> {
    if t.len() != 10 || t[4] != b'-' || t[7] != b'-' {
        return None;
    }
    let s = std::str::from_utf8(t).ok()?;
    if !s.bytes().enumerate().all(|(i, b)| if i == 4 || i == 7 { b == b'-' } else { b.is_ascii_digit() }) {
        return None;
    }
    Some((s[0..4].parse().ok()?, s[5..7].parse().ok()?, s[8..10].parse().ok()?))
}

/// "HH:MM:SS[.ffffff]" with two or more hour digits
pub(crate) fn parse_time(t: &[u8]) -> Option<(u64, u32, u32, u32)> {
    let s = std::str::from_utf8(t).ok()?;
    let (hms, us) = match s.split_once('.') {
        Some((a, b)) => {
            if b.len() != 6 || !b.bytes().all(|c| c.is_ascii_digit()) {
                return None;
            }
            (a, b.parse().ok()?)
        }
        None => (s, 0u32),
    };
    let p: Vec<&str> = hms.split(':').collect();
    if p.len() != 3 || p[0].len() < 2 || p[1].len() != 2 || p[2].len() != 2 || !p.iter().all(|x| x.bytes().all(|c| c.is_ascii_digit())) {
        return None;
    }
    Some((p[0].parse().ok()?, p[1].parse().ok()?, p[2].parse().ok()?, us))
}

const US: [u32; 4] = [0, 1, 500_000, 999_999];
/// microsecond values of every decimal shape (leading zeros, trailing zeros, all digits)
pub const USX: [u32; 22] = [0, 1, 9, 10, 99, 100, 101, 999, 1000, 9999, 10_000, 99_999, 100_000, 100_001, 123_456, 500_000, 654_321, 900_000, 909_090, 999_000, 999_990, 999_999];

/// all calendar dates of years 0..=9999 (chunked by year), all times of day, all durations
struct Temporal {
    #[allow(dead_code)]
    quick: bool,
}
impl Family for Temporal {
    fn name(&self) -> String {
        "dates-times-durations".into()
    }
    fn len(&self) -> u64 {
        10000 + 24 + 839 + 1
    }
    fn run(&self, idx: u64, st: &mut Stats) -> Result<(), Violation> {
        st.nontrivial += 1;
        let mut n = 0u64;
        if idx == 10000 + 24 + 839 {
            // microsecond values of every decimal shape, at a few times of day and durations
            let base = NaiveDate::from_ymd_opt(2024, 2, 29).unwrap();
            for us in USX {
                for (h, m, s) in [(0u32, 0u32, 0u32), (0, 0, 1), (12, 34, 56), (23, 59, 59), (9, 5, 7)] {
                    let dt = base.and_hms_micro_opt(h, m, s, us).unwrap();
                    expect_text(&dt, &format!("NaiveDateTime {}", dt), move |t| t.len() >= 19 && parse_date(&t[..10]) == Some((2024, 2, 29)) && t[10] == b' ' && parse_time(&t[11..]) == Some((h as u64, m, s, us)))?;
                    n += 1;
                }
                for hours in [0u64, 1, 23, 24, 25, 47, 48, 100, 240, 815, 816, 838] {
                    for (m, s) in [(0u64, 0u64), (59, 59), (7, 3)] {
                        let d = Duration::new(hours * 3600 + m * 60 + s, us * 1000);
                        expect_text(&d, &format!("Duration {}:{:02}:{:02}.{:06}", hours, m, s, us), move |t| parse_time(t) == Some((hours, m as u32, s as u32, us)))?;
                        n += 1;
                    }
                }
            }
            st.add("microsecond_shapes", n);
            st.evals += n.saturating_sub(1);
            return Ok(());
        }
        if idx < 10000 {
            // every day of year `idx`
            let y = idx as i32;
            let mut d = NaiveDate::from_ymd_opt(y, 1, 1).unwrap();
            while d.year() == y {
                let (yy, mm, dd) = (d.year(), d.month(), d.day());
                expect_text(&d, &format!("NaiveDate {}", d), move |t| parse_date(t) == Some((yy, mm, dd)))?;
                n += 1;
                if dd == 1 || dd == 28 {
                    // as a datetime at a time that depends on the day
                    let us = US[(d.ordinal() % 4) as usize];
                    let dt = d.and_hms_micro_opt(d.ordinal() % 24, mm * 4, dd, us).unwrap();
                    expect_text(&dt, &format!("NaiveDateTime {}", dt), move |t| {
                        if t.len() < 19 || t[10] != b' ' {
                            return false;
                        }
                        parse_date(&t[..10]) == Some((yy, mm, dd)) && parse_time(&t[11..]) == Some((dt.hour() as u64, dt.minute(), dt.second(), us))
                    })?;
                    n += 1;
                }
                d = match d.succ_opt() {
                    Some(x) => x,
                    None => break,
                };
            }
            st.add("dates", n);
        } else if idx < 10024 {
            // every second of hour h x microsecond set, as a datetime
            let h = (idx - 10000) as u32;
            let base = NaiveDate::from_ymd_opt(2023, 12, 31).unwrap();
            for m in 0..60 {
                for s in 0..60 {
                    for us in US {
                        let dt = base.and_hms_micro_opt(h, m, s, us).unwrap();
                        expect_text(&dt, &format!("NaiveDateTime {}", dt), move |t| t.len() >= 19 && parse_date(&t[..10]) == Some((2023, 12, 31)) && t[10] == b' ' && parse_time(&t[11..]) == Some((h as u64, m, s, us)))?;
                        n += 1;
                    }
                }
            }
            st.add("times_of_day", n);
        } else {
            // every second of hour H (0..=838) x microsecond set, as a Duration
            let h = idx - 10024;
            for m in 0..60u64 {
                for s in 0..60u64 {
                    for us in US {
                        let d = Duration::new(h * 3600 + m * 60 + s, us * 1000);
                        expect_text(&d, &format!("Duration {}:{:02}:{:02}.{:06}", h, m, s, us), move |t| parse_time(t) == Some((h, m as u32, s as u32, us)))?;
                        n += 1;
                    }
                }
            }
            st.add("durations", n);
        }
        st.evals += n.saturating_sub(1);
        Ok(())
    }
    fn describe(&self, idx: u64) -> J {
        if idx == 10000 + 24 + 839 {
            json!({"microseconds": USX, "at": "5 times of day and 36 durations"})
        } else if idx < 10000 {
            json!({"every_day_of_year": idx})
        } else if idx < 10024 {
            json!({"every_second_of_hour": idx - 10000, "microseconds": US})
        } else {
            json!({"every_second_of_duration_hour": idx - 10024, "microseconds": US})
        }
    }
}

fn byte_lengths(quick: bool) -> Vec<usize> {
    let mut v: Vec<usize> = (0..=300).collect();
    v.extend([65534, 65535, 65536, 65537]);
    if !quick {
        v.extend([(1 << 24) - 1, 1 << 24, (1 << 24) + 1]);
    }
    v
}

/// byte strings of every length across the length-encoding classes, several content patterns
struct Bytes {
    lens: Vec<usize>,
}
impl Family for Bytes {
    fn name(&self) -> String {
        "byte-strings".into()
    }
    fn len(&self) -> u64 {
        self.lens.len() as u64 * 6
    }
    fn max_threads(&self) -> Option<usize> {
        Some(8)
    }
    fn run(&self, idx: u64, st: &mut Stats) -> Result<(), Violation> {
        let len = self.lens[(idx / 6) as usize];
        let pat = idx % 6;
        let lead = [0x00u8, 0xfb, 0xfc, 0xfd, 0xfe, 0xff][pat as usize];
        let data: Vec<u8> = (0..len).map(|i| if i == 0 { lead } else { ((i * 131 + pat as usize * 17) % 256) as u8 }).collect();
        if len > 250 {
            st.nontrivial += 1;
        }
        if len >= 65536 {
            st.bump("strings_beyond_65535");
        }
        let what = format!("bytes len {} lead {:#x}", len, lead);
        let d2 = data.clone();
        expect_text(&data[..], &what, move |t| t == &d2[..])?;
        let d3 = data.clone();
        expect_text(&data, &format!("Vec<u8> {}", what), move |t| t == &d3[..])?;
        if len <= 300 {
            // as str/String when valid UTF-8 is wanted: use an ASCII pattern of the same length
            let s: String = (0..len).map(|i| (b' ' + ((i * 7 + pat as usize) % 90) as u8) as char).collect();
            let sb = s.clone().into_bytes();
            let sb2 = sb.clone();
            expect_text(s.as_str(), &format!("str len {}", len), move |t| t == &sb[..])?;
            expect_text(&Some(s), &format!("Option<String> len {}", len), move |t| t == &sb2[..])?;
        }
        Ok(())
    }
    fn describe(&self, idx: u64) -> J {
        let lead = [0x00u8, 0xfb, 0xfc, 0xfd, 0xfe, 0xff][(idx % 6) as usize];
        json!({"length": self.lens[(idx / 6) as usize], "first_byte": lead})
    }
}

fn palette() -> Vec<(Val, Option<Vec<u8>>)> {
    let d = NaiveDate::from_ymd_opt(2020, 2, 29).unwrap();
    vec![
        (Val::Null, None),
        (Val::Str(String::new()), Some(vec![])),
        (Val::Str("NULL".into()), Some(b"NULL".to_vec())),
        (Val::I64(-9223372036854775808), Some(b"-9223372036854775808".to_vec())),
        (Val::U64(u64::MAX), Some(b"18446744073709551615".to_vec())),
        (Val::Bytes(vec![0xfb, 0x00, 0xff]), Some(vec![0xfb, 0x00, 0xff])),
        (Val::Bytes(vec![b'z'; 251]), Some(vec![b'z'; 251])),
        (Val::F64(-0.1), Some(b"-0.1".to_vec())),
        (Val::Date(d), Some(b"2020-02-29".to_vec())),
        (Val::DateTime(d.and_hms_micro_opt(1, 2, 3, 4).unwrap()), Some(b"2020-02-29 01:02:03.000004".to_vec())),
        (Val::Dur(Duration::new(3 * 3600 + 4 * 60 + 5, 0)), Some(b"03:04:05".to_vec())),
        (Val::OptI32(None), None),
        (Val::OptStr(Some("x".into())), Some(b"x".to_vec())),
        (Val::Myc(mysql_common::value::Value::NULL), None),
        (Val::U8(0), Some(b"0".to_vec())),
        // bit twins of other palette entries: same width, same bits, another type
        (Val::I64(-1), Some(b"-1".to_vec())),
        (Val::U64(1 << 63), Some(b"9223372036854775808".to_vec())),
        (Val::I32(-1), Some(b"-1".to_vec())),
        (Val::U32(u32::MAX), Some(b"4294967295".to_vec())),
    ]
}

/// equal, or — for floats and temporal values — another spelling of the same value
pub(crate) fn text_cell_equivalent(v: &Val, got: &Cell, want: &Cell) -> bool {
    if got == want {
        return true;
    }
    let (g, w) = match (got, want) {
        (Cell::Text(g), Cell::Text(w)) => (g, w),
        _ => return false,
    };
    match v {
        Val::F64(_) | Val::F32(_) => {
            let p = |b: &[u8]| std::str::from_utf8(b).ok().and_then(|s| s.parse::<f64>().ok()).map(|x| x.to_bits());
            p(g).is_some() && p(g) == p(w)
        }
        Val::Dur(_) => parse_time(g).is_some() && parse_time(g) == parse_time(w),
        Val::DateTime(_) => g.len() >= 19 && w.len() >= 19 && g[..11] == w[..11] && parse_time(&g[11..]).is_some() && parse_time(&g[11..]) == parse_time(&w[11..]),
        _ => false,
    }
}

/// row/column arrangements through write_col / write_row and the real run_on
struct Rows {
    pal: Vec<(Val, Option<Vec<u8>>)>,
    small: u64,
}
impl Rows {
    fn layout(&self, idx: u64) -> (usize, usize, Vec<usize>, bool) {
        let p = self.pal.len() as u64;
        if idx < self.small {
            // all arrangements with up to 3 cells: (r,c) in {(1,1),(1,2),(2,1),(1,3),(3,1)}
            let mut i = idx;
            for (r, c) in [(1usize, 1usize), (1, 2), (2, 1), (1, 3), (3, 1)] {
                let n = p.pow((r * c) as u32) * 2;
                if i < n {
                    let by_row = i % 2 == 1;
                    let d = digits(i / 2, &vec![p; r * c]);
                    return (r, c, d.iter().map(|x| *x as usize).collect(), by_row);
                }
                i -= n;
            }
            unreachable!()
        }
        // rotations for larger shapes
        let i = idx - self.small;
        let shapes = [(2usize, 2usize), (2, 3), (3, 2), (2, 4), (3, 3), (3, 4), (1, 4)];
        let per = p * 2;
        let (r, c) = shapes[(i / per) as usize];
        let off = ((i % per) / 2) as usize;
        let by_row = i % 2 == 1;
        (r, c, (0..r * c).map(|k| (off + k * 5) % p as usize).collect(), by_row)
    }
}
impl Family for Rows {
    fn ambient(&self, idx: u64) -> u64 {
        crate::engine::rot(idx)
    }
    fn name(&self) -> String {
        "row-arrangements".into()
    }
    fn len(&self) -> u64 {
        self.small + 7 * self.pal.len() as u64 * 2
    }
    fn run(&self, idx: u64, st: &mut Stats) -> Result<(), Violation> {
        let (r, c, cells, by_row) = self.layout(idx);
        st.nontrivial += 1;
        st.bump("row_arrangements");
        let cols = Arc::new((0..c).map(|i| col(&format!("c{}", i), ColumnType::MYSQL_TYPE_VAR_STRING, ColumnFlags::empty())).collect::<Vec<_>>());
        let mut prog = vec![WOp::Start(cols)];
        for i in 0..r {
            let vals: Vec<Val> = (0..c).map(|j| self.pal[cells[i * c + j]].0.clone()).collect();
            if by_row {
                prog.push(WOp::WriteRow(vals));
            } else {
                for v in vals {
                    prog.push(WOp::WriteCol(v));
                }
                prog.push(WOp::EndRow);
            }
        }
        prog.push(WOp::Finish);
        let conv = Conv::new(vec![q(b"x"), ping()]);
        let s = conv.stream();
        let stream = Arc::new(s.bytes);
        let mut sim = sim_for(&stream, vec![]);
        sim.log_ops = false;
        let prog = Arc::new(prog);
        let behave = Box::new(move |_: usize, cb: &Cb| match cb {
            Cb::Query(_) => Behavior::Prog(prog.clone()),
            _ => Behavior::Silent,
        });
        let o = run_conn(sim, ConnCfg::new(behave));
        st.transitions += (r * c) as u64;
        if let ConnResult::Panic(l, m) = &o.res {
            return Err(Violation::new(panic_key(l, m), format!("run_on panicked at {}: {}", l, m)));
        }
        if !o.res.is_ok() {
            return Err(Violation::new("result-not-ok", format!("run_on returned {}", o.res.short())));
        }
        let d = decode_all(delivered(&o), &conv, &s.last_seq, 2, false).map_err(|e| Violation::new("reply-decode", e))?;
        match &d.replies[0][..] {
            [Unit::ResultSet { rows, end: Ok(_), .. }] if rows.len() == r => {
                for i in 0..r {
                    for j in 0..c {
                        let want = match &self.pal[cells[i * c + j]].1 {
                            None => Cell::Null,
                            Some(b) => Cell::Text(b.clone()),
                        };
                        if !text_cell_equivalent(&self.pal[cells[i * c + j]].0, &rows[i][j], &want) {
                            return Err(Violation::new("cell-differs", format!("row {} column {}: wrote {:?}, client decodes {:?}", i, j, val_short(&self.pal[cells[i * c + j]].0), rows[i][j])));
                        }
                    }
                }
            }
            other => return Err(Violation::new("rows-differ", format!("{} rows of {} cells written, reply is {:?}", r, c, other.iter().map(|u| format!("{:?}", u).chars().take(80).collect::<String>()).collect::<Vec<_>>()))),
        }
        Ok(())
    }
    fn describe(&self, idx: u64) -> J {
        let (r, c, cells, by_row) = self.layout(idx);
        json!({"rows": r, "columns": c, "cells": cells.iter().map(|k| val_short(&self.pal[*k].0)).collect::<Vec<_>>(), "api": if by_row {"write_row"} else {"write_col+end_row"}})
    }
}

/// what a client makes of a string cell: it decodes the bytes in the character set the column
/// definition names. UTF-8 families and `binary` give the bytes back as written; for a single-byte
/// character set every byte is one character. None = a character set this harness does not know
/// (undecided, never an alarm).
fn client_text(bytes: &[u8], charset: u16) -> Option<String> {
    const UTF8: [u16; 6] = [33, 45, 46, 63, 76, 83];
    const SINGLE_BYTE: [u16; 14] = [5, 8, 9, 11, 15, 26, 31, 47, 48, 49, 51, 65, 92, 94];
    if UTF8.contains(&charset) || (192..=247).contains(&charset) || (255..=323).contains(&charset) {
        return String::from_utf8(bytes.to_vec()).ok();
    }
    if SINGLE_BYTE.contains(&charset) {
        return Some(bytes.iter().map(|b| *b as char).collect());
    }
    None
}

/// text beyond ASCII, written as `&str`, to clients that answered the greeting in every way the
/// harness knows (one of them names a latin1 collation): what the client decodes - in the
/// character set the column definition names - must be the string written
struct TextBeyondAscii;
const TEXTS: [&str; 8] = ["plain", "J\u{fc}rgen", "na\u{ef}ve caf\u{e9}", "\u{65e5}\u{672c}\u{8a9e}", "\u{1f600} ok", "\u{df}", "a\u{300}", "\u{fffd}"];
impl Family for TextBeyondAscii {
    fn name(&self) -> String {
        "text-beyond-ascii-x-handshakes".into()
    }
    fn len(&self) -> u64 {
        TEXTS.len() as u64 * N_HANDSHAKE_VARIANTS * 3
    }
    fn run(&self, idx: u64, st: &mut Stats) -> Result<(), Violation> {
        let d = digits(idx, &[TEXTS.len() as u64, N_HANDSHAKE_VARIANTS, 3]);
        let text = TEXTS[d[0] as usize];
        let (hs, hs_what) = handshake_variant(d[1]);
        let ty = [ColumnType::MYSQL_TYPE_VAR_STRING, ColumnType::MYSQL_TYPE_STRING, ColumnType::MYSQL_TYPE_VARCHAR][d[2] as usize];
        st.nontrivial += 1;
        st.bump("texts_beyond_ascii");
        let cols = Arc::new(vec![col("s", ty, ColumnFlags::empty()), col("t", ty, ColumnFlags::empty())]);
        let prog = Arc::new(vec![WOp::Start(cols), WOp::WriteCol(Val::Str(text.into())), WOp::WriteCol(Val::OptStr(Some(text.into()))), WOp::EndRow, WOp::Finish]);
        let mut conv = Conv::new(vec![q(b"x"), ping()]);
        conv.handshake = hs;
        let s = conv.stream();
        let stream = Arc::new(s.bytes);
        let mut sim = sim_for(&stream, vec![]);
        sim.log_ops = false;
        let behave = Box::new(move |_: usize, cb: &Cb| match cb {
            Cb::Query(_) => Behavior::Prog(prog.clone()),
            _ => Behavior::Silent,
        });
        let o = run_conn(sim, ConnCfg::new(behave));
        st.transitions += 2;
        let what = format!("{:?} as &str and Option<String> into {:?} columns [{}]", text, ty, hs_what);
        if let ConnResult::Panic(l, m) = &o.res {
            return Err(Violation::new(panic_key(l, m), format!("{}: run_on panicked at {}: {}", what, l, m)));
        }
        if !o.res.is_ok() {
            return Err(Violation::new("result-not-ok", format!("{}: run_on returned {}", what, o.res.short())));
        }
        let dd = decode_all(delivered(&o), &conv, &s.last_seq, 2, false).map_err(|e| Violation::new("reply-decode", format!("{}: {}", what, e)))?;
        match &dd.replies[0][..] {
            [Unit::ResultSet { cols, rows, end: Ok(_) }] if rows.len() == 1 && cols.len() == 2 => {
                for j in 0..2 {
                    let bytes = match &rows[0][j] {
                        Cell::Text(b) => b,
                        other => return Err(Violation::new("cell-differs", format!("{}: cell {} decodes as {:?}", what, j, other))),
                    };
                    match client_text(bytes, cols[j].charset) {
                        Some(t) if t == text => {}
                        Some(t) => return Err(Violation::new("text-differs-in-the-declared-character-set", format!("{}: the column definition names character set {}, in which the client reads {:?}", what, cols[j].charset, t))),
                        None if text.is_ascii() && bytes == text.as_bytes() => {}
                        None => st.bump("undecided_character_sets"),
                    }
                }
                Ok(())
            }
            other => Err(Violation::new("rows-differ", format!("{}: reply is {:?}", what, other.iter().map(|u| format!("{:?}", u).chars().take(80).collect::<String>()).collect::<Vec<_>>()))),
        }
    }
    fn describe(&self, idx: u64) -> J {
        let d = digits(idx, &[TEXTS.len() as u64, N_HANDSHAKE_VARIANTS, 3]);
        json!({"text": TEXTS[d[0] as usize], "handshake": handshake_variant(d[1]).1, "column_type": d[2]})
    }
}

/// a text value whose encoding is refused, followed by a replacement for the same column: the
/// cells written before and after must arrive unchanged
struct RecoverText;
impl Family for RecoverText {
    fn ambient(&self, idx: u64) -> u64 {
        crate::engine::rot(idx)
    }
    fn name(&self) -> String {
        "refused-text-cell-then-replacement".into()
    }
    fn len(&self) -> u64 {
        2 * 4 * 2
    }
    fn run(&self, idx: u64, st: &mut Stats) -> Result<(), Violation> {
        use mysql_common::value::Value as V;
        let d = digits(idx, &[2, 4, 2]);
        let bad = if d[0] == 0 { Val::Myc(V::Date(2021, 13, 1, 0, 0, 0, 0)) } else { Val::Myc(V::Time(true, 0, 1, 0, 0, 0)) };
        let pos = d[1] as usize;
        let second_row = d[2] == 1;
        st.nontrivial += 1;
        st.bump("text_recoveries");
        let cols = Arc::new((0..4).map(|i| col(&format!("c{}", i), ColumnType::MYSQL_TYPE_VAR_STRING, ColumnFlags::empty())).collect::<Vec<_>>());
        let mut prog = vec![WOp::Start(cols)];
        if second_row {
            prog.push(WOp::WriteRow((0..4).map(|i| Val::I32(100 + i)).collect()));
        }
        for i in 0..4 {
            if i == pos {
                prog.push(WOp::WriteColOr(bad.clone(), Val::Null));
            } else {
                prog.push(WOp::WriteCol(Val::Str(format!("cell{}", i))));
            }
        }
        prog.push(WOp::EndRow);
        prog.push(WOp::Finish);
        let conv = Conv::new(vec![q(b"x"), ping()]);
        let s = conv.stream();
        let stream = Arc::new(s.bytes);
        let mut sim = sim_for(&stream, vec![]);
        sim.log_ops = false;
        let prog = Arc::new(prog);
        let o = run_conn(sim, ConnCfg::new(Box::new(move |_, cb| match cb {
            Cb::Query(_) => Behavior::Prog(prog.clone()),
            _ => Behavior::Silent,
        })));
        if let ConnResult::Panic(l, m) = &o.res {
            return Err(Violation::new(panic_key(l, m), format!("run_on panicked at {}: {}", l, m)));
        }
        let first_refused = o.calls.iter().any(|c| c.res.as_ref().err().map(|e| e == "first alternative refused").unwrap_or(false));
        if !first_refused {
            return Err(Violation::new("bad-cell-accepted", format!("{} at column {} was accepted", val_short(&bad), pos)));
        }
        if o.calls.iter().any(|c| c.res.as_ref().err().map(|e| e != "first alternative refused").unwrap_or(false)) {
            st.bump("recovery_not_supported");
            return match decode_all(delivered(&o), &conv, &s.last_seq, 1, true) {
                Ok(_) => Ok(()),
                Err(e) if e.contains("server output ends where") => Ok(()),
                Err(e) => Err(Violation::new("refused-but-emitted", e)),
            };
        }
        if !o.res.is_ok() {
            return Err(Violation::new("result-not-ok", format!("run_on returned {}", o.res.short())));
        }
        let dd = decode_all(delivered(&o), &conv, &s.last_seq, 2, false).map_err(|e| Violation::new("row-undecodable", e))?;
        match &dd.replies[0][..] {
            [Unit::ResultSet { rows, .. }] if rows.len() == 1 + second_row as usize => {
                let r = rows.last().unwrap();
                for i in 0..4 {
                    let want = if i == pos { Cell::Null } else { Cell::Text(format!("cell{}", i).into_bytes()) };
                    if r[i] != want {
                        return Err(Violation::new("recovered-row-differs", format!("refused value at column {} replaced by NULL: the client decodes {:?}", pos, r)));
                    }
                }
            }
            other => return Err(Violation::new("recovered-row-missing", format!("reply has {} units", other.len()))),
        }
        Ok(())
    }
    fn describe(&self, idx: u64) -> J {
        let d = digits(idx, &[2, 4, 2]);
        json!({"refused": if d[0] == 0 {"Value::Date with month 13"} else {"negative Value::Time"}, "column": d[1], "after_a_good_row": d[2] == 1})
    }
}

/// The text of a value must not depend on what was encoded before it on the same thread: for every
/// ordered pair (x, y) of a palette built from *bit twins* (values of different types with the
/// same width and bit pattern: -1i64 / u64::MAX, i64::MIN / 2^63, 1.0f32 / 1065353216u32, ...),
/// temporal values and strings, x is encoded first - into a good writer, or into a writer that
/// fails (a zero-length slice) - and then y into a fresh buffer. y's bytes must equal the bytes y
/// gets on a thread that never encoded anything else (computed once per value), which the scalar
/// families check absolutely.
struct SeamHistories {
    pal: Vec<Val>,
    fresh: Vec<Vec<u8>>,
}
impl SeamHistories {
    fn palette() -> Vec<Val> {
        let d = NaiveDate::from_ymd_opt(2020, 2, 3).unwrap();
        vec![
            Val::I8(-1),
            Val::U8(255),
            Val::I16(-1),
            Val::U16(65535),
            Val::I32(-1),
            Val::U32(u32::MAX),
            Val::I64(-1),
            Val::U64(u64::MAX),
            Val::I64(i64::MIN),
            Val::U64(1 << 63),
            Val::Isize(-1),
            Val::Usize(usize::MAX),
            Val::F32(1.0),
            Val::U32(1.0f32.to_bits()),
            Val::I32(1.0f32.to_bits() as i32),
            Val::F64(1.0),
            Val::U64(1.0f64.to_bits()),
            Val::I64(1.0f64.to_bits() as i64),
            Val::F64(-0.0),
            Val::I64(i64::MIN + 0),
            Val::U8(7),
            Val::I32(7),
            Val::Date(d),
            Val::DateTime(d.and_hms_micro_opt(4, 5, 6, 7).unwrap()),
            Val::Dur(Duration::new(3600 + 62, 0)),
            Val::Str("7".into()),
            Val::Bytes(vec![0xfb, 0x37]),
            Val::Null,
            Val::Str("x".repeat(300)),
        ]
    }
    fn new() -> Self {
        let pal = Self::palette();
        // one fresh OS thread per value: nothing else was ever encoded there
        let fresh = pal
            .iter()
            .map(|v| {
                let v = v.clone();
                std::thread::spawn(move || {
                    let mut out = Vec::new();
                    let _ = v.to_mysql_text(&mut out);
                    out
                })
                .join()
                .unwrap_or_default()
            })
            .collect();
        SeamHistories { pal, fresh }
    }
}
impl Family for SeamHistories {
    fn name(&self) -> String {
        "encoding-histories-at-the-seam".into()
    }
    fn len(&self) -> u64 {
        (self.pal.len() * self.pal.len() * 2) as u64
    }
    fn run(&self, idx: u64, st: &mut Stats) -> Result<(), Violation> {
        let n = self.pal.len() as u64;
        let d = digits(idx, &[n, n, 2]);
        let (x, y, failing) = (&self.pal[d[0] as usize], &self.pal[d[1] as usize], d[2] == 1);
        st.nontrivial += 1;
        st.bump("seam_histories");
        let r = guarded(|| {
            if failing {
                let mut none: [u8; 0] = [];
                let _ = x.to_mysql_text(&mut &mut none[..]);
            } else {
                let mut sink = Vec::new();
                let _ = x.to_mysql_text(&mut sink);
            }
            let mut out = Vec::new();
            y.to_mysql_text(&mut out).map(|_| out)
        });
        let what = format!("{} encoded after {}{}", val_short(y), val_short(x), if failing { " (whose writer failed)" } else { "" });
        match r {
            Err((l, m)) => Err(Violation::new(panic_key(&l, &m), format!("{}: to_mysql_text panicked at {}: {}", what, l, m))),
            Ok(Err(e)) => Err(Violation::new("encode-error-after-history", format!("{}: to_mysql_text returned {}", what, e))),
            Ok(Ok(out)) if out != self.fresh[d[1] as usize] => Err(Violation::new(
                "text-depends-on-history",
                format!("{}: bytes {:?}, on a thread that encoded nothing before {:?}", what, String::from_utf8_lossy(&out[..out.len().min(40)]), String::from_utf8_lossy(&self.fresh[d[1] as usize][..self.fresh[d[1] as usize].len().min(40)])),
            )),
            Ok(Ok(_)) => Ok(()),
        }
    }
    fn describe(&self, idx: u64) -> J {
        let n = self.pal.len() as u64;
        let d = digits(idx, &[n, n, 2]);
        json!({"first": val_short(&self.pal[d[0] as usize]), "first_writer_fails": d[2] == 1, "then": val_short(&self.pal[d[1] as usize])})
    }
}

pub fn build(quick: bool) -> Check {
    let pal = palette();
    let p = pal.len() as u64;
    let small = (p + p * p * 2 + p * p * p * 2) * 2;
    let mut families: Vec<Box<dyn Family>> = vec![
        Box::new(Scalars { thorough: !quick }),
        Box::new(Temporal { quick }),
        Box::new(Bytes { lens: byte_lengths(quick) }),
        Box::new(Rows { pal, small }),
        Box::new(TextBeyondAscii),
        Box::new(RecoverText),
        Box::new(SeamHistories::new()),
        Box::new(super::c07::TemporalEdges { bin: false }),
    ];
    if !quick {
        for w in 0..3 {
            families.push(Box::new(Exhaustive32 { which: w }));
        }
    }
    Check {
        id: "C06",
        level: "model_checking",
        rule: "values at the public to_mysql_text seam, decoded by refwire and by mysql_common's TextValue: u8/i8/u16/i16 exhaustive (u32/i32/finite f32 exhaustive in thorough); u64/i64/usize/isize/f64/f32 over all 2^k, 2^k+-1, 10^k+-1, d*10^k, repdigits and digit runs of every length, every value -20000..70000, m*10^k for every decimal exponent, bounds, subnormals, non-terminating fractions; every calendar date of years 0..9999, every second of a day x 4 microsecond values, every second of 0..838:59:59 x 4 microsecond values, 22 microsecond values of every decimal shape at further times and durations; byte strings of every length 0..300, 65534..65537 (and 2^24-1..2^24+1 in thorough) x 6 leading bytes incl. 0xFB..0xFF; Option, &T, String/str/Vec<u8>, mysql_common::Value variants; NULL vs \"\" vs \"NULL\". Through rows: every arrangement of <= 3 cells over a 15-value mixed palette and rotations for shapes up to 3x4, via write_col and write_row; a refused text value (invalid generic date, negative generic time) at each column followed by a replacement. Temporal values the protocol cannot carry (nanoseconds below a microsecond, chrono's leap second, durations of 2^32 days and more): refused, or decoded to a legal value equal to the written one up to the microsecond. Encoding histories at the seam: every ordered pair of a 29-value palette (bit twins of different types such as -1i64 / u64::MAX or 1.0f32 / 1065353216u32, temporal values, strings), the first encoded into a good or a failing writer, the second must get the bytes it gets on a thread that never encoded anything else; the bit twins also sit next to each other in the row arrangements. Values in context: every sequence of <= 3 (thorough: 4) events on one connection (rows of other shapes incl. all-NULL / alternating NULLs / 300- and 70000-byte cells, a refused cell, a new resultset behind finish_one with the same or other columns, behind a completion, behind a zero-column set, a new command in the same or the other protocol, finish_error) followed by a probe row of characteristic values for nine column types; every row of the conversation must decode cell for cell to what was written. Non-trivial = beyond what the unit tests sample (1, MAX, one date).".into(),
        assumptions: vec![
            "a conformant client parses numeric text with the same-width standard parser; floats must round-trip bit-exactly".into(),
            "64-bit numeric domains are covered at lattices, not exhaustively".into(),
        ],
        bounds: json!({"row_cells_exhaustive": 3, "palette": p}),
        exhaustive: true,
        caps_hit: vec![],
        families: {
            let mut f = families;
            f.push(Box::new(super::aftermath::Aftermath { prop: "C06" }));
            f.push(Box::new(super::context::BoundaryCells { prop: "C06", bin: false }));
            for d in 1..=(if quick { 3 } else { 4 }) {
                f.push(Box::new(super::context::ContextWalks { prop: "C06", depth: d, start_bin: false }));
            }
            f
        },
        required: vec!["aftermath_recovered", "context_walks", "boundary_cells", "temporal_edges", "seam_histories", "scalar_values", "dates", "times_of_day", "durations", "strings_beyond_65535", "row_arrangements", "text_recoveries"],
    }
}
