//! C05 — response sequence ids: every request id x response lengths up to several hundred
//! packets, fragmented requests, every handshake id.

use super::common::*;
use crate::conv::*;
use crate::engine::*;
use crate::refwire::*;
use crate::shim::*;
use msql_srv::{ColumnFlags, ColumnType};
use serde_json::{json, Value as J};
use std::sync::Arc;

/// shim: query text / prepare text "r=<n>" answers with a one-column resultset of n rows
fn rows_behave() -> Box<dyn FnMut(usize, &Cb) -> Behavior> {
    let cols = Arc::new(vec![col("c", ColumnType::MYSQL_TYPE_LONG, ColumnFlags::empty())]);
    let mut last_r = 0usize;
    Box::new(move |_, cb| {
        let mk = |r: usize| {
            let mut p = vec![WOp::Start(cols.clone())];
            for i in 0..r {
                p.push(WOp::WriteRow(vec![Val::I32(i as i32)]));
            }
            p.push(WOp::Finish);
            Behavior::Prog(Arc::new(p))
        };
        match cb {
            Cb::Query(t) => {
                if let Some(r) = t.strip_prefix("r=") {
                    // a large query text may follow the number after a space
                    let num = r.split(' ').next().unwrap_or("0");
                    mk(num.parse().unwrap_or(0))
                } else {
                    Behavior::Prog(Arc::new(vec![WOp::Completed(1, 2)]))
                }
            }
            Cb::Prepare(t) => {
                last_r = t.strip_prefix("r=").and_then(|x| x.parse().ok()).unwrap_or(0);
                Behavior::PrepReply {
                    id: 1,
                    params: param_cols(0),
                    cols: param_cols(1),
                }
            }
            Cb::Execute { .. } => mk(last_r),
            Cb::Init(_) => Behavior::InitOk,
            _ => Behavior::Silent,
        }
    })
}

fn seq_violation(e: String) -> Violation {
    if e.contains("sequence id") {
        Violation::new("sequence-id", e)
    } else {
        Violation::new("reply-decode", e)
    }
}

fn run_and_check(conv: &Conv, st: &mut Stats, expect_pkts: Option<(usize, usize)>) -> Result<(), Violation> {
    run_and_check_cuts(conv, st, expect_pkts, vec![])
}

fn run_and_check_cuts(conv: &Conv, st: &mut Stats, expect_pkts: Option<(usize, usize)>, cuts: Vec<usize>) -> Result<(), Violation> {
    let s = conv.stream();
    let stream = Arc::new(s.bytes);
    let mut sim = sim_for(&stream, cuts);
    sim.log_ops = false;
    let o = run_conn(sim, ConnCfg::new(rows_behave()));
    if let ConnResult::Panic(l, m) = &o.res {
        return Err(Violation::new(panic_key(l, m), format!("run_on panicked at {}: {}", l, m)));
    }
    if !o.res.is_ok() {
        return Err(Violation::new("result-not-ok", format!("run_on returned {}", o.res.short())));
    }
    let d = decode_all(delivered(&o), conv, &s.last_seq, conv.cmds.len(), false).map_err(seq_violation)?;
    st.transitions += d.n_pkts as u64;
    if let Some((k, n)) = expect_pkts {
        if d.reply_pkts[k] != n {
            return Err(Violation::new("reply-length", format!("reply {} has {} packets, scenario expects {}", k, d.reply_pkts[k], n)));
        }
        if n > 256 {
            st.bump("replies_wrapping_past_255");
        }
    }
    Ok(())
}

struct IdLen {
    ids: Vec<u8>,
    lens: Vec<usize>,
    label: &'static str,
}

impl IdLen {
    fn conv(&self, idx: u64) -> (Conv, u8, usize, bool) {
        let d = digits(idx, &[self.ids.len() as u64, self.lens.len() as u64, 2]);
        let s = self.ids[d[0] as usize];
        let len = self.lens[d[1] as usize];
        let bin = d[2] == 1;
        let s2 = s.wrapping_mul(7).wrapping_add(3);
        let mut cmds = Vec::new();
        if len == 1 {
            // a one-packet reply
            if bin {
                cmds.push(ClientCmd::new(with_byte(COM_STMT_PREPARE, b"r=0")).seq(s2));
                cmds.push(ClientCmd::new(vec![COM_PING]).seq(s));
            } else {
                cmds.push(q(b"ok").seq(s));
            }
        } else if bin {
            cmds.push(ClientCmd::new(with_byte(COM_STMT_PREPARE, format!("r={}", len - 4).as_bytes())).seq(s2));
            cmds.push(ClientCmd::new(cmd_execute(1, 0, 1, &[])).seq(s));
        } else {
            cmds.push(q(format!("r={}", len - 4).as_bytes()).seq(s));
        }
        cmds.push(ping().seq(s2));
        (Conv::new(cmds), s, len, bin)
    }
}

impl Family for IdLen {
    fn ambient(&self, idx: u64) -> u64 {
        crate::engine::rot(idx)
    }
    fn name(&self) -> String {
        self.label.into()
    }
    fn len(&self) -> u64 {
        (self.ids.len() * self.lens.len() * 2) as u64
    }
    fn run(&self, idx: u64, st: &mut Stats) -> Result<(), Violation> {
        let (conv, s, len, bin) = self.conv(idx);
        if s != 0 {
            st.nontrivial += 1;
        }
        if s == 255 {
            st.bump("request_id_255");
        }
        let k = if bin { 1 } else { 0 };
        run_and_check(&conv, st, if len >= 4 || (len == 1) { Some((k, len)) } else { None })
    }
    fn describe(&self, idx: u64) -> J {
        let (_, s, len, bin) = self.conv(idx);
        json!({"request_sequence_id": s, "response_packets": len, "binary": bin})
    }
}

/// handshake response carrying every sequence id; auth reply must carry id+1
struct HsIds;
impl Family for HsIds {
    fn name(&self) -> String {
        "handshake-ids".into()
    }
    fn len(&self) -> u64 {
        256
    }
    fn run(&self, idx: u64, st: &mut Stats) -> Result<(), Violation> {
        let h = idx as u8;
        let caps = CAP_LONG_PASSWORD | CAP_PROTOCOL_41 | CAP_SECURE_CONNECTION;
        let mut conv = Conv::new(vec![ping().seq(9)]);
        conv.handshake = frame(h, &handshake41(caps, 1 << 24, 0x21, b"u", &[0])).0;
        conv.hs_seq = h;
        st.nontrivial += 1;
        run_and_check(&conv, st, None)
    }
    fn describe(&self, idx: u64) -> J {
        json!({"handshake_response_sequence_id": idx})
    }
}

/// multi-fragment requests followed by a multi-packet response
struct Fragmented {
    firsts: Vec<u8>,
    nfrag: Vec<usize>,
}
impl Fragmented {
    fn conv(&self, idx: u64) -> (Conv, u8, usize, Vec<usize>) {
        let d = digits(idx, &[self.firsts.len() as u64, self.nfrag.len() as u64, 8]);
        let first = self.firsts[d[0] as usize];
        let nf = self.nfrag[d[1] as usize];
        // payload of (nf-1)*MAXP + 10 bytes => nf packets
        let total = (nf - 1) * MAXP + 10;
        let mut text = b"r=300 ".to_vec();
        text.resize(total - 1, b'x');
        let cmds = vec![q(&text).seq(first), ping().seq(first.wrapping_add(100))];
        let conv = Conv::new(cmds);
        // arrival schedule: which fragment boundaries coincide with the end of a read
        let s = conv.stream();
        let bounds: Vec<usize> = s.headers.iter().copied().filter(|h| *h > s.ends[0] && *h < s.ends[1]).collect();
        let cuts = bounds.iter().enumerate().filter(|(i, _)| d[2] & (1 << i) != 0).map(|x| *x.1).collect();
        (conv, first, nf, cuts)
    }
}
impl Family for Fragmented {
    fn name(&self) -> String {
        "fragmented-requests".into()
    }
    fn len(&self) -> u64 {
        (self.firsts.len() * self.nfrag.len() * 8) as u64
    }
    fn max_threads(&self) -> Option<usize> {
        Some(8)
    }
    fn run(&self, idx: u64, st: &mut Stats) -> Result<(), Violation> {
        let d = digits(idx, &[self.firsts.len() as u64, self.nfrag.len() as u64, 8]);
        let nf = self.nfrag[d[1] as usize];
        if d[2] >= (1 << (nf - 1)) {
            st.skipped += 1; // no such boundary: same schedule as a smaller mask
            return Ok(());
        }
        let (conv, _, _, cuts) = self.conv(idx);
        st.nontrivial += 1;
        st.bump("fragmented_requests");
        if nf >= 3 {
            st.bump("requests_of_three_or_more_packets");
        }
        run_and_check_cuts(&conv, st, Some((0, 304)), cuts)
    }
    fn describe(&self, idx: u64) -> J {
        let (_, first, nf, cuts) = self.conv(idx);
        json!({"first_fragment_sequence_id": first, "fragments": nf, "response_packets": 304, "reads_end_at_fragment_boundaries": cuts})
    }
}

/// a response whose single row spans several maximal packets
struct LargeResponse {
    ids: Vec<u8>,
    sizes: Vec<usize>,
}
impl Family for LargeResponse {
    fn name(&self) -> String {
        "multi-packet-response-messages".into()
    }
    fn len(&self) -> u64 {
        (self.ids.len() * self.sizes.len()) as u64
    }
    fn max_threads(&self) -> Option<usize> {
        Some(6)
    }
    fn run(&self, idx: u64, st: &mut Stats) -> Result<(), Violation> {
        let id = self.ids[idx as usize % self.ids.len()];
        let size = self.sizes[idx as usize / self.ids.len()];
        st.nontrivial += 1;
        st.bump("large_response_messages");
        let cols = Arc::new(vec![col("c", ColumnType::MYSQL_TYPE_BLOB, ColumnFlags::empty())]);
        let prog = Arc::new(vec![WOp::Start(cols), WOp::WriteRow(vec![Val::Bytes(vec![b'L'; size])]), WOp::WriteRow(vec![Val::Bytes(vec![b's'])]), WOp::Finish]);
        let conv = Conv::new(vec![q(b"big").seq(id), ping().seq(id.wrapping_add(9))]);
        let s = conv.stream();
        let stream = Arc::new(s.bytes);
        let mut sim = sim_for(&stream, vec![]);
        sim.log_ops = false;
        let o = run_conn(sim, ConnCfg::new(Box::new(move |_, cb| match cb {
            Cb::Query(_) => Behavior::Prog(prog.clone()),
            _ => Behavior::Silent,
        })));
        if let ConnResult::Panic(l, m) = &o.res {
            return Err(Violation::new(panic_key(l, m), format!("run_on panicked at {}: {}", l, m)));
        }
        if !o.res.is_ok() {
            return Err(Violation::new("result-not-ok", format!("run_on returned {}", o.res.short())));
        }
        let d = decode_all(delivered(&o), &conv, &s.last_seq, 2, false).map_err(seq_violation)?;
        st.transitions += d.n_pkts as u64;
        Ok(())
    }
    fn describe(&self, idx: u64) -> J {
        json!({"request_sequence_id": self.ids[idx as usize % self.ids.len()], "row_cell_bytes": self.sizes[idx as usize / self.ids.len()]})
    }
}

/// responses whose total size passes 2^15 / 2^16 / 2^20 bytes in many packets
struct Bulky;
const WCAPS: [usize; 5] = [usize::MAX, 5, 1460, 23_359, 65_536];
const BULK: [(usize, usize); 6] = [(5, 20_000), (40, 2_000), (300, 300), (2_000, 40), (70, 1_000), (9, 131_072)];
impl Family for Bulky {
    fn name(&self) -> String {
        "bulky-responses".into()
    }
    fn len(&self) -> u64 {
        (BULK.len() * 4 * WCAPS.len()) as u64
    }
    fn run(&self, idx: u64, st: &mut Stats) -> Result<(), Violation> {
        let wcap = WCAPS[idx as usize / (BULK.len() * 4)];
        let idx = idx % (BULK.len() * 4) as u64;
        let (rows, w) = BULK[idx as usize / 4];
        let id = [0u8, 1, 200, 255][idx as usize % 4];
        st.nontrivial += 1;
        st.bump("bulky_responses");
        let cols = Arc::new(vec![col("c", ColumnType::MYSQL_TYPE_BLOB, ColumnFlags::empty())]);
        let mut p = vec![WOp::Start(cols)];
        for r in 0..rows {
            p.push(WOp::WriteRow(vec![Val::Bytes(vec![b'a' + (r % 26) as u8; w])]));
        }
        p.push(WOp::Finish);
        let prog = Arc::new(p);
        let conv = Conv::new(vec![q(b"bulk").seq(id), ping().seq(id.wrapping_add(3))]);
        let s = conv.stream();
        let stream = Arc::new(s.bytes);
        let mut sim = sim_for(&stream, vec![]);
        sim.log_ops = false;
        sim.write_cap = wcap;
        let o = run_conn(sim, ConnCfg::new(Box::new(move |_, cb| match cb {
            Cb::Query(_) => Behavior::Prog(prog.clone()),
            _ => Behavior::Silent,
        })));
        if !o.res.is_ok() {
            return Err(Violation::new("result-not-ok", format!("run_on returned {}", o.res.short())));
        }
        let d = decode_all(delivered(&o), &conv, &s.last_seq, 2, false).map_err(seq_violation)?;
        st.transitions += d.n_pkts as u64;
        Ok(())
    }
    fn describe(&self, idx: u64) -> J {
        let wcap = WCAPS[idx as usize / (BULK.len() * 4)];
        let idx = idx % (BULK.len() * 4) as u64;
        let (rows, w) = BULK[idx as usize / 4];
        let id = [0u8, 1, 200, 255][idx as usize % 4];
        json!({"rows": rows, "cell_bytes": w, "request_sequence_id": id, "transport_write_accepts_at_most": if wcap == usize::MAX { 0 } else { wcap }})
    }
}


/// every kind of command (those the shim answers and those the library answers itself) after
/// every kind of previous exchange, with request ids around the wrap: the reply must start one
/// above *this* request's id whatever the previous exchange left in the counter
struct KindHistory;
impl KindHistory {
    fn prevs() -> Vec<(&'static str, Vec<ClientCmd>)> {
        vec![
            ("nothing", vec![]),
            ("query->OK", vec![q(b"ok")]),
            ("query->3 rows", vec![q(b"r=3")]),
            ("query->300 rows", vec![q(b"r=300")]),
            ("prepare", vec![ClientCmd::new(with_byte(COM_STMT_PREPARE, b"r=2"))]),
            ("execute->2 rows", vec![ClientCmd::new(cmd_execute(1, 0, 1, &[]))]),
            ("close of another id (no reply)", vec![ClientCmd::new(cmd_close(77))]),
            ("ping", vec![ping()]),
            ("init db", vec![ClientCmd::new(with_byte(COM_INIT_DB, b"db"))]),
            ("USE query", vec![q(b"USE db")]),
            ("field list", vec![ClientCmd::new(with_byte(COM_FIELD_LIST, b"t\0"))]),
            ("SELECT @@ probe", vec![q(b"SELECT @@max_allowed_packet")]),
            ("two exchanges", vec![q(b"r=5"), ping()]),
        ]
    }
    fn curs() -> Vec<(&'static str, ClientCmd)> {
        Self::prevs().into_iter().filter(|(_, v)| v.len() == 1).map(|(n, mut v)| (n, v.pop().unwrap())).collect()
    }
    const IDS: [u8; 6] = [0, 1, 42, 127, 254, 255];
    fn conv(idx: u64) -> (Conv, String) {
        let prevs = Self::prevs();
        let curs = Self::curs();
        let d = digits(idx, &[prevs.len() as u64, curs.len() as u64, Self::IDS.len() as u64]);
        let (pn, pv) = &prevs[d[0] as usize];
        let (cn, cur) = &curs[d[1] as usize];
        let id = Self::IDS[d[2] as usize];
        let mut cmds = vec![ClientCmd::new(with_byte(COM_STMT_PREPARE, b"r=2")).seq(9)];
        for c in pv {
            cmds.push(c.clone().seq(7));
        }
        cmds.push(cur.clone().seq(id));
        cmds.push(ping().seq(100));
        (Conv::new(cmds), format!("after {}: {} with request id {}", pn, cn, id))
    }
}
impl Family for KindHistory {
    fn ambient(&self, idx: u64) -> u64 {
        crate::engine::rot(idx)
    }
    fn name(&self) -> String {
        "command-kind-x-previous-exchange".into()
    }
    fn len(&self) -> u64 {
        (Self::prevs().len() * Self::curs().len() * Self::IDS.len()) as u64
    }
    fn run(&self, idx: u64, st: &mut Stats) -> Result<(), Violation> {
        let (conv, what) = Self::conv(idx);
        st.nontrivial += 1;
        st.bump("kind_history_cases");
        run_and_check(&conv, st, None).map_err(|mut v| {
            v.msg = format!("{}: {}", what, v.msg);
            v
        })
    }
    fn describe(&self, idx: u64) -> J {
        json!(Self::conv(idx).1)
    }
}


/// shim for [`KindWalks`]: like `rows_behave`, with two statements (id 1: no parameters, id 2: one
/// parameter), an error reply, a chained pair of resultsets and a refused schema change.
fn walk_behave() -> Box<dyn FnMut(usize, &Cb) -> Behavior> {
    let cols = Arc::new(vec![col("c", ColumnType::MYSQL_TYPE_LONG, ColumnFlags::empty())]);
    let mut rows_of: std::collections::HashMap<u32, usize> = std::collections::HashMap::new();
    Box::new(move |_, cb| {
        let set = |p: &mut Vec<WOp>, r: usize, last: bool| {
            p.push(WOp::Start(cols.clone()));
            for i in 0..r {
                p.push(WOp::WriteRow(vec![Val::I32(i as i32)]));
            }
            p.push(if last { WOp::Finish } else { WOp::FinishOne });
        };
        match cb {
            Cb::Query(t) => {
                let mut p = Vec::new();
                if let Some(r) = t.strip_prefix("r=") {
                    set(&mut p, r.parse().unwrap_or(0), true);
                } else if t == "e" {
                    p.push(WOp::Error(msql_srv::ErrorKind::ER_NO_SUCH_TABLE, b"no such table".to_vec()));
                } else if t == "m" {
                    set(&mut p, 2, false);
                    set(&mut p, 1, true);
                } else {
                    p.push(WOp::Completed(1, 2));
                }
                Behavior::Prog(Arc::new(p))
            }
            Cb::Prepare(t) => {
                if t == "bad" {
                    return Behavior::PrepError(msql_srv::ErrorKind::ER_PARSE_ERROR, b"no".to_vec());
                }
                let (id, np) = if t.starts_with("p1") { (2, 1) } else { (1, 0) };
                rows_of.insert(id, t.rsplit('=').next().and_then(|x| x.parse().ok()).unwrap_or(0));
                Behavior::PrepReply {
                    id,
                    params: param_cols(np),
                    cols: param_cols(1),
                }
            }
            Cb::Execute { id, .. } => {
                let mut p = Vec::new();
                set(&mut p, rows_of.get(id).copied().unwrap_or(0), true);
                Behavior::Prog(Arc::new(p))
            }
            Cb::Init(t) if t == "nodb" => Behavior::InitErr(msql_srv::ErrorKind::ER_BAD_DB_ERROR, b"unknown".to_vec()),
            Cb::Init(_) => Behavior::InitOk,
            _ => Behavior::Silent,
        }
    })
}

/// Sequences of `depth` exchanges of every kind (replies of 1, several and hundreds of packets,
/// errors from the shim and from the library, chained resultsets, PREPARE replies, commands that
/// are not answered at all), each request with its own sequence id from a palette around the wrap,
/// then a sentinel PING: the numbering of each reply depends only on its own request.
struct KindWalks {
    depth: usize,
    /// only the statement commands (two statements, long data, both closes) plus a query and PING
    core: bool,
}
impl KindWalks {
    const IDS: [u8; 7] = [0, 1, 42, 127, 253, 254, 255];
    fn alphabet() -> Vec<(&'static str, ClientCmd)> {
        let one = |b: &[u8]| ExecParam {
            ty: 0xfd,
            unsigned: false,
            wire: Some({
                let mut v = Vec::new();
                put_lenenc_str(&mut v, b);
                v
            }),
            long: false,
        };
        let long = ExecParam {
            ty: 0xfc,
            unsigned: false,
            wire: None,
            long: true,
        };
        vec![
            ("query->OK", q(b"ok")),
            ("query->3 rows", q(b"r=3")),
            ("query->300 rows", q(b"r=300")),
            ("query->ERR", q(b"e")),
            ("query->two resultsets", q(b"m")),
            ("prepare #1", ClientCmd::new(with_byte(COM_STMT_PREPARE, b"r=2"))),
            ("prepare #2 (one parameter)", ClientCmd::new(with_byte(COM_STMT_PREPARE, b"p1 r=4"))),
            ("prepare refused", ClientCmd::new(with_byte(COM_STMT_PREPARE, b"bad"))),
            ("execute #1", ClientCmd::new(cmd_execute(1, 0, 1, &[]))),
            ("execute #2 inline", ClientCmd::new(cmd_execute(2, 0, 1, &exec_block(&[one(b"v")], true)))),
            ("execute #2 long", ClientCmd::new(cmd_execute(2, 0, 1, &exec_block(&[long], true)))),
            ("long data #2", ClientCmd::new(cmd_long(2, 0, b"chunk"))),
            ("close #1", ClientCmd::new(cmd_close(1))),
            ("close #2", ClientCmd::new(cmd_close(2))),
            ("close #77", ClientCmd::new(cmd_close(77))),
            ("ping", ping()),
            ("init db", ClientCmd::new(with_byte(COM_INIT_DB, b"db"))),
            ("init db refused", ClientCmd::new(with_byte(COM_INIT_DB, b"nodb"))),
            ("USE query", q(b"USE db")),
            ("field list", ClientCmd::new(with_byte(COM_FIELD_LIST, b"t\0"))),
            ("SELECT @@ probe", q(b"SELECT @@max_allowed_packet")),
        ]
    }
    fn alpha(&self) -> Vec<(&'static str, ClientCmd)> {
        let a = Self::alphabet();
        if !self.core {
            return a;
        }
        a.into_iter().filter(|(n, _)| n.contains('#') && !n.contains("77") || *n == "ping" || *n == "query->3 rows").collect()
    }
    fn conv(&self, idx: u64) -> (Conv, String) {
        let a = self.alpha();
        let mut rad = vec![Self::IDS.len() as u64];
        rad.extend(std::iter::repeat(a.len() as u64).take(self.depth));
        let d = digits(idx, &rad);
        let mut cmds = Vec::new();
        let mut what = Vec::new();
        for j in 0..self.depth {
            let (n, c) = &a[d[1 + j] as usize];
            // ids walk through the palette with a stride that depends on the position
            let id = Self::IDS[(d[0] as usize + j * (1 + j)) % Self::IDS.len()];
            cmds.push(c.clone().seq(id));
            what.push(format!("{} (id {})", n, id));
        }
        cmds.push(ping().seq(100));
        (Conv::new(cmds), what.join(", "))
    }
}
impl Family for KindWalks {
    fn ambient(&self, idx: u64) -> u64 {
        crate::engine::rot(idx)
    }
    fn name(&self) -> String {
        format!("{}-walks-depth-{}", if self.core { "statement-exchange" } else { "exchange-kind" }, self.depth)
    }
    fn len(&self) -> u64 {
        Self::IDS.len() as u64 * (self.alpha().len() as u64).pow(self.depth as u32)
    }
    fn run(&self, idx: u64, st: &mut Stats) -> Result<(), Violation> {
        let (conv, what) = self.conv(idx);
        // executing a statement that is not open ends the connection (C10's subject): such walks
        // are left to C10
        // (and so are executions whose parameter block disagrees with the long data sent)
        let mut open = [false; 3];
        let mut pending = false;
        for c in &conv.cmds {
            let p = &c.payload;
            let mut skip = false;
            match p[0] {
                COM_STMT_PREPARE if p.starts_with(b"\x16p1") => {
                    open[2] = true;
                    pending = false;
                }
                COM_STMT_PREPARE if &p[1..] != b"bad" => open[1] = true,
                COM_STMT_CLOSE if p[1] == 1 => open[1] = false,
                COM_STMT_CLOSE if p[1] == 2 => {
                    open[2] = false;
                    pending = false;
                }
                COM_STMT_SEND_LONG_DATA => {
                    skip = !open[2];
                    pending = true;
                }
                COM_STMT_EXECUTE if p[1] == 2 => {
                    let long = p.len() == 14;
                    skip = !open[2] || long != pending;
                    pending = false;
                }
                COM_STMT_EXECUTE => skip = !open[1],
                _ => {}
            }
            if skip {
                st.skipped += 1;
                return Ok(());
            }
        }
        st.nontrivial += 1;
        st.bump("kind_walks");
        let s = conv.stream();
        let stream = Arc::new(s.bytes);
        let mut sim = sim_for(&stream, vec![]);
        sim.log_ops = false;
        let o = run_conn(sim, ConnCfg::new(walk_behave()));
        let tag = |e: String| format!("{}: {}", what, e);
        if let ConnResult::Panic(l, m) = &o.res {
            return Err(Violation::new(panic_key(l, m), tag(format!("run_on panicked at {}: {}", l, m))));
        }
        if !o.res.is_ok() {
            return Err(Violation::new("result-not-ok", tag(format!("run_on returned {}", o.res.short()))));
        }
        let d = decode_all(delivered(&o), &conv, &s.last_seq, conv.cmds.len(), false).map_err(|e| seq_violation(tag(e)))?;
        st.transitions += d.n_pkts as u64;
        Ok(())
    }
    fn describe(&self, idx: u64) -> J {
        json!(self.conv(idx).1)
    }
}

/// deviation-bounded on the write side: the fault-free run of a response is recorded, then
/// re-run once per transport write with exactly that write accepting fewer bytes than offered
/// (1 byte, half, all but one). Packets must still arrive whole, in order, consecutively numbered.
struct OneShortWrite {
    convs: Vec<(&'static str, usize, usize, usize)>, // label, rows, cell bytes, number of write ops
}
impl OneShortWrite {
    fn prog(rows: usize, w: usize) -> Arc<Vec<WOp>> {
        let cols = Arc::new(vec![col("c", ColumnType::MYSQL_TYPE_BLOB, ColumnFlags::empty())]);
        let mut p = vec![WOp::Start(cols)];
        for r in 0..rows {
            p.push(WOp::WriteRow(vec![Val::Bytes(vec![b'a' + (r % 26) as u8; w])]));
        }
        p.push(WOp::Finish);
        Arc::new(p)
    }
    fn run_one(rows: usize, w: usize, fault: Option<crate::sim::Fault>) -> (Outcome, Conv, Vec<u8>) {
        let prog = Self::prog(rows, w);
        let conv = Conv::new(vec![q(b"bulk").seq(7), ping().seq(200)]);
        let s = conv.stream();
        let stream = Arc::new(s.bytes);
        let mut sim = sim_for(&stream, vec![]);
        sim.fault = fault;
        let o = run_conn(sim, ConnCfg::new(Box::new(move |_, cb| match cb {
            Cb::Query(_) => Behavior::Prog(prog.clone()),
            _ => Behavior::Silent,
        })));
        (o, conv, s.last_seq)
    }
    fn new() -> Self {
        let mut convs = Vec::new();
        for (label, rows, w) in [("300 rows of 20 bytes", 300usize, 20usize), ("40 rows of 2000 bytes", 40, 2000), ("9 rows of 131072 bytes", 9, 131_072), ("3 rows of 30000 bytes", 3, 30_000)] {
            let (o, _, _) = Self::run_one(rows, w, None);
            let n = o.sim.ops.iter().filter(|x| x.kind == crate::sim::OpKind::Write).count();
            convs.push((label, rows, w, n));
        }
        OneShortWrite { convs }
    }
    fn locate(&self, idx: u64) -> (usize, usize, usize) {
        let mut i = idx;
        for (ci, c) in self.convs.iter().enumerate() {
            let n = (c.3 * 3) as u64;
            if i < n {
                return (ci, (i / 3) as usize, (i % 3) as usize);
            }
            i -= n;
        }
        unreachable!()
    }
}
impl Family for OneShortWrite {
    fn name(&self) -> String {
        "one-short-write".into()
    }
    fn len(&self) -> u64 {
        self.convs.iter().map(|c| (c.3 * 3) as u64).sum()
    }
    fn run(&self, idx: u64, st: &mut Stats) -> Result<(), Violation> {
        let (ci, k, how) = self.locate(idx);
        let (label, rows, w, _) = self.convs[ci];
        st.nontrivial += 1;
        st.bump("one_short_write_runs");
        // find the absolute op index of the k-th write in the fault-free run
        let (base, _, _) = Self::run_one(rows, w, None);
        let (at, req) = base.sim.ops.iter().enumerate().filter(|(_, o)| o.kind == crate::sim::OpKind::Write).map(|(i, o)| (i, o.req)).nth(k).unwrap();
        let n = match how {
            0 => 1,
            1 => (req / 2).max(1),
            _ => req.saturating_sub(1).max(1),
        };
        let (o, conv, last_seq) = Self::run_one(rows, w, Some(crate::sim::Fault { at_op: at, kind: crate::sim::FaultKind::ShortWrite(n), persistent: false }));
        let what = format!("{}: transport write #{} (of {} bytes) accepts {} bytes", label, k, req, n);
        if let ConnResult::Panic(l, m) = &o.res {
            return Err(Violation::new(panic_key(l, m), format!("{}: run_on panicked at {}: {}", what, l, m)));
        }
        if !o.res.is_ok() {
            return Err(Violation::new("result-not-ok", format!("{}: run_on returned {}", what, o.res.short())));
        }
        if after_greeting(&o.sim.out) != after_greeting(&base.sim.out) {
            // same bytes in the same order is what a short write must lead to
            let d = decode_all(delivered(&o), &conv, &last_seq, 2, false).map_err(|e| {
                let mut v = seq_violation(e);
                v.msg = format!("{}: {}", what, v.msg);
                v
            })?;
            let _ = d;
            return Err(Violation::new("short-write-changes-output", format!("{}: the bytes sent differ from the undisturbed run ({} vs {} bytes)", what, o.sim.out.len(), base.sim.out.len())));
        }
        st.transitions += 1;
        Ok(())
    }
    fn describe(&self, idx: u64) -> J {
        let (ci, k, how) = self.locate(idx);
        let acc = ["1 byte", "half", "all but one byte"][how];
        json!({"response": self.convs[ci].0, "short_write_at_transport_write": k, "accepts": acc})
    }
}

pub fn build(quick: bool) -> Check {
    let all_ids: Vec<u8> = (0..=255u8).collect();
    let all_lens: Vec<usize> = std::iter::once(1).chain(4..=520).collect();
    let mut families: Vec<Box<dyn Family>> = Vec::new();
    if quick {
        let mut lens = vec![1, 4, 5];
        lens.extend(250..=262);
        lens.extend(508..=520);
        families.push(Box::new(IdLen {
            ids: all_ids.clone(),
            lens,
            label: "all-ids-x-boundary-lengths",
        }));
        families.push(Box::new(IdLen {
            ids: vec![0, 1, 127, 128, 253, 254, 255],
            lens: all_lens,
            label: "boundary-ids-x-all-lengths",
        }));
    } else {
        families.push(Box::new(IdLen {
            ids: all_ids,
            lens: all_lens,
            label: "all-ids-x-all-lengths",
        }));
    }
    families.push(Box::new(HsIds));
    families.push(Box::new(KindHistory));
    families.push(Box::new(KindWalks { depth: if quick { 4 } else { 5 }, core: false }));
    families.push(Box::new(KindWalks { depth: if quick { 5 } else { 6 }, core: true }));
    families.push(Box::new(KindWalks { depth: if quick { 6 } else { 7 }, core: true }));
    families.push(Box::new(super::soak::Soak { label: "all-mixes", lens: super::soak::lens(quick), mixes: super::soak::MIXES.to_vec(), opts: super::soak::opts_all().into_iter().filter(|o| o.1.seq_stride != 0).collect(), big: super::soak::big_default(quick).into_iter().filter(|b| [1usize, 2].contains(&b.2)).map(|(n, m, o)| (n, m, o - 1)).collect() }));
    families.push(Box::new(super::soak::QuietRuns { max_n: if quick { 600 } else { 1300 }, ends_in_completion: false }));
    families.push(Box::new(Fragmented {
        firsts: if quick { vec![0, 254] } else { vec![0, 1, 253, 254, 255] },
        nfrag: if quick { vec![2, 3] } else { vec![2, 3, 4] },
    }));
    families.push(Box::new(Bulky));
    families.push(Box::new(OneShortWrite::new()));
    families.push(Box::new(LargeResponse {
        ids: if quick { vec![0, 253] } else { vec![0, 1, 251, 252, 253, 254, 255] },
        sizes: if quick { vec![2 * MAXP + 10] } else { vec![MAXP + 10, 2 * MAXP + 10, 3 * MAXP + 10] },
    }));
    // the position of a multi-packet message relative to the wrap: every request id, so that each
    // of its fragments carries each id once (255 and 0 among them)
    families.push(Box::new(LargeResponse { ids: (0..=255).collect(), sizes: if quick { vec![MAXP + 10] } else { vec![MAXP + 10, 2 * MAXP + 10] } }));
    Check {
        id: "C05",
        level: "model_checking",
        rule: "a row of two (thorough: also three) packets in a reply to a request with each sequence id 0..255 (every fragment carries every id once); every command kind after every kind of previous exchange x request ids {0,1,42,127,254,255}; every sequence of 4 (thorough: 5) exchanges over 21 kinds, and of 5-6 (6-7) over the 10 statement kinds (two statements, long data, closes, a query, PING), (replies of 1..304 packets, shim and library errors, chained resultsets, PREPARE replies, unanswered commands) with per-position request ids around the wrap; request sequence id x response length (1 and 4..520 packets, text and binary), each followed by a second command with an unrelated id; handshake responses with every id; 2-, 3- (thorough: 4-) fragment requests starting at ids around the wrap, with reads ending at every subset of the fragment boundaries; responses whose single row spans 2..4 maximal packets; responses of 40 KiB..1 MiB in 5..2000 packets under transport writes of at most 5 / 1460 / 23359 / 65536 bytes; four responses re-run with exactly one transport write accepting 1 byte / half / all but one byte, for every write of the undisturbed run. Long scripted sessions: 130..4099 (thorough: up to 131101) ordinary commands of every kind on one connection in up to six mixes (even, prepare/close churn with growing ids, executions, long-data chunks, unanswered commands, text and library-answered commands) under several client/transport behaviours (pipelined, request ids advancing by 7, lock-step, 1..4093-byte reads, 7/11-byte writes), generated by a fixed rule, kept valid with the registry model and judged on the complete trace (callbacks with arguments, result, strict decode of every reply with its sequence ids). Oracle: packet i of a reply carries (last request id + 1 + i) mod 256. Non-trivial = request id != 0 (the only id the test clients use).".into(),
        assumptions: vec!["sequence ids of server packets are read by the independent framer (refwire)".into()],
        bounds: json!({"max_response_packets": 520, "fragments": if quick {2} else {3}}),
        exhaustive: true,
        caps_hit: vec![],
        families,
        required: vec!["one_short_write_runs", "requests_of_three_or_more_packets", "soak_sessions", "quiet_runs", "kind_history_cases", "kind_walks", "request_id_255", "replies_wrapping_past_255", "fragmented_requests", "large_response_messages", "bulky_responses"],
    }
}
