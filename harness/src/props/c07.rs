//! C07 — binary-protocol rows arrive unchanged, with an exact NULL bitmap.

use super::common::*;
use crate::conv::*;
use crate::engine::*;
use crate::refwire::*;
use crate::second;
use crate::shim::*;
use chrono::{Datelike, NaiveDate, Timelike};
use msql_srv::{Column, ColumnFlags, ColumnType};
use mysql_common::value::Value as MV;
use serde_json::{json, Value as J};
use std::sync::Arc;
use std::time::Duration;

/// what a conformant client must decode for a written value in a column of (type, flags);
/// None = the pairing is not one the column can carry (refusal is expected but an exact
/// acceptance would also be fine)
pub(crate) fn expected_cell(v: &Val, ty: u8, unsigned: bool) -> Option<BinVal> {
    let int_col = matches!(ty, 0x01 | 0x02 | 0x0d | 0x09 | 0x03 | 0x08);
    let str_col = matches!(ty, 0x00 | 0x0f | 0x10 | 0xf5 | 0xf6 | 0xf7 | 0xf8 | 0xf9 | 0xfa | 0xfb | 0xfc | 0xfd | 0xfe | 0xff);
    let as_int = |n: i128| -> Option<BinVal> {
        if !int_col {
            return None;
        }
        let bits = match ty {
            0x01 => 8,
            0x02 | 0x0d => 16,
            0x09 | 0x03 => 32,
            _ => 64,
        };
        let (lo, hi) = if unsigned { (0, (1i128 << bits) - 1) } else { (-(1i128 << (bits - 1)), (1i128 << (bits - 1)) - 1) };
        if n < lo || n > hi {
            return None;
        }
        Some(if unsigned { BinVal::UInt(n as u64) } else { BinVal::Int(n as i64) })
    };
    let date = |d: &chrono::NaiveDateTime, date_only: bool| -> BinVal {
        let us = d.nanosecond() / 1000;
        let len = if date_only {
            4
        } else if us != 0 {
            11
        } else {
            7
        };
        BinVal::Date(len, d.year() as u16, d.month() as u8, d.day() as u8, d.hour() as u8, d.minute() as u8, d.second() as u8, us)
    };
    match v {
        Val::Null => None,
        Val::I8(x) => as_int(*x as i128),
        Val::U8(x) => as_int(*x as i128),
        Val::I16(x) => as_int(*x as i128),
        Val::U16(x) => as_int(*x as i128),
        Val::I32(x) => as_int(*x as i128),
        Val::U32(x) => as_int(*x as i128),
        Val::I64(x) => as_int(*x as i128),
        Val::U64(x) => as_int(*x as i128),
        Val::Isize(x) => as_int(*x as i128),
        Val::Usize(x) => as_int(*x as i128),
        Val::OptI32(Some(x)) => as_int(*x as i128),
        Val::OptI32(None) | Val::OptStr(None) => None,
        Val::F32(f) => match ty {
            0x04 => Some(BinVal::F32(f.to_bits())),
            0x05 => Some(BinVal::F64((*f as f64).to_bits())),
            _ => None,
        },
        Val::F64(f) => match ty {
            0x05 => Some(BinVal::F64(f.to_bits())),
            _ => None,
        },
        Val::Bytes(b) => {
            if str_col {
                Some(BinVal::Bytes(b.clone()))
            } else {
                None
            }
        }
        Val::Str(s) | Val::OptStr(Some(s)) => {
            if str_col {
                Some(BinVal::Bytes(s.clone().into_bytes()))
            } else {
                None
            }
        }
        Val::Date(d) => {
            if ty == 0x0a && (0..=65535).contains(&d.year()) {
                Some(date(&d.and_hms_opt(0, 0, 0).unwrap(), true))
            } else {
                None
            }
        }
        Val::DateTime(d) => {
            if (ty == 0x0c || ty == 0x07) && (0..=65535).contains(&d.year()) {
                Some(date(d, false))
            } else {
                None
            }
        }
        Val::Dur(d) => {
            if ty == 0x0b {
                let s = d.as_secs();
                let us = d.subsec_micros();
                let len = if s == 0 && us == 0 {
                    0
                } else if us != 0 {
                    12
                } else {
                    8
                };
                Some(BinVal::Time(len, false, (s / 86400) as u32, ((s % 86400) / 3600) as u8, ((s % 3600) / 60) as u8, (s % 60) as u8, us))
            } else {
                None
            }
        }
        Val::Myc(m) => match m {
            MV::NULL => None,
            MV::Bytes(b) => expected_cell(&Val::Bytes(b.clone()), ty, unsigned),
            MV::Int(i) => as_int(*i as i128),
            MV::UInt(u) => {
                // the crate is deliberately strict here (only BIGINT UNSIGNED); exactness is
                // still required whenever it accepts
                as_int(*u as i128)
            }
            MV::Float(f) => expected_cell(&Val::F32(*f), ty, unsigned),
            MV::Double(f) => expected_cell(&Val::F64(*f), ty, unsigned),
            MV::Date(y, mo, d, h, mi, s, us) => {
                let dt = NaiveDate::from_ymd_opt(*y as i32, *mo as u32, *d as u32)?.and_hms_micro_opt(*h as u32, *mi as u32, *s as u32, *us)?;
                expected_cell(&Val::DateTime(dt), ty, unsigned)
            }
            MV::Time(neg, d, h, m, s, us) => {
                if *neg {
                    return None;
                }
                expected_cell(&Val::Dur(Duration::new(*d as u64 * 86400 + *h as u64 * 3600 + *m as u64 * 60 + *s as u64, us * 1000)), ty, unsigned)
            }
        },
    }
}

/// must the write be accepted? (natural pairings of the documentation)
fn must_accept(v: &Val, ty: u8, unsigned: bool) -> bool {
    let e = expected_cell(v, ty, unsigned).is_some();
    if !e {
        return false;
    }
    match v {
        // integer acceptance rules are C15's; here only same-kind natural pairings
        Val::I8(_) => ty == 0x01 && !unsigned || matches!(ty, 0x02 | 0x03 | 0x08) && !unsigned,
        Val::U8(_) => ty == 0x01 && unsigned || matches!(ty, 0x02 | 0x03 | 0x08),
        Val::I16(_) => matches!(ty, 0x02 | 0x03 | 0x08) && !unsigned,
        Val::U16(_) => ty == 0x02 && unsigned || matches!(ty, 0x03 | 0x08),
        Val::I32(_) | Val::OptI32(_) => matches!(ty, 0x03 | 0x08) && !unsigned,
        Val::U32(_) => ty == 0x03 && unsigned || ty == 0x08,
        Val::I64(_) => ty == 0x08 && !unsigned,
        Val::U64(_) => ty == 0x08 && unsigned,
        Val::Isize(_) | Val::Usize(_) => true,
        Val::Myc(MV::Int(_)) => ty == 0x08 && !unsigned,
        Val::Myc(MV::UInt(_)) => ty == 0x08 && unsigned,
        Val::Dur(d) => d.as_secs() < 839 * 3600,
        Val::Date(d) => (0..=9999).contains(&d.year()),
        Val::DateTime(d) => (0..=9999).contains(&d.year()),
        _ => true,
    }
}

fn bin_matches_second(b: &BinVal, v: &MV) -> bool {
    match (b, v) {
        (BinVal::Int(i), MV::Int(j)) => i == j,
        (BinVal::UInt(i), MV::Int(j)) => *j >= 0 && *i == *j as u64,
        (BinVal::UInt(i), MV::UInt(j)) => i == j,
        (BinVal::Int(i), MV::UInt(j)) => *i >= 0 && *i as u64 == *j,
        (BinVal::F32(i), MV::Float(f)) => *i == f.to_bits(),
        (BinVal::F64(i), MV::Double(f)) => *i == f.to_bits(),
        (BinVal::Bytes(a), MV::Bytes(b)) => a == b,
        (BinVal::Date(_, y, m, d, h, mi, s, us), MV::Date(y2, m2, d2, h2, mi2, s2, us2)) => (y, m, d, h, mi, s, us) == (y2, m2, d2, h2, mi2, s2, us2),
        (BinVal::Time(_, n, d, h, m, s, us), MV::Time(n2, d2, h2, m2, s2, us2)) => (n, d, h, m, s, us) == (n2, d2, h2, m2, s2, us2),
        (BinVal::NullType, MV::NULL) => true,
        _ => false,
    }
}

/// cells are equal, or temporal values that differ only in the (legal) length form used
pub(crate) fn same_cell(a: &Cell, b: &Cell) -> bool {
    match (a, b) {
        (Cell::Bin(BinVal::Date(_, y, mo, d, h, mi, s, us)), Cell::Bin(BinVal::Date(_, y2, mo2, d2, h2, mi2, s2, us2))) => (y, mo, d, h, mi, s, us) == (y2, mo2, d2, h2, mi2, s2, us2),
        (Cell::Bin(BinVal::Time(_, n, d, h, m, s, us)), Cell::Bin(BinVal::Time(_, n2, d2, h2, m2, s2, us2))) => (n, d, h, m, s, us) == (n2, d2, h2, m2, s2, us2),
        _ => a == b,
    }
}

thread_local! {
    /// (parameters of the statement whose execution writes the rows, columns its PREPARE reply announced)
    static STMT_SHAPE: std::cell::Cell<(usize, usize)> = std::cell::Cell::new((0, 0));
}

struct RowsOut {
    rows: Vec<Vec<Cell>>,
    refused: bool,
}

/// write `rows` into a binary resultset with `cols`; decode; second opinion on every cell
fn run_rows(cols: &Arc<Vec<Column>>, rows: &[Vec<Val>], st: &mut Stats) -> Result<RowsOut, Violation> {
    let mut prog = vec![WOp::Start(cols.clone())];
    for (i, r) in rows.iter().enumerate() {
        if i % 2 == 0 {
            for v in r {
                prog.push(WOp::WriteCol(v.clone()));
            }
            prog.push(WOp::EndRow);
        } else {
            prog.push(WOp::WriteRow(r.clone()));
        }
    }
    prog.push(WOp::Finish);
    // the statement's own shape: how many parameters it takes (all sent inline as LONG) and how
    // many columns its PREPARE reply announced - neither may matter to the rows
    let (n_params, n_announced) = STMT_SHAPE.with(|x| x.get());
    let blk = exec_block(&(0..n_params).map(|i| ExecParam { ty: 0x03, unsigned: false, wire: Some(vec![i as u8, 1, 0, 0]), long: false }).collect::<Vec<_>>(), true);
    let conv = Conv::new(vec![ClientCmd::new(with_byte(COM_STMT_PREPARE, format!("id=1 p={}", n_params).as_bytes())), ClientCmd::new(cmd_execute(1, 0, 1, &blk)), ping()]);
    let s = conv.stream();
    let stream = Arc::new(s.bytes);
    let mut sim = sim_for(&stream, vec![]);
    sim.log_ops = false;
    let prog = Arc::new(prog);
    let behave = Box::new(move |_: usize, cb: &Cb| match cb {
        Cb::Prepare(_) => Behavior::PrepReply { id: 1, params: param_cols(n_params), cols: param_cols(n_announced) },
        Cb::Execute { .. } => Behavior::Prog(prog.clone()),
        _ => Behavior::Silent,
    });
    let o = run_conn(sim, ConnCfg::new(behave));
    st.transitions += rows.iter().map(|r| r.len() as u64).sum::<u64>();
    if let ConnResult::Panic(l, m) = &o.res {
        return Err(Violation::new(panic_key(l, m), format!("run_on panicked at {}: {}", l, m)));
    }
    if let Some(bad) = o.calls.iter().find(|c| c.res.is_err()) {
        if std::env::var("VERIF_DEBUG_REFUSAL").is_ok() {
            eprintln!("refused: call {} -> {:?}; run_on returned {}", bad.op, bad.res, o.res.short());
        }
        // nothing undecodable may have been sent
        match decode_all(delivered(&o), &conv, &s.last_seq, 2, true) {
            Ok(_) => {}
            Err(e) if e.contains("server output ends where") => {}
            Err(e) => return Err(Violation::new("refused-but-emitted", format!("a write was refused but the transport holds undecodable output: {}", e))),
        }
        return Ok(RowsOut { rows: vec![], refused: true });
    }
    if !o.res.is_ok() {
        return Err(Violation::new("result-not-ok", format!("run_on returned {}", o.res.short())));
    }
    let d = decode_all(delivered(&o), &conv, &s.last_seq, 3, false).map_err(|e| Violation::new("row-undecodable", e))?;
    let (defs, got) = match &d.replies[1][..] {
        [Unit::ResultSet { cols: defs, rows: got, end: Ok(_) }] => (defs.clone(), got.clone()),
        other => return Err(Violation::new("rows-missing", format!("reply is {:?}", other.iter().map(|u| format!("{:?}", u).chars().take(60).collect::<String>()).collect::<Vec<_>>()))),
    };
    // second opinion: walk the raw row messages again with mysql_common
    let pkts = split_packets(&o.sim.out).unwrap();
    let msgs = reassemble(&o.sim.out, &pkts).unwrap();
    let row_msgs: Vec<&Msg> = msgs.iter().filter(|m| m.data.first() == Some(&0) && m.data.len() >= 1 + (defs.len() + 9) / 8).collect();
    // the binary rows are the last `got.len()` such messages before the final EOF and the sentinel OK
    let mut candidates: Vec<&Msg> = Vec::new();
    for m in row_msgs {
        if bin_cell_ranges(&m.data, &defs).is_ok() && parse_bin_row(&m.data, &defs).is_ok() {
            candidates.push(m);
        }
    }
    for (ri, row) in got.iter().enumerate() {
        if let Some(m) = candidates.iter().find(|m| parse_bin_row(&m.data, &defs).ok().as_ref() == Some(row)) {
            let ranges = bin_cell_ranges(&m.data, &defs).unwrap();
            for (ci, r) in ranges.iter().enumerate() {
                if let (Some((a, b)), Cell::Bin(bv)) = (r, &row[ci]) {
                    let (v2, used) = second::bin_value(&m.data[*a..*b], defs[ci].ty, defs[ci].flags).map_err(|e| Violation::new("second-opinion", format!("row {} cell {}: {}", ri, ci, e)))?;
                    if used != b - a || !bin_matches_second(bv, &v2) {
                        return Err(Violation::new("decoders-disagree", format!("row {} cell {}: refwire reads {:?}, mysql_common {:?}", ri, ci, bv, v2)));
                    }
                }
            }
        }
    }
    Ok(RowsOut { rows: got, refused: false })
}

const CYCLE: [(ColumnType, bool); 12] = [
    (ColumnType::MYSQL_TYPE_TINY, false),
    (ColumnType::MYSQL_TYPE_VAR_STRING, false),
    (ColumnType::MYSQL_TYPE_LONGLONG, true),
    (ColumnType::MYSQL_TYPE_DOUBLE, false),
    (ColumnType::MYSQL_TYPE_DATE, false),
    (ColumnType::MYSQL_TYPE_SHORT, false),
    (ColumnType::MYSQL_TYPE_TIME, false),
    (ColumnType::MYSQL_TYPE_FLOAT, false),
    (ColumnType::MYSQL_TYPE_DATETIME, false),
    (ColumnType::MYSQL_TYPE_LONG, false),
    (ColumnType::MYSQL_TYPE_BLOB, false),
    (ColumnType::MYSQL_TYPE_YEAR, true),
];

fn cycle_value(i: usize, row: usize) -> Val {
    let k = (i * 7 + row * 3) as i64;
    match i % 12 {
        0 => Val::I8((k % 100) as i8 - 50),
        1 => Val::Str(format!("s{}", k)),
        2 => Val::U64(u64::MAX - k as u64),
        3 => Val::F64(k as f64 + 0.5),
        4 => Val::Date(NaiveDate::from_ymd_opt(2000 + (k % 20) as i32, 1 + (k % 12) as u32, 1 + (k % 28) as u32).unwrap()),
        5 => Val::I16(-((k % 30_000) as i16) - 1),
        6 => Val::Dur(Duration::new((k % 40_000) as u64 * 61 + 1, if k % 2 == 0 { 0 } else { 5000 })),
        7 => Val::F32(k as f32 * 0.25),
        8 => Val::DateTime(NaiveDate::from_ymd_opt(1999, 12, 31).unwrap().and_hms_micro_opt((k % 24) as u32, 59, 58, if k % 3 == 0 { 0 } else { 123456 }).unwrap()),
        9 => Val::I32(-1 - k as i32 * 1000),
        10 => Val::Bytes(vec![0xfb, k as u8, 0x00]),
        _ => Val::U16(1901 + (k % 200) as u16),
    }
}

fn cycle_cols(n: usize, not_null: &dyn Fn(usize) -> bool) -> Arc<Vec<Column>> {
    Arc::new(
        (0..n)
            .map(|i| {
                let (t, u) = CYCLE[i % 12];
                let mut f = if u { ColumnFlags::UNSIGNED_FLAG } else { ColumnFlags::empty() };
                if not_null(i) {
                    f |= ColumnFlags::NOT_NULL_FLAG;
                    // NOT NULL rarely comes alone: other flag bits next to it must not matter
                    f |= [ColumnFlags::empty(), ColumnFlags::PRI_KEY_FLAG | ColumnFlags::AUTO_INCREMENT_FLAG, ColumnFlags::UNIQUE_KEY_FLAG, ColumnFlags::BINARY_FLAG | ColumnFlags::NO_DEFAULT_VALUE_FLAG, ColumnFlags::MULTIPLE_KEY_FLAG][(i + n) % 5];
                }
                col(&format!("c{}", i), t, f)
            })
            .collect(),
    )
}

/// check rows written with NULL pattern `nulls[r][i]` against what came back
fn check_pattern(n: usize, patterns: &[Vec<bool>], st: &mut Stats) -> Result<(), Violation> {
    let cols = cycle_cols(n, &|_| false);
    let rows: Vec<Vec<Val>> = patterns.iter().enumerate().map(|(r, p)| (0..n).map(|i| if p[i] { Val::Null } else { cycle_value(i, r) }).collect()).collect();
    let out = run_rows(&cols, &rows, st)?;
    if out.refused {
        return Err(Violation::new("valid-row-refused", format!("a row of {} nullable columns was refused", n)));
    }
    if out.rows.len() != rows.len() {
        return Err(Violation::new("row-count", format!("{} rows written, {} decoded", rows.len(), out.rows.len())));
    }
    for (r, row) in rows.iter().enumerate() {
        for i in 0..n {
            let (t, u) = CYCLE[i % 12];
            let want = if patterns[r][i] { Cell::Null } else { Cell::Bin(expected_cell(&row[i], t as u8, u).expect("cycle values fit their columns")) };
            if !same_cell(&out.rows[r][i], &want) {
                let key = if (out.rows[r][i] == Cell::Null) != patterns[r][i] { "null-bitmap-wrong" } else { "cell-differs" };
                return Err(Violation::new(key, format!("{} columns, row {}, column {}: wrote {}, client decodes {:?}", n, r, i, val_short(&row[i]), out.rows[r][i])));
            }
        }
    }
    Ok(())
}

/// statements that take parameters *and* return rows: every pair of a parameter count and a column
/// count around the NULL-bitmap size classes of both (the parameter block's bitmap has offset 0,
/// the row's offset 2), with the PREPARE reply announcing the columns or none, five NULL patterns
struct ParamsMeetColumns;
const PMC_P: [usize; 9] = [0, 1, 2, 3, 7, 8, 9, 15, 20];
const PMC_C: [usize; 9] = [1, 2, 6, 7, 8, 14, 15, 16, 40];
impl Family for ParamsMeetColumns {
    fn name(&self) -> String {
        "statements-with-parameters-and-columns".into()
    }
    fn len(&self) -> u64 {
        (PMC_P.len() * PMC_C.len() * 2) as u64
    }
    fn run(&self, idx: u64, st: &mut Stats) -> Result<(), Violation> {
        let d = digits(idx, &[PMC_P.len() as u64, PMC_C.len() as u64, 2]);
        let (p, c) = (PMC_P[d[0] as usize], PMC_C[d[1] as usize]);
        st.nontrivial += 1;
        st.bump("parameters_meet_columns");
        let patterns: Vec<Vec<bool>> = vec![vec![false; c], (0..c).map(|i| i % 2 == 0).collect(), (0..c).map(|i| i + 1 == c).collect(), (0..c).map(|i| i == 0).collect(), vec![true; c], vec![false; c]];
        STMT_SHAPE.with(|x| x.set((p, if d[2] == 0 { c } else { 0 })));
        let r = check_pattern(c, &patterns, st);
        STMT_SHAPE.with(|x| x.set((0, 0)));
        r.map_err(|mut v| {
            v.msg = format!("a statement of {} parameters whose PREPARE reply announced {} columns: {}", p, if d[2] == 0 { c } else { 0 }, v.msg);
            v
        })
    }
    fn describe(&self, idx: u64) -> J {
        let d = digits(idx, &[PMC_P.len() as u64, PMC_C.len() as u64, 2]);
        json!({"parameters": PMC_P[d[0] as usize], "columns": PMC_C[d[1] as usize], "prepare_reply_announces_the_columns": d[2] == 0})
    }
}

struct AllPatterns {
    max_n: usize,
}
impl AllPatterns {
    fn locate(&self, idx: u64) -> (usize, u64) {
        let mut i = idx;
        for n in 1..=self.max_n {
            let c = 1u64 << n;
            if i < c {
                return (n, i);
            }
            i -= c;
        }
        unreachable!()
    }
}
impl Family for AllPatterns {
    fn ambient(&self, idx: u64) -> u64 {
        crate::engine::rot(idx)
    }
    fn name(&self) -> String {
        "all-null-patterns".into()
    }
    fn len(&self) -> u64 {
        (1..=self.max_n).map(|n| 1u64 << n).sum()
    }
    fn run(&self, idx: u64, st: &mut Stats) -> Result<(), Violation> {
        let (n, mask) = self.locate(idx);
        if n > 6 {
            st.nontrivial += 1; // the bitmap crosses a byte boundary
            st.bump("bitmaps_crossing_a_byte");
        }
        let p: Vec<bool> = (0..n).map(|i| mask & (1 << i) != 0).collect();
        let inv: Vec<bool> = p.iter().map(|b| !b).collect();
        check_pattern(n, &[p.clone(), inv, p], st)
    }
    fn describe(&self, idx: u64) -> J {
        let (n, mask) = self.locate(idx);
        json!({"columns": n, "null_mask_row0": format!("{:#b}", mask), "rows": "pattern, complement, pattern"})
    }
}

struct Structured {
    ns: Vec<usize>,
}
impl Structured {
    fn patterns(n: usize) -> Vec<Vec<bool>> {
        let mut v = vec![vec![false; n], vec![true; n]];
        v.push((0..n).map(|i| i % 2 == 0).collect());
        v.push((0..n).map(|i| i % 2 == 1).collect());
        if n > 1000 {
            // very wide lists: single NULLs / non-NULLs and prefixes around the positions where a
            // bitmap byte index passes 255 (column 2046), 511 and the last byte
            let marks: Vec<usize> = [0usize, 7, 8, 2037, 2038, 2045, 2046, 2047, 2048, 2053, 2054, 2055, 4093, 4094, 4095, n - 9, n - 8, n - 2, n - 1].iter().copied().filter(|i| *i < n).collect();
            for i in marks {
                v.push((0..n).map(|j| j == i).collect());
                v.push((0..n).map(|j| j != i).collect());
                v.push((0..n).map(|j| j < i).collect());
                v.push((0..n).map(|j| j >= i).collect());
            }
            return v;
        }
        let singles: Vec<usize> = if n <= 70 { (0..n).collect() } else { (0..n).filter(|i| *i < 10 || *i + 10 >= n || (i + 2) % 8 <= 1 && *i % 64 < 8).collect() };
        for i in singles {
            v.push((0..n).map(|j| j == i).collect());
            v.push((0..n).map(|j| j != i).collect());
        }
        let mut k = 6;
        while k < n {
            for e in [k - 1, k, k + 1] {
                if e < n {
                    v.push((0..n).map(|j| j < e).collect());
                    v.push((0..n).map(|j| j >= e).collect());
                }
            }
            k += if n <= 70 { 8 } else { 64 };
        }
        v
    }
}
impl Family for Structured {
    fn ambient(&self, idx: u64) -> u64 {
        crate::engine::rot(idx)
    }
    fn name(&self) -> String {
        "structured-null-patterns".into()
    }
    fn len(&self) -> u64 {
        self.ns.len() as u64
    }
    fn run(&self, idx: u64, st: &mut Stats) -> Result<(), Violation> {
        let n = self.ns[idx as usize];
        st.nontrivial += 1;
        let pats = Self::patterns(n);
        st.add("structured_patterns", pats.len() as u64);
        // several rows per resultset: consecutive patterns share a resultset
        for chunk in pats.chunks(4) {
            check_pattern(n, chunk, st)?;
            st.evals += 1;
        }
        Ok(())
    }
    fn describe(&self, idx: u64) -> J {
        json!({"columns": self.ns[idx as usize], "patterns": Self::patterns(self.ns[idx as usize]).len()})
    }
}

/// NULL into NOT NULL columns
struct NotNull;
impl Family for NotNull {
    fn ambient(&self, idx: u64) -> u64 {
        crate::engine::rot(idx)
    }
    fn name(&self) -> String {
        "not-null-columns".into()
    }
    fn len(&self) -> u64 {
        // n in 1..=6, all patterns, 4 flag placements
        (1..=6u32).map(|n| (1u64 << n) * 4).sum()
    }
    fn run(&self, idx: u64, st: &mut Stats) -> Result<(), Violation> {
        let mut i = idx;
        let mut n = 1usize;
        loop {
            let c = (1u64 << n) * 4;
            if i < c {
                break;
            }
            i -= c;
            n += 1;
        }
        let mask = i / 4;
        let placement = i % 4;
        let nn = move |k: usize| match placement {
            0 => false,
            1 => k == 0,
            2 => k + 1 == n,
            _ => true,
        };
        st.nontrivial += 1;
        let cols = cycle_cols(n, &nn);
        let p: Vec<bool> = (0..n).map(|k| mask & (1 << k) != 0).collect();
        let row: Vec<Val> = (0..n).map(|k| if p[k] { Val::Null } else { cycle_value(k, 0) }).collect();
        let conflict = (0..n).any(|k| p[k] && nn(k));
        // first a fully valid row, then the row under test
        let good: Vec<Val> = (0..n).map(|k| cycle_value(k, 1)).collect();
        let out = run_rows(&cols, &[good, row], st)?;
        if conflict {
            st.bump("null_into_not_null");
            if !out.refused {
                return Err(Violation::new("null-into-not-null-accepted", format!("{} columns, NULL mask {:#b} with NOT NULL placement {}: the row was accepted", n, mask, placement)));
            }
        } else if out.refused {
            return Err(Violation::new("valid-row-refused", format!("{} columns, NULL mask {:#b} with NOT NULL placement {}: refused", n, mask, placement)));
        }
        Ok(())
    }
    fn describe(&self, idx: u64) -> J {
        json!({"index": idx})
    }
}

fn value_palette() -> Vec<Val> {
    let d = NaiveDate::from_ymd_opt(2024, 2, 29).unwrap();
    let mut v = vec![
        Val::I8(-128),
        Val::I8(127),
        Val::U8(255),
        Val::I16(-32768),
        Val::U16(65535),
        Val::I32(i32::MIN),
        Val::U32(u32::MAX),
        Val::I64(i64::MIN),
        Val::I64(42),
        Val::U64(u64::MAX),
        Val::Isize(-5),
        Val::Usize(70000),
        Val::OptI32(Some(-7)),
        Val::F32(0.1),
        Val::F32(-3.4028235e38),
        Val::F64(0.1),
        Val::F64(1e308),
        Val::F64(-0.0),
        Val::Bytes(vec![]),
        Val::Bytes(vec![0xfb; 250]),
        Val::Bytes(vec![0xfc; 251]),
        Val::Bytes((0..70000).map(|i| (i % 256) as u8).collect()),
        Val::Str("h\u{e9}llo".into()),
        Val::OptStr(Some("o".into())),
        Val::Date(d),
        Val::Date(NaiveDate::from_ymd_opt(1, 1, 1).unwrap()),
        Val::Date(NaiveDate::from_ymd_opt(9999, 12, 31).unwrap()),
        Val::DateTime(d.and_hms_opt(0, 0, 0).unwrap()),
        Val::DateTime(d.and_hms_opt(23, 59, 59).unwrap()),
        Val::DateTime(d.and_hms_micro_opt(1, 2, 3, 999999).unwrap()),
        Val::DateTime(d.and_hms_micro_opt(0, 0, 0, 1).unwrap()),
        Val::Dur(Duration::new(0, 0)),
        Val::Dur(Duration::new(0, 1000)),
        Val::Dur(Duration::new(86399, 0)),
        Val::Dur(Duration::new(838 * 3600 + 59 * 60 + 59, 999_999_000)),
        Val::Dur(Duration::new(25 * 3600, 0)),
        Val::Dur(Duration::new(86400, 0)),
        Val::Dur(Duration::new(35 * 86400, 0)),
        Val::Dur(Duration::new(400 * 86400 + 5, 1000)),
        Val::Date(NaiveDate::from_ymd_opt(70000, 1, 1).unwrap()),
        Val::Date(NaiveDate::from_ymd_opt(-1, 12, 31).unwrap()),
        Val::DateTime(NaiveDate::from_ymd_opt(65536, 1, 1).unwrap().and_hms_opt(1, 2, 3).unwrap()),
        Val::Date(NaiveDate::from_ymd_opt(10000, 1, 1).unwrap()),
        Val::Dur(Duration::new(34 * 86400, 0)),
        Val::Dur(Duration::new(2 * 86400, 7000)),
        Val::Myc(MV::Time(false, 3, 0, 0, 0, 0)),
        Val::Myc(MV::Int(-1)),
        Val::Myc(MV::Int(300)),
        Val::Myc(MV::Int(i64::MAX)),
        Val::Myc(MV::UInt(u64::MAX)),
        Val::Myc(MV::Float(1.5)),
        Val::Myc(MV::Double(-2.5)),
        Val::Myc(MV::Bytes(b"bytes".to_vec())),
        Val::Myc(MV::Date(2020, 1, 2, 3, 4, 5, 6)),
        Val::Myc(MV::Date(2020, 1, 2, 0, 0, 0, 0)),
        Val::Myc(MV::Time(false, 1, 2, 3, 4, 5)),
        Val::Myc(MV::Time(false, 0, 0, 0, 0, 0)),
    ];
    v.push(Val::F32(f32::MIN_POSITIVE));
    v
}

const ALL_TYPES: [u8; 31] = [0x00, 0x01, 0x02, 0x03, 0x04, 0x05, 0x06, 0x07, 0x08, 0x09, 0x0a, 0x0b, 0x0c, 0x0d, 0x0e, 0x0f, 0x10, 0x11, 0x12, 0x13, 0xf5, 0xf6, 0xf7, 0xf8, 0xf9, 0xfa, 0xfb, 0xfc, 0xfd, 0xfe, 0xff];

/// every value source x every column type x signedness x NOT NULL
struct TypeMatrix {
    vals: Vec<Val>,
}
impl Family for TypeMatrix {
    fn name(&self) -> String {
        "value-x-column-type-matrix".into()
    }
    fn len(&self) -> u64 {
        (self.vals.len() * ALL_TYPES.len() * 4) as u64
    }
    fn run(&self, idx: u64, st: &mut Stats) -> Result<(), Violation> {
        let d = digits(idx, &[self.vals.len() as u64, ALL_TYPES.len() as u64, 2, 2]);
        let v = &self.vals[d[0] as usize];
        let ty = ALL_TYPES[d[1] as usize];
        let unsigned = d[2] == 1;
        let notnull = d[3] == 1;
        let ct = match ColumnType::try_from(ty) {
            Ok(c) => c,
            Err(_) => return Ok(()),
        };
        let mut f = if unsigned { ColumnFlags::UNSIGNED_FLAG } else { ColumnFlags::empty() };
        if notnull {
            f |= ColumnFlags::NOT_NULL_FLAG;
        }
        // flags that say nothing about how a value is carried ride along, rotating with the case
        f |= [ColumnFlags::empty(), ColumnFlags::ZEROFILL_FLAG, ColumnFlags::BINARY_FLAG | ColumnFlags::PART_KEY_FLAG, ColumnFlags::PRI_KEY_FLAG | ColumnFlags::AUTO_INCREMENT_FLAG | ColumnFlags::NUM_FLAG][((d[0] + d[1]) % 4) as usize];
        let cols = Arc::new(vec![col("pad", ColumnType::MYSQL_TYPE_TINY, ColumnFlags::empty()), col("c", ct, f), col("tail", ColumnType::MYSQL_TYPE_VAR_STRING, ColumnFlags::empty())]);
        let row = vec![Val::I8(0x11), v.clone(), Val::Str("tail".into())];
        st.nontrivial += 1;
        let what = format!("{} into column type {:?}{}{}", val_short(v), ct, if unsigned { " UNSIGNED" } else { "" }, if notnull { " NOT NULL" } else { "" });
        let out = run_rows(&cols, &[row.clone(), row], st).map_err(|mut e| {
            e.msg = format!("{}: {}", what, e.msg);
            // a panic while encoding is a crash of the shim's write call: keep its own key
            e
        })?;
        let exp = expected_cell(v, ty, unsigned);
        if out.refused {
            st.bump("matrix_refused");
            if must_accept(v, ty, unsigned) {
                return Err(Violation::new("natural-pairing-refused", format!("{}: refused", what)));
            }
            return Ok(());
        }
        st.bump("matrix_accepted");
        match exp {
            None => Err(Violation::new("mismatch-accepted", format!("{}: accepted although the column cannot carry the value; client decodes {:?}", what, out.rows[0][1]))),
            Some(bv) => {
                for r in 0..2 {
                    if !same_cell(&out.rows[r][1], &Cell::Bin(bv.clone())) {
                        return Err(Violation::new("cell-differs", format!("{}: client decodes {:?}, expected {:?}", what, out.rows[r][1], bv)));
                    }
                    if out.rows[r][0] != Cell::Bin(BinVal::Int(0x11)) || out.rows[r][2] != Cell::Bin(BinVal::Bytes(b"tail".to_vec())) {
                        return Err(Violation::new("neighbours-disturbed", format!("{}: neighbouring cells decode as {:?} / {:?}", what, out.rows[r][0], out.rows[r][2])));
                    }
                }
                Ok(())
            }
        }
    }
    fn describe(&self, idx: u64) -> J {
        let d = digits(idx, &[self.vals.len() as u64, ALL_TYPES.len() as u64, 2, 2]);
        json!({"value": val_short(&self.vals[d[0] as usize]), "column_type": format!("{:#04x}", ALL_TYPES[d[1] as usize]), "unsigned": d[2] == 1, "not_null": d[3] == 1})
    }
}

use msql_srv::ToMysqlValue;

/// every second of 0..=838:59:59 x microseconds, every calendar date, every second of a day:
/// encoded by the real to_mysql_bin and decoded by the column type
struct TemporalBin;
const USB: [u32; 3] = [0, 1, 999_999];
impl Family for TemporalBin {
    fn name(&self) -> String {
        "temporal-exhaustive-binary".into()
    }
    fn len(&self) -> u64 {
        839 + 10000 + 24 + 1
    }
    fn run(&self, idx: u64, st: &mut Stats) -> Result<(), Violation> {
        st.nontrivial += 1;
        let mut n = 0u64;
        let check = |v: &Val, ty: u8, ct: ColumnType| -> Result<(), Violation> {
            let c = col("c", ct, ColumnFlags::empty());
            let mut buf = Vec::with_capacity(16);
            match guarded(|| v.to_mysql_bin(&mut buf, &c)) {
                Ok(Ok(())) => {}
                Ok(Err(e)) => return Err(Violation::new("temporal-refused", format!("{} into {:?}: refused: {}", val_short(v), ct, e))),
                Err((l, m)) => return Err(Violation::new(panic_key(&l, &m), format!("{} into {:?}: panicked at {}: {}", val_short(v), ct, l, m))),
            }
            let mut cur = Cur::new(&buf);
            let got = parse_bin_value(&mut cur, ty, 0).map_err(|e| Violation::new("temporal-undecodable", format!("{} into {:?}: {}", val_short(v), ct, e)))?;
            if cur.left() != 0 {
                return Err(Violation::new("temporal-trailing-bytes", format!("{} into {:?}: {} trailing bytes", val_short(v), ct, cur.left())));
            }
            let want = expected_cell(v, ty, false).unwrap();
            // the length form may be any legal one that represents the same value
            let same = match (&got, &want) {
                (BinVal::Date(_, y, mo, d, h, mi, s, us), BinVal::Date(_, y2, mo2, d2, h2, mi2, s2, us2)) => (y, mo, d, h, mi, s, us) == (y2, mo2, d2, h2, mi2, s2, us2),
                (BinVal::Time(_, ng, d, h, m, s, us), BinVal::Time(_, ng2, d2, h2, m2, s2, us2)) => (ng, d, h, m, s, us) == (ng2, d2, h2, m2, s2, us2),
                _ => false,
            };
            if !same {
                return Err(Violation::new(format!("temporal-differs:{:#04x}", ty), format!("{} into {:?}: the client decodes {:?}", val_short(v), ct, got)));
            }
            let (v2, _) = second::bin_value(&buf, ty, 0).map_err(|e| Violation::new("second-opinion", e))?;
            if !bin_matches_second(&got, &v2) {
                return Err(Violation::new("decoders-disagree", format!("{}: refwire {:?}, mysql_common {:?}", val_short(v), got, v2)));
            }
            Ok(())
        };
        if idx == 839 + 10000 + 24 {
            // microsecond values of every decimal shape, midnight and other times, days boundaries
            let base = NaiveDate::from_ymd_opt(2024, 2, 29).unwrap();
            for us in super::c06::USX {
                for (h, m, sec) in [(0u32, 0u32, 0u32), (0, 0, 1), (12, 34, 56), (23, 59, 59)] {
                    check(&Val::DateTime(base.and_hms_micro_opt(h, m, sec, us).unwrap()), 0x0c, ColumnType::MYSQL_TYPE_DATETIME)?;
                    check(&Val::DateTime(base.and_hms_micro_opt(h, m, sec, us).unwrap()), 0x07, ColumnType::MYSQL_TYPE_TIMESTAMP)?;
                    n += 2;
                }
                for hours in [0u64, 1, 23, 24, 25, 47, 48, 72, 100, 240, 815, 816] {
                    for (m, sec) in [(0u64, 0u64), (59, 59), (7, 3)] {
                        check(&Val::Dur(Duration::new(hours * 3600 + m * 60 + sec, us * 1000)), 0x0b, ColumnType::MYSQL_TYPE_TIME)?;
                        n += 1;
                    }
                }
            }
            st.add("binary_microsecond_shapes", n);
            st.evals += n.saturating_sub(1);
            return Ok(());
        }
        if idx < 839 {
            let h = idx;
            for m in 0..60u64 {
                for sec in 0..60u64 {
                    for us in USB {
                        check(&Val::Dur(Duration::new(h * 3600 + m * 60 + sec, us * 1000)), 0x0b, ColumnType::MYSQL_TYPE_TIME)?;
                        n += 1;
                    }
                }
            }
            st.add("binary_durations", n);
        } else if idx < 10839 {
            let y = (idx - 839) as i32;
            let mut d = NaiveDate::from_ymd_opt(y, 1, 1).unwrap();
            while d.year() == y {
                check(&Val::Date(d), 0x0a, ColumnType::MYSQL_TYPE_DATE)?;
                n += 1;
                if d.day() == 1 || d.day() == 29 {
                    let us = USB[(d.ordinal() % 3) as usize];
                    let dt = d.and_hms_micro_opt(d.ordinal() % 24, d.month() * 4, d.day(), us).unwrap();
                    check(&Val::DateTime(dt), 0x0c, ColumnType::MYSQL_TYPE_DATETIME)?;
                    check(&Val::DateTime(dt), 0x07, ColumnType::MYSQL_TYPE_TIMESTAMP)?;
                    n += 2;
                }
                d = match d.succ_opt() {
                    Some(x) => x,
                    None => break,
                };
            }
            st.add("binary_dates", n);
        } else {
            let h = (idx - 10839) as u32;
            let base = NaiveDate::from_ymd_opt(2023, 12, 31).unwrap();
            for m in 0..60 {
                for sec in 0..60 {
                    for us in USB {
                        check(&Val::DateTime(base.and_hms_micro_opt(h, m, sec, us).unwrap()), 0x0c, ColumnType::MYSQL_TYPE_DATETIME)?;
                        n += 1;
                    }
                }
            }
            st.add("binary_times_of_day", n);
        }
        st.evals += n.saturating_sub(1);
        Ok(())
    }
    fn describe(&self, idx: u64) -> J {
        if idx == 839 + 10000 + 24 {
            json!({"microseconds": super::c06::USX, "at": "4 times of day and 36 durations"})
        } else if idx < 839 {
            json!({"every_second_of_duration_hour": idx, "microseconds": USB})
        } else if idx < 10839 {
            json!({"every_day_of_year": idx - 839})
        } else {
            json!({"every_second_of_hour": idx - 10839})
        }
    }
}

/// a refused cell followed by a replacement for the same column: the row must carry the
/// values that were accepted
struct Recover;
#[derive(Clone)]
struct Bad {
    v: Val,
    what: &'static str,
    /// column type the refused value is offered to (None: the LONG NOT NULL column of the others)
    /// with a replacement that fits it and what the client must then decode (length form ignored)
    own: Option<(ColumnType, Val, BinVal)>,
}
impl Recover {
    fn bads() -> Vec<Bad> {
        let d = NaiveDate::from_ymd_opt(2024, 2, 29).unwrap();
        let date = (ColumnType::MYSQL_TYPE_DATE, Val::Date(d), BinVal::Date(4, 2024, 2, 29, 0, 0, 0, 0));
        let dt = (ColumnType::MYSQL_TYPE_DATETIME, Val::DateTime(d.and_hms_micro_opt(1, 2, 3, 40).unwrap()), BinVal::Date(11, 2024, 2, 29, 1, 2, 3, 40));
        let tm = (ColumnType::MYSQL_TYPE_TIME, Val::Dur(Duration::new(90061, 5000)), BinVal::Time(12, false, 1, 1, 1, 1, 5));
        let b = |v: Val, what: &'static str, own: Option<(ColumnType, Val, BinVal)>| Bad { v, what, own };
        vec![
            b(Val::Null, "NULL into NOT NULL", None),
            b(Val::Str("text".into()), "string into an integer column", None),
            b(Val::I64(i64::MAX), "integer beyond the column", None),
            b(Val::Myc(MV::Date(2021, 13, 1, 0, 0, 0, 0)), "invalid generic date", None),
            b(Val::Myc(MV::Time(true, 0, 1, 0, 0, 0)), "negative generic time", None),
            b(Val::F64(1.5), "double into an integer column", None),
            b(Val::Date(NaiveDate::from_ymd_opt(70000, 1, 1).unwrap()), "date whose year the wire format cannot carry, into a DATE column", Some(date.clone())),
            b(Val::DateTime(NaiveDate::from_ymd_opt(-1, 12, 31).unwrap().and_hms_opt(1, 2, 3).unwrap()), "datetime before year 0, into a DATETIME column", Some(dt.clone())),
            b(Val::Dur(Duration::new(40 * 86400, 0)), "duration beyond the TIME range, into a TIME column", Some(tm.clone())),
            b(Val::Myc(MV::Date(2024, 2, 29, 24, 0, 0, 0)), "generic datetime with hour 24, into a DATETIME column", Some(dt.clone())),
            b(Val::Myc(MV::Date(2016, 12, 31, 23, 59, 60, 0)), "generic datetime with second 60, into a DATETIME column", Some(dt.clone())),
            b(Val::Myc(MV::Time(false, 40, 0, 0, 0, 0)), "generic time of 40 days, into a TIME column", Some(tm.clone())),
            b(Val::Myc(MV::Date(2021, 2, 30, 0, 0, 0, 0)), "generic date February 30, into a DATE column", Some(date)),
        ]
    }
}
impl Family for Recover {
    fn ambient(&self, idx: u64) -> u64 {
        crate::engine::rot(idx)
    }
    fn name(&self) -> String {
        "refused-cell-then-replacement".into()
    }
    fn len(&self) -> u64 {
        (Self::bads().len() * 4 * 2) as u64
    }
    fn run(&self, idx: u64, st: &mut Stats) -> Result<(), Violation> {
        let bads = Self::bads();
        let d = digits(idx, &[bads.len() as u64, 4, 2]);
        let Bad { v: bad, what, own } = bads[d[0] as usize].clone();
        let pos = d[1] as usize;
        let second_row = d[2] == 1;
        st.nontrivial += 1;
        st.bump("recoveries");
        let cols: Arc<Vec<Column>> = Arc::new(
            (0..4)
                .map(|i| match (&own, i == pos) {
                    (Some((ct, _, _)), true) => col(&format!("c{}", i), *ct, ColumnFlags::empty()),
                    _ => col(&format!("c{}", i), ColumnType::MYSQL_TYPE_LONG, ColumnFlags::NOT_NULL_FLAG),
                })
                .collect(),
        );
        let good_at_pos = |k: i32| match &own {
            Some((_, v, _)) => v.clone(),
            None => Val::I32(k),
        };
        let mut prog = vec![WOp::Start(cols.clone())];
        if second_row {
            prog.push(WOp::WriteRow((0..4).map(|i| if i as usize == pos { good_at_pos(100 + i) } else { Val::I32(100 + i) }).collect()));
        }
        for i in 0..4 {
            if i == pos {
                prog.push(WOp::WriteColOr(bad.clone(), good_at_pos(-7)));
            } else {
                prog.push(WOp::WriteCol(Val::I32(10 + i as i32)));
            }
        }
        prog.push(WOp::EndRow);
        prog.push(WOp::Finish);
        let conv = Conv::new(vec![ClientCmd::new(with_byte(COM_STMT_PREPARE, b"id=1 p=0")), ClientCmd::new(cmd_execute(1, 0, 1, &[])), ping()]);
        let s = conv.stream();
        let stream = Arc::new(s.bytes);
        let mut sim = sim_for(&stream, vec![]);
        sim.log_ops = false;
        let prog = Arc::new(prog);
        let o = run_conn(sim, ConnCfg::new(Box::new(move |_, cb| match cb {
            Cb::Prepare(_) => Behavior::PrepReply { id: 1, params: param_cols(0), cols: param_cols(0) },
            Cb::Execute { .. } => Behavior::Prog(prog.clone()),
            _ => Behavior::Silent,
        })));
        if let ConnResult::Panic(l, m) = &o.res {
            return Err(Violation::new(panic_key(l, m), format!("{} at column {}: run_on panicked at {}: {}", what, pos, l, m)));
        }
        let first_refused = o.calls.iter().any(|c| c.res.as_ref().err().map(|e| e == "first alternative refused").unwrap_or(false));
        if !first_refused {
            return Err(Violation::new("bad-cell-accepted", format!("{} at column {}: the write was accepted", what, pos)));
        }
        let hard_err = o.calls.iter().any(|c| c.res.as_ref().err().map(|e| e != "first alternative refused").unwrap_or(false));
        if hard_err {
            // the implementation refuses to continue the row: acceptable, as long as nothing
            // malformed was sent
            st.bump("recovery_not_supported");
            return match decode_all(delivered(&o), &conv, &s.last_seq, 2, true) {
                Ok(_) => Ok(()),
                Err(e) if e.contains("server output ends where") => Ok(()),
                Err(e) => Err(Violation::new("refused-but-emitted", e)),
            };
        }
        if !o.res.is_ok() {
            return Err(Violation::new("result-not-ok", format!("{} at column {}: run_on returned {}", what, pos, o.res.short())));
        }
        let dd = decode_all(delivered(&o), &conv, &s.last_seq, 3, false).map_err(|e| Violation::new("row-undecodable", format!("{} at column {}: {}", what, pos, e)))?;
        match &dd.replies[1][..] {
            [Unit::ResultSet { rows, .. }] if rows.len() == 1 + second_row as usize => {
                let r = rows.last().unwrap();
                for i in 0..4 {
                    let ok = match (&own, i == pos) {
                        (Some((_, _, want)), true) => match (&r[i], want) {
                            (Cell::Bin(BinVal::Date(_, y, mo, d, h, mi, s, us)), BinVal::Date(_, y2, mo2, d2, h2, mi2, s2, us2)) => (y, mo, d, h, mi, s, us) == (y2, mo2, d2, h2, mi2, s2, us2),
                            (Cell::Bin(BinVal::Time(_, ng, d, h, m, s, us)), BinVal::Time(_, ng2, d2, h2, m2, s2, us2)) => (ng, d, h, m, s, us) == (ng2, d2, h2, m2, s2, us2),
                            _ => false,
                        },
                        _ => r[i] == Cell::Bin(BinVal::Int(if i == pos { -7 } else { 10 + i as i64 })),
                    };
                    if !ok {
                        return Err(Violation::new("recovered-row-differs", format!("{} at column {} then replacement: client decodes {:?}", what, pos, r)));
                    }
                }
            }
            other => return Err(Violation::new("recovered-row-missing", format!("{} at column {}: reply {:?}", what, pos, other.len()))),
        }
        Ok(())
    }
    fn describe(&self, idx: u64) -> J {
        let bads = Self::bads();
        let d = digits(idx, &[bads.len() as u64, 4, 2]);
        json!({"refused_value": bads[d[0] as usize].what, "column": d[1], "after_a_good_row": d[2] == 1})
    }
}


/// one row built partly with write_col and partly with write_row, over columns that differ in
/// width and signedness: each value must be checked and encoded against *its own* column
/// whichever call delivers it. Every split point; plain rows (each value fits its column) and
/// trap rows (one value fits the column it would have if the row were counted from the split,
/// but not its own).
pub struct MixedRows;
impl MixedRows {
    fn cols() -> Arc<Vec<Column>> {
        Arc::new(vec![
            col("a", ColumnType::MYSQL_TYPE_SHORT, ColumnFlags::empty()),
            col("b", ColumnType::MYSQL_TYPE_SHORT, ColumnFlags::UNSIGNED_FLAG),
            col("c", ColumnType::MYSQL_TYPE_LONGLONG, ColumnFlags::UNSIGNED_FLAG),
            col("d", ColumnType::MYSQL_TYPE_TINY, ColumnFlags::empty()),
        ])
    }
    fn good() -> Vec<(Val, BinVal)> {
        vec![(Val::I16(-2), BinVal::Int(-2)), (Val::U16(65000), BinVal::UInt(65000)), (Val::U64((1 << 63) + 5), BinVal::UInt((1 << 63) + 5)), (Val::I8(-100), BinVal::Int(-100))]
    }
    /// (split, trap position or 4 for none, rows before)
    fn case(idx: u64) -> (usize, usize, usize) {
        let d = digits(idx, &[5, 5, 2]);
        (d[0] as usize, d[1] as usize, d[2] as usize)
    }
}
impl Family for MixedRows {
    fn ambient(&self, idx: u64) -> u64 {
        crate::engine::rot(idx)
    }
    fn name(&self) -> String {
        "rows-built-by-write_col-then-write_row".into()
    }
    fn len(&self) -> u64 {
        50
    }
    fn run(&self, idx: u64, st: &mut Stats) -> Result<(), Violation> {
        let (split, trap, pre) = Self::case(idx);
        let good = Self::good();
        let mut vals: Vec<Val> = good.iter().map(|g| g.0.clone()).collect();
        let mut trapped = false;
        if trap < 4 {
            // the value that would fit column (trap - split), delivered at position trap
            if trap < split || split == 0 {
                st.skipped += 1;
                return Ok(());
            }
            let v = good[trap - split].0.clone();
            let own = &Self::cols()[trap];
            let fits = expected_cell(&v, own.coltype as u8, own.colflags.contains(ColumnFlags::UNSIGNED_FLAG)).is_some() && must_accept(&v, own.coltype as u8, own.colflags.contains(ColumnFlags::UNSIGNED_FLAG));
            if fits {
                st.skipped += 1;
                return Ok(());
            }
            vals[trap] = v;
            trapped = true;
        }
        st.nontrivial += 1;
        st.bump("mixed_rows");
        let cols = Self::cols();
        let mut prog = vec![WOp::Start(cols.clone())];
        for _ in 0..pre {
            prog.push(WOp::WriteRow(good.iter().map(|g| g.0.clone()).collect()));
        }
        for v in &vals[..split] {
            prog.push(WOp::WriteCol(v.clone()));
        }
        prog.push(WOp::WriteRow(vals[split..].to_vec()));
        prog.push(WOp::Finish);
        let conv = Conv::new(vec![ClientCmd::new(with_byte(COM_STMT_PREPARE, b"id=1 p=0")), ClientCmd::new(cmd_execute(1, 0, 1, &[])), ping()]);
        let s = conv.stream();
        let stream = Arc::new(s.bytes);
        let mut sim = sim_for(&stream, vec![]);
        sim.log_ops = false;
        let prog = Arc::new(prog);
        let o = run_conn(sim, ConnCfg::new(Box::new(move |_, cb| match cb {
            Cb::Prepare(_) => Behavior::PrepReply { id: 1, params: param_cols(0), cols: param_cols(0) },
            Cb::Execute { .. } => Behavior::Prog(prog.clone()),
            _ => Behavior::Silent,
        })));
        let what = format!("{} value(s) by write_col, the remaining {} by write_row{}{}", split, 4 - split, if trapped { format!(", position {} holds {:?}", trap, vals[trap]) } else { String::new() }, if pre > 0 { ", after one complete row" } else { "" });
        if let ConnResult::Panic(l, m) = &o.res {
            return Err(Violation::new(panic_key(l, m), format!("{}: run_on panicked at {}: {}", what, l, m)));
        }
        let refused = o.calls.iter().any(|c| c.res.is_err());
        if refused {
            if !trapped {
                return Err(Violation::new("fitting-row-refused", format!("{}: every value fits its own column, yet a call failed: {:?}", what, o.calls.iter().find(|c| c.res.is_err()).map(|c| c.res.clone()))));
            }
            st.bump("mixed_rows_trap_refused");
            return match decode_all(delivered(&o), &conv, &s.last_seq, 2, true) {
                Ok(_) => Ok(()),
                Err(e) if e.contains("server output ends where") => Ok(()),
                Err(e) => Err(Violation::new("refused-but-emitted", format!("{}: {}", what, e))),
            };
        }
        if trapped {
            return Err(Violation::new("foreign-value-accepted", format!("{}: the value cannot be represented by its own column, yet every call succeeded", what)));
        }
        if !o.res.is_ok() {
            return Err(Violation::new("result-not-ok", format!("{}: run_on returned {}", what, o.res.short())));
        }
        let d = decode_all(delivered(&o), &conv, &s.last_seq, 3, false).map_err(|e| Violation::new("row-undecodable", format!("{}: {}", what, e)))?;
        let want: Vec<Cell> = good.iter().map(|g| Cell::Bin(g.1.clone())).collect();
        match &d.replies[1][..] {
            [Unit::ResultSet { rows, end: Ok(_), .. }] if rows.len() == pre + 1 && rows.iter().all(|r| *r == want) => Ok(()),
            other => Err(Violation::new("mixed-row-differs", format!("{}: decoded {:?}", what, other.iter().map(|u| format!("{:?}", u).chars().take(300).collect::<String>()).collect::<Vec<_>>()))),
        }
    }
    fn describe(&self, idx: u64) -> J {
        let (split, trap, pre) = Self::case(idx);
        json!({"values_by_write_col": split, "values_by_write_row": 4 - split, "trap_position": if trap < 4 { Some(trap) } else { None }, "complete_rows_before": pre, "columns": "SHORT, SHORT UNSIGNED, BIGINT UNSIGNED, TINY"})
    }
}

/// One binary resultset of very many rows (beyond 2^12, 2^13, 2^16): the first row long, the rest
/// short, NULL patterns and values moving with the row number - for per-resultset row counters and
/// "every K-th row" maintenance of the row buffer. Every row is decoded and compared.
struct ManyRows {
    ns: Vec<usize>,
}
impl Family for ManyRows {
    fn name(&self) -> String {
        "very-many-rows-in-one-binary-resultset".into()
    }
    fn len(&self) -> u64 {
        self.ns.len() as u64 * 2
    }
    fn max_threads(&self) -> Option<usize> {
        Some(8)
    }
    fn run(&self, idx: u64, st: &mut Stats) -> Result<(), Violation> {
        let n = self.ns[(idx / 2) as usize];
        let wide = idx % 2 == 1;
        st.nontrivial += 1;
        st.bump("many_rows");
        let ncols = if wide { 10 } else { 3 };
        let cols: Arc<Vec<Column>> = Arc::new(
            (0..ncols)
                .map(|i| col(&format!("c{}", i), if i % 3 == 1 { ColumnType::MYSQL_TYPE_VAR_STRING } else { ColumnType::MYSQL_TYPE_LONG }, ColumnFlags::empty()))
                .collect(),
        );
        let row = |r: usize| -> Vec<Val> {
            (0..ncols)
                .map(|i| {
                    if (r + i) % 5 == 0 && r > 0 {
                        Val::Null
                    } else if i % 3 == 1 {
                        Val::Str(if r == 0 { "L".repeat(300) } else { format!("r{}", r % 1000) })
                    } else {
                        Val::I32((r * 7 + i) as i32)
                    }
                })
                .collect()
        };
        let mut prog = vec![WOp::Start(cols.clone())];
        for r in 0..n {
            if r % 2 == 0 {
                prog.push(WOp::WriteRow(row(r)));
            } else {
                for v in row(r) {
                    prog.push(WOp::WriteCol(v));
                }
                prog.push(WOp::EndRow);
            }
        }
        prog.push(WOp::Finish);
        let conv = Conv::new(vec![ClientCmd::new(with_byte(COM_STMT_PREPARE, b"id=1 p=0")), ClientCmd::new(cmd_execute(1, 0, 1, &[])), ping()]);
        let s = conv.stream();
        let stream = Arc::new(s.bytes);
        let mut sim = sim_for(&stream, vec![]);
        sim.log_ops = false;
        let prog = Arc::new(prog);
        let behave = Box::new(move |_: usize, cb: &Cb| match cb {
            Cb::Prepare(_) => Behavior::PrepReply { id: 1, params: param_cols(0), cols: param_cols(0) },
            Cb::Execute { .. } => Behavior::Prog(prog.clone()),
            _ => Behavior::Silent,
        });
        let o = run_conn(sim, ConnCfg::new(behave));
        st.transitions += n as u64;
        let what = format!("{} rows of {} columns", n, ncols);
        if let ConnResult::Panic(l, m) = &o.res {
            return Err(Violation::new(panic_key(l, m), format!("{}: run_on panicked at {}: {}", what, l, m)));
        }
        if !o.res.is_ok() {
            return Err(Violation::new("result-not-ok", format!("{}: run_on returned {}", what, o.res.short())));
        }
        let d = decode_all(delivered(&o), &conv, &s.last_seq, 3, false).map_err(|e| Violation::new("row-undecodable", format!("{}: {}", what, e)))?;
        match &d.replies[1][..] {
            [Unit::ResultSet { rows, end: Ok(_), .. }] if rows.len() == n => {
                for (r, got) in rows.iter().enumerate() {
                    for (i, v) in row(r).iter().enumerate() {
                        let (ty, uns) = (cols[i].coltype as u8, false);
                        let ok = match expected_cell(v, ty, uns) {
                            None => got[i] == Cell::Null,
                            Some(b) => same_cell(&got[i], &Cell::Bin(b)),
                        };
                        if !ok {
                            return Err(Violation::new("cell-differs-in-a-long-resultset", format!("{}: row {} column {}: wrote {}, the client decodes {:?}", what, r, i, val_short(v), got[i])));
                        }
                    }
                }
                Ok(())
            }
            other => Err(Violation::new("rows-missing", format!("{}: the reply has {} unit(s){}", what, other.len(), match other.first() { Some(Unit::ResultSet { rows, .. }) => format!(", {} rows", rows.len()), _ => String::new() }))),
        }
    }
    fn describe(&self, idx: u64) -> J {
        json!({"rows": self.ns[(idx / 2) as usize], "columns": if idx % 2 == 1 { 10 } else { 3 }})
    }
}

/// Two binary resultsets of different width on one connection with exactly N exchanges of another
/// kind in between, N around the points where 8- and 16-bit counters of resultsets / commands wrap:
/// a narrow one (2 columns, NULL in the second), N x (a one-row text resultset | a bare completion |
/// a zero-column set), then a wide one (10 columns, NULLs in columns 3 and 9). Every row compared.
struct ResultsetsBetween {
    ns: Vec<usize>,
}
const BETWEEN: [&str; 3] = ["one-row text resultsets", "bare completions", "zero-column resultsets of one row"];
impl Family for ResultsetsBetween {
    fn name(&self) -> String {
        "binary-resultsets-of-different-width-n-exchanges-apart".into()
    }
    fn len(&self) -> u64 {
        self.ns.len() as u64 * 3
    }
    fn max_threads(&self) -> Option<usize> {
        Some(8)
    }
    fn run(&self, idx: u64, st: &mut Stats) -> Result<(), Violation> {
        let n = self.ns[(idx / 3) as usize];
        let kind = (idx % 3) as usize;
        st.nontrivial += 1;
        st.bump("resultsets_between");
        let long = |k: usize| Arc::new((0..k).map(|i| col(&format!("c{}", i), ColumnType::MYSQL_TYPE_LONG, ColumnFlags::empty())).collect::<Vec<_>>());
        let (narrow, wide, text) = (long(2), long(10), Arc::new(vec![col("t", ColumnType::MYSQL_TYPE_VAR_STRING, ColumnFlags::empty())]));
        let narrow_row = vec![Val::I32(11), Val::Null];
        let wide_row: Vec<Val> = (0..10).map(|i| if i == 3 || i == 9 { Val::Null } else { Val::I32(100 + i) }).collect();
        let mut cmds = vec![ClientCmd::new(with_byte(COM_STMT_PREPARE, b"id=1 p=0")), ClientCmd::new(with_byte(COM_STMT_PREPARE, b"id=2 p=0")), ClientCmd::new(cmd_execute(1, 0, 1, &[]))];
        for _ in 0..n {
            cmds.push(q(b"between"));
        }
        cmds.push(ClientCmd::new(cmd_execute(2, 0, 1, &[])));
        cmds.push(ClientCmd::new(cmd_execute(1, 0, 1, &[])));
        cmds.push(ping());
        let conv = Conv::new(cmds);
        let s = conv.stream();
        let stream = Arc::new(s.bytes);
        let mut sim = sim_for(&stream, vec![]);
        sim.log_ops = false;
        let (n2, w2, nr, wr) = (narrow.clone(), wide.clone(), narrow_row.clone(), wide_row.clone());
        let behave = Box::new(move |_: usize, cb: &Cb| match cb {
            Cb::Prepare(t) => {
                let (id, p, c, _) = parse_prep(t);
                Behavior::PrepReply { id, params: param_cols(p), cols: param_cols(c) }
            }
            Cb::Execute { id: 1, .. } => Behavior::Prog(Arc::new(vec![WOp::Start(n2.clone()), WOp::WriteRow(nr.clone()), WOp::Finish])),
            Cb::Execute { .. } => Behavior::Prog(Arc::new(vec![WOp::Start(w2.clone()), WOp::WriteRow(wr.clone()), WOp::Finish])),
            Cb::Query(_) => Behavior::Prog(Arc::new(match kind {
                0 => vec![WOp::Start(text.clone()), WOp::WriteRow(vec![Val::Str("x".into())]), WOp::Finish],
                1 => vec![WOp::Completed(1, 0)],
                _ => vec![WOp::Start(Arc::new(Vec::new())), WOp::EndRow, WOp::Finish],
            })),
            _ => Behavior::Silent,
        });
        let o = run_conn(sim, ConnCfg::new(behave));
        st.transitions += n as u64 + 3;
        let what = format!("a 2-column binary resultset, {} {}, a 10-column one, the 2-column one again", n, BETWEEN[kind]);
        if let ConnResult::Panic(l, m) = &o.res {
            return Err(Violation::new(panic_key(l, m), format!("{}: run_on panicked at {}: {}", what, l, m)));
        }
        if !o.res.is_ok() {
            return Err(Violation::new("result-not-ok", format!("{}: run_on returned {}", what, o.res.short())));
        }
        let d = decode_all(delivered(&o), &conv, &s.last_seq, conv.cmds.len(), false).map_err(|e| Violation::new("row-undecodable", format!("{}: {}", what, e)))?;
        let check = |ri: usize, want: &Vec<Val>, cols: &Arc<Vec<Column>>| -> Result<(), Violation> {
            match &d.replies[ri][..] {
                [Unit::ResultSet { rows, end: Ok(_), .. }] if rows.len() == 1 => {
                    for (i, v) in want.iter().enumerate() {
                        let ok = match expected_cell(v, cols[i].coltype as u8, false) {
                            None => rows[0][i] == Cell::Null,
                            Some(b) => same_cell(&rows[0][i], &Cell::Bin(b)),
                        };
                        if !ok {
                            return Err(Violation::new("cell-differs-after-many-resultsets", format!("{}: reply {} column {}: wrote {}, the client decodes {:?}", what, ri, i, val_short(v), rows[0][i])));
                        }
                    }
                    Ok(())
                }
                other => Err(Violation::new("rows-missing", format!("{}: reply {} has {} unit(s)", what, ri, other.len()))),
            }
        };
        check(2, &narrow_row, &narrow)?;
        check(3 + n, &wide_row, &wide)?;
        check(4 + n, &narrow_row, &narrow)
    }
    fn describe(&self, idx: u64) -> J {
        json!({"exchanges_between": self.ns[(idx / 3) as usize], "kind": BETWEEN[(idx % 3) as usize]})
    }
}

/// temporal values at the edges of what chrono and std can hold but the protocol cannot: nanoseconds
/// below a microsecond (truncated or rounded - with the carry - but never out of range), chrono's
/// leap-second representation (second 59 with 10^9 or more nanoseconds: MySQL has no second 60),
/// durations of 2^32 days and more. Text and binary seam: the value is refused, or what the client
/// decodes is a legal value equal to the written one up to the microsecond.
pub struct TemporalEdges {
    pub bin: bool,
}
impl TemporalEdges {
    fn datetimes() -> Vec<chrono::NaiveDateTime> {
        let mut v = Vec::new();
        for (y, mo, d) in [(2024, 2, 29), (2016, 12, 31), (1999, 12, 31)] {
            let day = NaiveDate::from_ymd_opt(y, mo, d).unwrap();
            for (h, mi, s) in [(23u32, 59u32, 59u32), (0, 0, 0), (12, 34, 56)] {
                for ns in [1u32, 499, 500, 999, 1_000, 1_499, 1_500, 999_999_000, 999_999_499, 999_999_500, 999_999_999, 1_000_000_000, 1_000_000_001, 1_500_000_000, 1_999_999_999] {
                    if let Some(t) = day.and_hms_nano_opt(h, mi, s, ns) {
                        v.push(t);
                    }
                }
            }
        }
        v
    }
    fn durations() -> Vec<Duration> {
        let day = 86_400u64;
        let mut v = vec![Duration::new(5, 1), Duration::new(5, 499), Duration::new(5, 500), Duration::new(5, 999_999_499), Duration::new(5, 999_999_500), Duration::new(5, 999_999_999), Duration::new(34 * day + 86_399, 999_999_999)];
        for k in [1u64, 2, 3] {
            for extra in [0u64, 3 * day + 4 * 3600 + 5 * 60 + 6, 34 * day] {
                v.push(Duration::new((k << 32) * day + extra, 7_000));
            }
        }
        v.push(Duration::new(u64::MAX, 0));
        v.push(Duration::new(u64::MAX - 86_399, 999_999_999));
        v.push(Duration::new((1 << 32) * 3600, 0));
        v.push(Duration::new(1 << 32, 0));
        v
    }
}
impl Family for TemporalEdges {
    fn name(&self) -> String {
        format!("temporal-values-the-protocol-cannot-carry-{}", if self.bin { "binary" } else { "text" })
    }
    fn len(&self) -> u64 {
        1
    }
    fn run(&self, _idx: u64, st: &mut Stats) -> Result<(), Violation> {
        use chrono::Timelike;
        let bin = self.bin;
        st.nontrivial += 1;
        let mut n = 0u64;
        // (total microseconds since midnight / since zero) a decoded value may stand for
        let allowed = |secs: u64, ns: u32| -> Vec<u64> {
            let trunc = secs * 1_000_000 + (ns / 1_000) as u64;
            vec![trunc, trunc + if ns % 1_000 >= 500 { 1 } else { 0 }]
        };
        for t in Self::datetimes() {
            n += 1;
            let what = format!("{:?} ({} ns) as {}", t, t.nanosecond(), if bin { "binary DATETIME" } else { "text" });
            let leap = t.nanosecond() >= 1_000_000_000;
            let day_secs = (t.hour() * 3600 + t.minute() * 60 + t.second()) as u64;
            let mut buf = Vec::new();
            let r = guarded(|| if bin { t.to_mysql_bin(&mut buf, &col("c", ColumnType::MYSQL_TYPE_DATETIME, ColumnFlags::empty())) } else { t.to_mysql_text(&mut buf) });
            match r {
                Err((l, m)) => return Err(Violation::new(panic_key(&l, &m), format!("{}: panicked at {}: {}", what, l, m))),
                Ok(Err(_)) => {
                    // refusing is always allowed for what the protocol cannot carry; a plain value must be accepted
                    if !leap && t.nanosecond() % 1_000 == 0 {
                        return Err(Violation::new("temporal-refused", format!("{}: refused", what)));
                    }
                    st.bump("temporal_edges_refused");
                }
                Ok(Ok(())) => {
                    // a second 60 does not exist in MySQL: whatever is sent for a leap second is another value
                    if leap {
                        return Err(Violation::new("leap-second-encoded-as-something-else", format!("{}: accepted, bytes {:02x?}", what, &buf[..buf.len().min(32)])));
                    }
                    let (date_ok, us_of_day) = if bin {
                        let mut cur = Cur::new(&buf);
                        match parse_bin_value(&mut cur, 0x0c, 0).map_err(|e| Violation::new("temporal-undecodable", format!("{}: {}", what, e)))? {
                            BinVal::Date(_, y, mo, d, h, mi, s, us) if cur.left() == 0 => ((y as i32, mo as u32, d as u32), (h as u64 * 3600 + mi as u64 * 60 + s as u64) * 1_000_000 + us as u64),
                            other => return Err(Violation::new("temporal-undecodable", format!("{}: decodes to {:?} with {} bytes left", what, other, cur.left()))),
                        }
                    } else {
                        let cell = parse_text_row(&buf, 1).map_err(|e| Violation::new("temporal-undecodable", format!("{}: {}", what, e)))?;
                        let txt = match &cell[0] {
                            Cell::Text(t) => String::from_utf8_lossy(t).to_string(),
                            other => return Err(Violation::new("temporal-undecodable", format!("{}: {:?}", what, other))),
                        };
                        // YYYY-MM-DD HH:MM:SS[.ffffff]
                        let parsed = (|| -> Option<((i32, u32, u32), u64)> {
                            let (d, tm) = txt.split_once(' ')?;
                            let mut dp = d.split('-');
                            let ymd = (dp.next()?.parse().ok()?, dp.next()?.parse().ok()?, dp.next()?.parse().ok()?);
                            let (hms, frac) = match tm.split_once('.') {
                                Some((a, f)) => (a, f),
                                None => (tm, ""),
                            };
                            if frac.len() > 6 || !frac.bytes().all(|b| b.is_ascii_digit()) {
                                return None;
                            }
                            let mut tp = hms.split(':');
                            let (h, mi, s): (u64, u64, u64) = (tp.next()?.parse().ok()?, tp.next()?.parse().ok()?, tp.next()?.parse().ok()?);
                            if h > 23 || mi > 59 || s > 59 {
                                return None;
                            }
                            let us: u64 = format!("{:0<6}", frac).parse().ok()?;
                            Some((ymd, (h * 3600 + mi * 60 + s) * 1_000_000 + us))
                        })();
                        match parsed {
                            Some(p) => p,
                            None => return Err(Violation::new("temporal-text-malformed", format!("{}: the client cannot read {:?} as a datetime", what, txt))),
                        }
                    };
                    use chrono::Datelike;
                    let want_date = (t.year(), t.month(), t.day());
                    let ok_us = allowed(day_secs, t.nanosecond());
                    // rounding up at 23:59:59.9999995 would carry into the next day: truncation is then the only same-day answer
                    if date_ok != want_date || !ok_us.contains(&us_of_day) {
                        return Err(Violation::new("temporal-differs", format!("{}: the client decodes {:?} and {} microseconds into the day", what, date_ok, us_of_day)));
                    }
                }
            }
        }
        for d in Self::durations() {
            n += 1;
            let what = format!("Duration {{ secs: {}, nanos: {} }} as {}", d.as_secs(), d.subsec_nanos(), if bin { "binary TIME" } else { "text" });
            let representable = d.as_secs() < 35 * 86_400;
            let mut buf = Vec::new();
            let r = guarded(|| if bin { d.to_mysql_bin(&mut buf, &col("c", ColumnType::MYSQL_TYPE_TIME, ColumnFlags::empty())) } else { d.to_mysql_text(&mut buf) });
            match r {
                Err((l, m)) => {
                    // a panic counts as a refusal for values far outside the range, not for plain ones
                    if representable {
                        return Err(Violation::new(panic_key(&l, &m), format!("{}: panicked at {}: {}", what, l, m)));
                    }
                    st.bump("temporal_edges_refused");
                }
                Ok(Err(_)) => {
                    if representable && d.subsec_nanos() % 1_000 == 0 {
                        return Err(Violation::new("temporal-refused", format!("{}: refused", what)));
                    }
                    st.bump("temporal_edges_refused");
                }
                Ok(Ok(())) => {
                    let total_us = if bin {
                        let mut cur = Cur::new(&buf);
                        match parse_bin_value(&mut cur, 0x0b, 0).map_err(|e| Violation::new("temporal-undecodable", format!("{}: {}", what, e)))? {
                            BinVal::Time(_, false, days, h, m, s, us) if cur.left() == 0 => ((days as u64 * 24 + h as u64) * 3600 + m as u64 * 60 + s as u64) as u128 * 1_000_000 + us as u128,
                            other => return Err(Violation::new("temporal-undecodable", format!("{}: decodes to {:?}", what, other))),
                        }
                    } else {
                        let cell = parse_text_row(&buf, 1).map_err(|e| Violation::new("temporal-undecodable", format!("{}: {}", what, e)))?;
                        let txt = match &cell[0] {
                            Cell::Text(t) => t.clone(),
                            other => return Err(Violation::new("temporal-undecodable", format!("{}: {:?}", what, other))),
                        };
                        match super::c06::parse_time(&txt) {
                            Some((h, m, s, us)) => (h as u128 * 3600 + m as u128 * 60 + s as u128) * 1_000_000 + us as u128,
                            None => return Err(Violation::new("temporal-text-malformed", format!("{}: the client cannot read {:?} as a time", what, String::from_utf8_lossy(&txt)))),
                        }
                    };
                    let ok: Vec<u128> = allowed(0, d.subsec_nanos()).iter().map(|x| d.as_secs() as u128 * 1_000_000 + *x as u128).collect();
                    if !ok.contains(&total_us) {
                        return Err(Violation::new("temporal-differs", format!("{}: accepted, the client decodes {} microseconds", what, total_us)));
                    }
                }
            }
        }
        st.add("temporal_edges", n);
        st.evals += n.saturating_sub(1);
        Ok(())
    }
    fn describe(&self, _idx: u64) -> J {
        json!({"seam": if self.bin { "to_mysql_bin" } else { "to_mysql_text" }, "values": "sub-microsecond nanoseconds, leap seconds, durations of 2^32 days and more"})
    }
}

pub fn build(quick: bool) -> Check {
    let mut ns: Vec<usize> = (13..=70).collect();
    ns.extend([127, 128, 129, 255, 256, 257, 300, 511, 512, 513, 1000, 2046, 2047, 2048, 2049, 2054, 2100, 4097, 16_384, 65_535]);
    if quick {
        ns.retain(|n| *n <= 40 || [62, 63, 64, 65, 70, 127, 128, 129, 255, 256, 257, 1000, 2046, 2047, 2049, 2100, 4097].contains(n));
    }
    Check {
        id: "C07",
        level: "model_checking",
        rule: format!("statements of 0..20 parameters returning rows of 1..40 columns (every pair around the bitmap size classes of both, the PREPARE reply announcing the columns or none, five NULL patterns); binary resultsets through the real run_on, decoded from the advertised column definitions by refwire and cell by cell by mysql_common's BinValue: column counts 1..{} x all 2^n NULL patterns (three rows: pattern, complement, pattern) with 12 cycling column types of different widths; column counts up to 1000 with structured patterns (none, all, every single NULL / non-NULL, alternations, prefixes/suffixes ending around every multiple of 8) and of 2046..4097 (thorough: 16384, 65535) columns with single NULLs / non-NULLs and prefixes / suffixes around columns 2038..2055, 4093..4095 and the last bitmap byte; NULL into NOT NULL for all patterns of <= 6 columns x 4 flag placements; the matrix of {} value sources x all 31 column types x signedness x NOT NULL; at the to_mysql_bin seam every second of 0..838:59:59 x 3 microsecond values as TIME, every calendar date of years 0..9999 as DATE, every second of a day x 3 microsecond values as DATETIME, 22 microsecond values of every decimal shape at midnight and other times and at day boundaries of TIME; a refused cell (NULL into NOT NULL, wrong type, out of range, invalid generic date/time) at each column followed by a replacement value; rows built partly by write_col and partly by write_row over columns of different width and signedness, every split point, with values that fit a neighbouring column but not their own. Oracle: decoded cells equal the written values, bitmap bits = NULL cells exactly, natural pairings accepted, anything accepted is exact, mismatches refused without emitting undecodable output. Temporal values the protocol cannot carry (nanoseconds below a microsecond, chrono's leap second, durations of 2^32 days and more): refused, or decoded to a legal value equal to the written one up to the microsecond. Binary resultsets of 2 and 10 columns exactly N exchanges apart (N = 0, 1, 254..257, 65534..65537; thorough: more) with text resultsets, completions or zero-column sets in between. Very many rows: one binary resultset of 4097 / 8193 / 16385 / 65537 (thorough: up to 300000) rows of 3 and 10 columns, first row long, NULLs and values moving with the row number, every row compared. Values in context: every sequence of <= 3 (thorough: 4) events on one connection (rows of other shapes incl. all-NULL / alternating NULLs / 300- and 70000-byte cells, a refused cell, a new resultset behind finish_one with the same or other columns, behind a completion, behind a zero-column set, a new command in the same or the other protocol, finish_error) followed by a probe row of characteristic values for nine column types; every row of the conversation must decode cell for cell to what was written. Non-trivial = bitmap crosses a byte boundary or a type pairing the unit tests never make.", if quick {12} else {14}, value_palette().len()),
        assumptions: vec!["integer range rules are C15's; here an accepted integer must be exact".into()],
        bounds: json!({"exhaustive_null_patterns_up_to_columns": if quick {12} else {14}, "max_columns": if quick {4097} else {65535}}),
        exhaustive: true,
        caps_hit: vec![],
        families: vec![Box::new(ParamsMeetColumns), Box::new(AllPatterns { max_n: if quick { 12 } else { 14 } }), Box::new(Structured { ns }), Box::new(NotNull), Box::new(TypeMatrix { vals: value_palette() }), Box::new(TemporalBin), Box::new(Recover), Box::new(MixedRows), Box::new(super::aftermath::Aftermath { prop: "C07" }), Box::new(TemporalEdges { bin: true }), Box::new(ResultsetsBetween { ns: if quick { vec![0, 1, 254, 255, 256, 257, 65_534, 65_535, 65_536, 65_537] } else { vec![0, 1, 2, 126, 127, 128, 254, 255, 256, 257, 511, 512, 4095, 4096, 32_767, 32_768, 65_533, 65_534, 65_535, 65_536, 65_537, 131_071, 131_072] } }), Box::new(ManyRows { ns: if quick { vec![4097, 8193, 16385, 65537] } else { vec![255, 257, 4095, 4097, 8193, 16385, 32769, 65535, 65537, 131073, 300000] } }), Box::new(super::context::ContextWalks { prop: "C07", depth: 1, start_bin: true }), Box::new(super::context::ContextWalks { prop: "C07", depth: 2, start_bin: true }), Box::new(super::context::ContextWalks { prop: "C07", depth: 3, start_bin: true }), Box::new(super::context::ContextWalks { prop: "C07", depth: if quick { 0 } else { 4 }, start_bin: true })],
        required: vec!["parameters_meet_columns", "many_rows", "temporal_edges", "resultsets_between", "context_walks", "mixed_rows", "mixed_rows_trap_refused", "aftermath_recovered", "bitmaps_crossing_a_byte", "structured_patterns", "null_into_not_null", "matrix_refused", "matrix_accepted", "binary_durations", "binary_dates", "binary_times_of_day", "recoveries"],
    }
}
