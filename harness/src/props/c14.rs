//! C14 — completion counts arrive exactly, including for zero-column resultsets.

use super::common::*;
use crate::conv::*;
use crate::engine::*;
use crate::refwire::*;
use crate::second;
use crate::shim::*;
use serde_json::{json, Value as J};
use std::sync::Arc;

fn lattice() -> Vec<u64> {
    let mut v: Vec<u64> = vec![0, 1, 250, 251, 252, 253, 254, 255, 256, 65534, 65535, 65536, (1 << 24) - 1, 1 << 24, (1 << 24) + 1, u32::MAX as u64 - 1, u32::MAX as u64, 1 << 32, i64::MAX as u64, 1 << 63, u64::MAX - 1, u64::MAX];
    for k in 0..64 {
        let p = 1u64 << k;
        v.push(p);
        v.push(p.wrapping_sub(1));
        v.push(p.wrapping_add(1));
    }
    v.sort();
    v.dedup();
    v
}

const CTX: [&str; 4] = ["completed", "complete_one first of two", "complete_one middle of three", "completed after complete_one"];

fn run_prog_conv(prog: Vec<WOp>, bin: bool, st: &mut Stats) -> Result<(Vec<Unit>, Vec<u8>), Violation> {
    let mut cmds = Vec::new();
    if bin {
        cmds.push(ClientCmd::new(with_byte(COM_STMT_PREPARE, b"id=1 p=0")));
        cmds.push(ClientCmd::new(cmd_execute(1, 0, 1, &[])));
    } else {
        cmds.push(q(b"x"));
    }
    cmds.push(ping());
    let conv = Conv::new(cmds);
    let s = conv.stream();
    let stream = Arc::new(s.bytes);
    let mut sim = sim_for(&stream, vec![]);
    sim.log_ops = false;
    let prog = Arc::new(prog);
    let behave = Box::new(move |_: usize, cb: &Cb| match cb {
        Cb::Prepare(_) => Behavior::PrepReply { id: 1, params: param_cols(0), cols: param_cols(0) },
        Cb::Query(_) | Cb::Execute { .. } => Behavior::Prog(prog.clone()),
        _ => Behavior::Silent,
    });
    let o = run_conn(sim, ConnCfg::new(behave));
    st.transitions += 1;
    if let ConnResult::Panic(l, m) = &o.res {
        return Err(Violation::new(panic_key(l, m), format!("run_on panicked at {}: {}", l, m)));
    }
    if !o.res.is_ok() {
        return Err(Violation::new("result-not-ok", format!("run_on returned {}", o.res.short())));
    }
    let d = decode_all(delivered(&o), &conv, &s.last_seq, conv.cmds.len(), false).map_err(|e| Violation::new("reply-decode", e))?;
    let k = conv.cmds.len() - 2;
    Ok((d.replies[k].clone(), o.sim.out.clone()))
}

/// second opinion on every OK packet of the output whose rows/id are in `want`
fn second_ok(out: &[u8], want: &[(u64, u64)]) -> Result<(), Violation> {
    let pkts = split_packets(out).unwrap();
    let mut seen = std::collections::HashSet::new();
    for p in &pkts {
        let m = &out[p.start..p.start + p.len];
        if m.first() == Some(&0) && m.len() >= 7 {
            if let Ok((r, i, _)) = second::ok(m) {
                seen.insert((r, i));
            }
        }
    }
    for w in want {
        if !seen.contains(w) {
            return Err(Violation::new("second-opinion", format!("mysql_common does not read any OK packet as {:?}; it reads {:?}", w, seen.iter().take(20).collect::<Vec<_>>())));
        }
    }
    Ok(())
}

struct Pairs {
    vals: Vec<u64>,
    /// second component's values (None: the same list)
    other: Option<Vec<u64>>,
    label: &'static str,
}
impl Pairs {
    fn case(&self, idx: u64) -> (u64, u64, usize, bool) {
        let n = self.vals.len() as u64;
        match &self.other {
            None => {
                let d = digits(idx, &[n, n, 4, 2]);
                (self.vals[d[0] as usize], self.vals[d[1] as usize], d[2] as usize, d[3] == 1)
            }
            Some(o) => {
                // dense range for one component, a few values for the other, both ways round
                let d = digits(idx, &[n, o.len() as u64, 2, 4, 2]);
                let (a, b) = (self.vals[d[0] as usize], o[d[1] as usize]);
                let (r, i) = if d[2] == 0 { (a, b) } else { (b, a) };
                (r, i, d[3] as usize, d[4] == 1)
            }
        }
    }
}
impl Family for Pairs {
    fn ambient(&self, idx: u64) -> u64 {
        crate::engine::rot(idx)
    }
    fn name(&self) -> String {
        self.label.into()
    }
    fn len(&self) -> u64 {
        let n = self.vals.len() as u64;
        match &self.other {
            None => n * n * 8,
            Some(o) => n * o.len() as u64 * 16,
        }
    }
    fn run(&self, idx: u64, st: &mut Stats) -> Result<(), Violation> {
        let (r, i, ctx, bin) = self.case(idx);
        if r > 250 || i > 250 {
            st.nontrivial += 1;
        }
        if r >= 1 << 24 || i >= 1 << 24 {
            st.bump("eight_byte_lenenc");
        }
        let (prog, pos): (Vec<WOp>, usize) = match ctx {
            0 => (vec![WOp::Completed(r, i)], 0),
            1 => (vec![WOp::CompleteOne(r, i), WOp::Completed(5, 6)], 0),
            2 => (vec![WOp::CompleteOne(1, 2), WOp::CompleteOne(r, i), WOp::Completed(5, 6)], 1),
            _ => (vec![WOp::CompleteOne(1, 2), WOp::Completed(r, i)], 1),
        };
        let n_units = prog.len();
        let (units, out) = run_prog_conv(prog, bin, st)?;
        if units.len() != n_units {
            return Err(Violation::new("unit-count", format!("{} units decoded, {} completions reported", units.len(), n_units)));
        }
        match &units[pos] {
            Unit::Ok { rows, id, .. } if *rows == r && *id == i => {}
            other => {
                return Err(Violation::new(
                    "count-differs",
                    format!("completion ({}, {}) in context '{}' ({}) arrived as {:?}", r, i, CTX[ctx], if bin { "binary" } else { "text" }, other),
                ))
            }
        }
        second_ok(&out, &[(r, i)])
    }
    fn describe(&self, idx: u64) -> J {
        let (r, i, ctx, bin) = self.case(idx);
        json!({"rows": r, "last_insert_id": i, "context": CTX[ctx], "binary": bin})
    }
}

struct ZeroCols {
    counts: Vec<u64>,
}
impl ZeroCols {
    fn case(&self, idx: u64) -> (u64, usize, bool) {
        let d = digits(idx, &[self.counts.len() as u64, 6, 2]);
        (self.counts[d[0] as usize], d[1] as usize, d[2] == 1)
    }
}
impl Family for ZeroCols {
    fn ambient(&self, idx: u64) -> u64 {
        crate::engine::rot(idx)
    }
    fn name(&self) -> String {
        "zero-column-row-counts".into()
    }
    fn len(&self) -> u64 {
        self.counts.len() as u64 * 12
    }
    fn run(&self, idx: u64, st: &mut Stats) -> Result<(), Violation> {
        let (n, how, bin) = self.case(idx);
        st.nontrivial += 1;
        st.bump("zero_column_sets");
        let c0 = Arc::new(Vec::new());
        let mut prog = Vec::new();
        // how: 0 = end_row, 1 = write_row, 2 = second of two zero-column sets (first has 3 rows),
        //      3 = write_col calls (ignored) between end_row calls; every fourth count is also
        //      preceded by a completion that must arrive on its own
        let lead = n % 4 == 1;
        if lead {
            prog.push(WOp::CompleteOne(300 + n, 70000 + n));
        }
        if how == 2 {
            prog.push(WOp::Start(c0.clone()));
            for _ in 0..3 {
                prog.push(WOp::EndRow);
            }
            prog.push(WOp::FinishOne);
        }
        prog.push(WOp::Start(c0.clone()));
        for k in 0..n {
            match how {
                1 => prog.push(WOp::WriteRow(vec![])),
                3 => {
                    if k % 2 == 0 {
                        prog.push(WOp::WriteCol(Val::I32(1)));
                    }
                    prog.push(WOp::EndRow)
                }
                4 => {
                    // NULL cells (ignored like any other cell of a zero-column set)
                    if k % 3 != 1 {
                        prog.push(WOp::WriteCol(Val::Null));
                    }
                    if k % 3 == 2 {
                        prog.push(WOp::WriteCol(Val::OptI32(None)));
                    }
                    prog.push(WOp::EndRow)
                }
                5 => prog.push(WOp::WriteRow(if k % 2 == 0 { vec![Val::I32(7)] } else { vec![Val::Null, Val::Str("x".into())] })),
                _ => prog.push(WOp::EndRow),
            }
        }
        prog.push(WOp::Finish);
        let (units, out) = run_prog_conv(prog, bin, st)?;
        let u = units.last();
        match u {
            Some(Unit::Ok { rows, id: 0, .. }) if *rows == n => {}
            other => return Err(Violation::new("zero-column-count", format!("{} rows ended on a zero-column resultset (variant {}), client sees {:?}", n, how, other))),
        }
        if lead {
            match units.first() {
                Some(Unit::Ok { rows, id, .. }) if *rows == 300 + n && *id == 70000 + n => {}
                other => return Err(Violation::new("completion-before-zero-column-set-lost", format!("complete_one({}, {}) followed by a zero-column resultset arrived as {:?}", 300 + n, 70000 + n, other))),
            }
        }
        if how == 2 {
            match units.get(if lead { 1 } else { 0 }) {
                Some(Unit::Ok { rows: 3, .. }) => {}
                other => return Err(Violation::new("zero-column-count", format!("first zero-column set of 3 rows arrived as {:?}", other))),
            }
        }
        second_ok(&out, &[(n, 0)])
    }
    fn describe(&self, idx: u64) -> J {
        let (n, how, bin) = self.case(idx);
        let variant = ["end_row", "write_row", "second of two zero-column resultsets", "write_col (ignored) + end_row", "write_col(NULL) (ignored) + end_row", "write_row with cells (ignored)"][how];
        json!({"rows_ended": n, "variant": variant, "binary": bin})
    }
}

/// zero-column resultsets with row counts no list of calls could hold: end_row in a loop, counts
/// around 2^24 (quick: 2^24+1 only) and, in the thorough tier, around 2^32 (about 30 s each)
struct HugeZeroCols {
    counts: Vec<u64>,
}
impl Family for HugeZeroCols {
    fn name(&self) -> String {
        "zero-column-row-counts-beyond-any-list-of-calls".into()
    }
    fn len(&self) -> u64 {
        self.counts.len() as u64 * 2
    }
    fn run(&self, idx: u64, st: &mut Stats) -> Result<(), Violation> {
        let n = self.counts[(idx / 2) as usize];
        let bin = idx % 2 == 1;
        st.nontrivial += 1;
        st.bump("huge_zero_column_sets");
        let prog = vec![WOp::Start(Arc::new(Vec::new())), WOp::EndRows(n), WOp::Finish];
        let (units, out) = run_prog_conv(prog, bin, st)?;
        match units.last() {
            Some(Unit::Ok { rows, id: 0, .. }) if *rows == n => {}
            other => return Err(Violation::new("zero-column-count", format!("{} rows ended on a zero-column resultset, client sees {:?}", n, other))),
        }
        second_ok(&out, &[(n, 0)])
    }
    fn describe(&self, idx: u64) -> J {
        json!({"rows_ended": self.counts[(idx / 2) as usize], "binary": idx % 2 == 1})
    }
}

/// Completions on one connection are a history: every sequence of `depth` exchanges over
/// completions reported directly, in chains, as zero-column resultsets (text and binary), ordinary
/// resultsets, errors, PREPARE replies and library-answered commands, with position-dependent
/// counts from all length classes. Every OK packet must carry the counts of *its* completion.
struct CompletionWalks {
    depth: usize,
}
#[derive(Clone, Debug, PartialEq)]
enum Exp {
    Ok(u64, u64),
    Rs(usize),
    Err,
    Any,
}
impl CompletionWalks {
    const KINDS: [&'static str; 16] = [
        "query->completed(a,b)",
        "query->complete_one(a,b), completed(c,d)",
        "query->zero-column set of n rows",
        "query->2 rows of 1 column",
        "execute->completed(a,b)",
        "execute->zero-column set of n rows",
        "execute->2 rows of 1 column",
        "query->ERR",
        "PREPARE again",
        "PING",
        "INIT_DB",
        "query->1 row, then a zero-column set of n rows, then completed(a,b)",
        "query->complete_one(a,b), rows, ERR",
        "query->zero-column set of n rows ended by an error",
        "execute->zero-column set of n rows ended by an error",
        "query->1 row, complete_one(a,b), zero-column set of n rows ended by an error",
    ];
    const VALS: [u64; 11] = [0, 1, 7, 250, 251, 65535, 65536, (1 << 24) - 1, 1 << 24, 1 << 32, u64::MAX];
    const ROWS: [u64; 5] = [0, 1, 3, 251, 300];
    fn plan(&self, idx: u64) -> (Vec<ClientCmd>, Vec<Arc<Vec<WOp>>>, Vec<Vec<Exp>>, Vec<String>) {
        let d: Vec<u64> = if self.depth > 64 {
            // one long scripted walk per phase: the kinds follow a fixed rule
            let k = Self::KINDS.len() as u64;
            std::iter::once(idx % 3).chain((0..self.depth as u64).map(|j| (j * 5 + j / 13 + j / 257 + idx) % k)).collect()
        } else {
            let mut rad = vec![3u64];
            rad.extend(std::iter::repeat(Self::KINDS.len() as u64).take(self.depth));
            digits(idx, &rad)
        };
        let phase = d[0] as usize;
        let c1 = Arc::new(vec![col("c", msql_srv::ColumnType::MYSQL_TYPE_LONG, msql_srv::ColumnFlags::empty())]);
        let c0: Arc<Vec<msql_srv::Column>> = Arc::new(Vec::new());
        let mut cmds = vec![ClientCmd::new(with_byte(COM_STMT_PREPARE, b"id=1 p=0"))];
        let mut progs = Vec::new();
        let mut exp = vec![vec![Exp::Any]];
        let mut names = Vec::new();
        for j in 0..self.depth {
            let k = d[1 + j] as usize;
            let v = |o: usize| Self::VALS[(phase * 4 + j * 3 + k + o) % Self::VALS.len()];
            let n = Self::ROWS[(phase + j + k) % Self::ROWS.len()];
            let (a, b, c, dd) = (v(0), v(5), v(2), v(7));
            let zero = |p: &mut Vec<WOp>, last: bool| {
                p.push(WOp::Start(c0.clone()));
                for _ in 0..n {
                    p.push(WOp::EndRow);
                }
                p.push(if last { WOp::Finish } else { WOp::FinishOne });
            };
            let rows = |p: &mut Vec<WOp>, r: usize, last: bool| {
                p.push(WOp::Start(c1.clone()));
                for x in 0..r {
                    p.push(WOp::WriteRow(vec![Val::I32(x as i32)]));
                }
                p.push(if last { WOp::Finish } else { WOp::FinishOne });
            };
            let mut p = Vec::new();
            let e = match k {
                0 | 4 => {
                    p.push(WOp::Completed(a, b));
                    vec![Exp::Ok(a, b)]
                }
                1 => {
                    p.push(WOp::CompleteOne(a, b));
                    p.push(WOp::Completed(c, dd));
                    vec![Exp::Ok(a, b), Exp::Ok(c, dd)]
                }
                2 | 5 => {
                    zero(&mut p, true);
                    vec![Exp::Ok(n, 0)]
                }
                3 | 6 => {
                    rows(&mut p, 2, true);
                    vec![Exp::Rs(2)]
                }
                7 => {
                    p.push(WOp::Error(msql_srv::ErrorKind::ER_NO, b"no".to_vec()));
                    vec![Exp::Err]
                }
                8 | 9 | 10 => vec![Exp::Any],
                11 => {
                    rows(&mut p, 1, false);
                    zero(&mut p, false);
                    p.push(WOp::Completed(a, b));
                    vec![Exp::Rs(1), Exp::Ok(n, 0), Exp::Ok(a, b)]
                }
                13 | 14 => {
                    p.push(WOp::Start(c0.clone()));
                    for _ in 0..n {
                        p.push(WOp::EndRow);
                    }
                    p.push(WOp::FinishError(msql_srv::ErrorKind::ER_NO, b"late".to_vec()));
                    vec![Exp::Err]
                }
                15 => {
                    rows(&mut p, 1, false);
                    p.push(WOp::CompleteOne(a, b));
                    p.push(WOp::Start(c0.clone()));
                    for _ in 0..n {
                        p.push(WOp::EndRow);
                    }
                    p.push(WOp::FinishError(msql_srv::ErrorKind::ER_NO, b"late".to_vec()));
                    vec![Exp::Rs(1), Exp::Ok(a, b), Exp::Err]
                }
                _ => {
                    p.push(WOp::CompleteOne(a, b));
                    p.push(WOp::Start(c1.clone()));
                    p.push(WOp::WriteRow(vec![Val::I32(1)]));
                    p.push(WOp::FinishError(msql_srv::ErrorKind::ER_NO, b"late".to_vec()));
                    vec![Exp::Ok(a, b), Exp::Any]
                }
            };
            cmds.push(match k {
                4 | 5 | 6 | 14 => ClientCmd::new(cmd_execute(1, 0, 1, &[])),
                8 => ClientCmd::new(with_byte(COM_STMT_PREPARE, b"id=1 p=0")),
                9 => ping(),
                10 => ClientCmd::new(with_byte(COM_INIT_DB, b"db")),
                _ => q(b"x"),
            });
            if !matches!(k, 8 | 9 | 10) {
                progs.push(Arc::new(p));
            }
            names.push(format!("{} [a={} b={} c={} d={} n={}]", Self::KINDS[k], a, b, c, dd, n));
            exp.push(e);
        }
        cmds.push(ping());
        exp.push(vec![Exp::Any]);
        (cmds, progs, exp, names)
    }
}
impl Family for CompletionWalks {
    fn ambient(&self, idx: u64) -> u64 {
        crate::engine::rot(idx)
    }
    fn name(&self) -> String {
        format!("completion-walks-depth-{}", self.depth)
    }
    fn len(&self) -> u64 {
        if self.depth > 64 {
            return 3;
        }
        3 * (Self::KINDS.len() as u64).pow(self.depth as u32)
    }
    fn run(&self, idx: u64, st: &mut Stats) -> Result<(), Violation> {
        let (cmds, progs, exp, mut names) = self.plan(idx);
        if names.len() > 64 {
            let n = names.len();
            names = vec![format!("a scripted walk of {} completions (kinds by a fixed rule, phase {})", n, idx % 3)];
        }
        st.nontrivial += 1;
        st.bump("completion_walks");
        let conv = Conv::new(cmds);
        let s = conv.stream();
        let stream = Arc::new(s.bytes);
        let mut sim = sim_for(&stream, vec![]);
        sim.log_ops = false;
        let mut k = 0usize;
        let behave = Box::new(move |_: usize, cb: &Cb| match cb {
            Cb::Prepare(_) => Behavior::PrepReply { id: 1, params: param_cols(0), cols: param_cols(0) },
            Cb::Query(_) | Cb::Execute { .. } => {
                let p = progs[k].clone();
                k += 1;
                Behavior::Prog(p)
            }
            Cb::Init(_) => Behavior::InitOk,
            _ => Behavior::Silent,
        });
        let o = run_conn(sim, ConnCfg::new(behave));
        st.transitions += names.len() as u64;
        let tag = |e: String| format!("{:?}: {}", names, e);
        if let ConnResult::Panic(l, m) = &o.res {
            return Err(Violation::new(panic_key(l, m), tag(format!("run_on panicked at {}: {}", l, m))));
        }
        if !o.res.is_ok() {
            return Err(Violation::new("result-not-ok", tag(format!("run_on returned {}", o.res.short()))));
        }
        let d = decode_all(delivered(&o), &conv, &s.last_seq, conv.cmds.len(), false).map_err(|e| Violation::new("reply-decode", tag(e)))?;
        let mut want_ok = Vec::new();
        for (i, e) in exp.iter().enumerate() {
            let got = &d.replies[i];
            if e.len() != got.len() && !(e.len() == 1 && e[0] == Exp::Any) {
                return Err(Violation::new("unit-count", tag(format!("exchange {}: {} unit(s) decoded, {} reported", i, got.len(), e.len()))));
            }
            for (x, u) in e.iter().zip(got.iter()) {
                let ok = match (x, u) {
                    (Exp::Any, _) => true,
                    (Exp::Ok(r, id), Unit::Ok { rows, id: gid, .. }) => {
                        want_ok.push((*r, *id));
                        rows == r && gid == id
                    }
                    (Exp::Rs(n), Unit::ResultSet { rows, end: Ok(_), .. }) => rows.len() == *n,
                    (Exp::Err, Unit::Err(_)) => true,
                    _ => false,
                };
                if !ok {
                    return Err(Violation::new("count-differs-in-history", tag(format!("exchange {}: reported {:?}, the client decodes {}", i, x, format!("{:?}", u).chars().take(100).collect::<String>()))));
                }
            }
        }
        second_ok(&o.sim.out, &want_ok)
    }
    fn describe(&self, idx: u64) -> J {
        if self.depth > 64 {
            return json!({"scripted_walk_of_completions": self.depth, "phase": idx % 3});
        }
        json!(self.plan(idx).3)
    }
}

/// The callback reports its completions (explicitly, or by dropping the writer behind complete_one /
/// a zero-column set) and then returns Err: what it reported must have reached the transport before
/// run_on returns the callback's error.
struct CompletedThenFailed;
const CTF: [&str; 7] = ["completed(r, i)", "complete_one(r, i), writer dropped", "complete_one(1, 2), complete_one(r, i), writer dropped", "zero-column set of r rows, writer dropped", "complete_one(r, i), finish_one of a zero-column set of 3 rows, dropped", "complete_one(r, i), writer dropped by an unwinding panic the shim catches", "zero-column set of r rows, writer dropped by an unwinding panic the shim catches"];
impl CompletedThenFailed {
    const VALS: [u64; 6] = [0, 7, 251, 65_536, 1 << 24, u64::MAX];
    fn case(idx: u64) -> (usize, u64, u64, bool) {
        let d = digits(idx, &[CTF.len() as u64, 6, 6, 2]);
        (d[0] as usize, Self::VALS[d[1] as usize], Self::VALS[d[2] as usize], d[3] == 1)
    }
}
impl Family for CompletedThenFailed {
    fn name(&self) -> String {
        "completions-reported-then-the-callback-fails".into()
    }
    fn len(&self) -> u64 {
        (CTF.len() * 36 * 2) as u64
    }
    fn run(&self, idx: u64, st: &mut Stats) -> Result<(), Violation> {
        let (ctx, r, i, bin) = Self::case(idx);
        st.nontrivial += 1;
        st.bump("completed_then_failed");
        let c0: Arc<Vec<msql_srv::Column>> = Arc::new(Vec::new());
        let rows = (r % 300) as usize;
        let (prog, want): (Vec<WOp>, Vec<(u64, u64)>) = match ctx {
            0 => (vec![WOp::Completed(r, i)], vec![(r, i)]),
            1 => (vec![WOp::CompleteOne(r, i), WOp::Drop], vec![(r, i)]),
            2 => (vec![WOp::CompleteOne(1, 2), WOp::CompleteOne(r, i), WOp::Drop], vec![(1, 2), (r, i)]),
            3 => {
                let mut p = vec![WOp::Start(c0.clone())];
                for _ in 0..rows {
                    p.push(WOp::EndRow);
                }
                p.push(WOp::Drop);
                (p, vec![(rows as u64, 0)])
            }
            4 => (vec![WOp::CompleteOne(r, i), WOp::Start(c0.clone()), WOp::EndRow, WOp::EndRow, WOp::EndRow, WOp::FinishOne, WOp::Drop], vec![(r, i), (3, 0)]),
            5 => (vec![WOp::CompleteOne(r, i), WOp::DropUnwinding], vec![(r, i)]),
            _ => {
                let mut p = vec![WOp::Start(c0.clone())];
                for _ in 0..rows {
                    p.push(WOp::EndRow);
                }
                p.push(WOp::DropUnwinding);
                (p, vec![(rows as u64, 0)])
            }
        };
        // the last two programs end with a panic the shim catches: the callback returns Ok
        let fails = ctx < 5;
        let mut cmds = Vec::new();
        if bin {
            cmds.push(ClientCmd::new(with_byte(COM_STMT_PREPARE, b"id=1 p=0")));
            cmds.push(ClientCmd::new(cmd_execute(1, 0, 1, &[])));
        } else {
            cmds.push(q(b"x"));
        }
        cmds.push(ping());
        let conv = Conv::new(cmds);
        let s = conv.stream();
        let stream = Arc::new(s.bytes);
        let mut sim = sim_for(&stream, vec![]);
        sim.log_ops = false;
        let prog = Arc::new(prog);
        let behave = Box::new(move |_: usize, cb: &Cb| match cb {
            Cb::Prepare(_) => Behavior::PrepReply { id: 1, params: param_cols(0), cols: param_cols(0) },
            Cb::Query(_) | Cb::Execute { .. } => Behavior::Prog(prog.clone()),
            _ => Behavior::Silent,
        });
        let mut cfg = ConnCfg::new(behave);
        if fails {
            cfg.fail_after = Some((if bin { 1 } else { 0 }, 777));
        }
        let o = run_conn(sim, cfg);
        st.transitions += 1;
        let what = format!("{} (r = {}, i = {}, {}), then the callback returns {}", CTF[ctx], r, i, if bin { "binary" } else { "text" }, if fails { "Err" } else { "Ok" });
        if let ConnResult::Panic(l, m) = &o.res {
            return Err(Violation::new(panic_key(l, m), format!("{}: run_on panicked at {}: {}", what, l, m)));
        }
        if fails && o.res != ConnResult::ErrMarker(777) {
            return Err(Violation::new("late-shim-error-not-returned", format!("{}: run_on returned {}", what, o.res.short())));
        }
        if !fails && !o.res.is_ok() {
            return Err(Violation::new("result-not-ok", format!("{}: run_on returned {}", what, o.res.short())));
        }
        // everything the callback reported must be on the transport (written; a flush is not owed
        // once the connection ends with an error)
        let k = conv.cmds.len() - 2;
        let d = decode_all(&o.sim.out, &conv, &s.last_seq, if fails { k + 1 } else { k + 2 }, false).map_err(|e| Violation::new("reported-completion-did-not-arrive", format!("{}: {}", what, e)))?;
        let got: Vec<(u64, u64)> = d.replies[k].iter().filter_map(|u| if let Unit::Ok { rows, id, .. } = u { Some((*rows, *id)) } else { None }).collect();
        if got != want {
            return Err(Violation::new("reported-completion-did-not-arrive", format!("{}: reported {:?}, on the transport {:?}", what, want, got)));
        }
        Ok(())
    }
    fn describe(&self, idx: u64) -> J {
        let (ctx, r, i, bin) = Self::case(idx);
        json!({"program": CTF[ctx], "r": r, "i": i, "binary": bin, "then": "the callback returns Err"})
    }
}

pub fn build(quick: bool) -> Check {
    let vals = lattice();
    // every value of one component in a dense range (all of the 1- and 3-byte classes' small end,
    // thorough: through 2^16 and a window at 2^24) against a few values of the other
    let mut dense: Vec<u64> = (0..=(if quick { 1100u64 } else { 70_000 })).collect();
    if !quick {
        dense.extend((1u64 << 24) - 300..=(1u64 << 24) + 300);
    }
    let few = vec![0u64, 7, 251, 65536, 1 << 24, u64::MAX];
    let mut counts: Vec<u64> = (0..=300).collect();
    counts.extend([65535u64, 65536, 70000]);
    let nv = vals.len();
    Check {
        id: "C14",
        level: "model_checking",
        rule: format!("zero-column resultsets of 2^24+1 rows (thorough: 2^24-1..2^24+1 and 2^32-1, 2^32, 2^32+3 rows, end_row called in a loop); (rows, last_insert_id) over a lattice of {} values per component (0, 1, 250..256, 2^16, 2^24, 2^32, 2^63, 2^64-1, every 2^k and 2^k +- 1) squared x 4 contexts (completed; complete_one first/middle; completed after complete_one) x text/binary; every value 0..1100 (thorough: 0..70000 and 2^24+-300) of one component against 0, 7, 251, 65536, 2^24, 2^64-1 of the other, both ways round; zero-column resultsets with every row count 0..300 and 65535, 65536, 70000 via end_row, write_row (empty and with cells), ignored write_col (values and NULLs), and as the second of two zero-column sets; completions reported (explicitly or by dropping the writer) by a callback that then returns Err; every sequence of <= 5 (thorough: 6) exchanges on one connection over 16 kinds (completions direct / chained / as zero-column sets in text and binary, ordinary resultsets, errors at once, after a completion and at the end of a zero-column set, PREPARE, PING, INIT_DB) with position-dependent counts from every length class; scripted walks of 1031 and 66000 (thorough: 140000) completions of those kinds; a 5000- or 70000-byte row, every number <= 600 (1300) of quiet exchanges, then completed(2^64-1, 1). Oracle: refwire's length-encoded-integer decoding of the OK packet, and mysql_common's OkPacket. Non-trivial = a component beyond the one-byte class.", nv),
        assumptions: vec!["64-bit components are covered at the boundary lattice, not exhaustively".into()],
        bounds: json!({"lattice": nv, "zero_column_max_exhaustive": 300}),
        exhaustive: true,
        caps_hit: vec![],
        families: vec![
            Box::new(Pairs { vals, other: None, label: "count-pairs" }),
            Box::new(Pairs { vals: dense, other: Some(few), label: "dense-range-x-few" }),
            Box::new(ZeroCols { counts }),
            Box::new(HugeZeroCols { counts: if quick { vec![(1 << 24) + 1] } else { vec![(1 << 24) - 1, 1 << 24, (1 << 24) + 1, (1 << 32) - 1, 1 << 32, (1 << 32) + 3] } }),
            Box::new(super::aftermath::Aftermath { prop: "C14" }),
            Box::new(super::soak::QuietRuns { max_n: if quick { 600 } else { 1300 }, ends_in_completion: true }),
            Box::new(CompletedThenFailed),
            Box::new(CompletionWalks { depth: 2 }),
            Box::new(CompletionWalks { depth: 1031 }),
            Box::new(CompletionWalks { depth: if quick { 66_000 } else { 140_000 } }),
            Box::new(CompletionWalks { depth: 3 }),
            Box::new(CompletionWalks { depth: 4 }),
            Box::new(CompletionWalks { depth: if quick { 5 } else { 6 } }),
        ],
        required: vec!["aftermath_recovered", "quiet_runs", "completed_then_failed", "completion_walks", "eight_byte_lenenc", "zero_column_sets", "huge_zero_column_sets"],
    }
}
