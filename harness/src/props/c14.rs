//! C14 — completion counts arrive exactly, including for zero-column resultsets.

use super::common::*;
use crate::conv::*;
use crate::engine::*;
use crate::refwire::*;
use crate::second;
use crate::shim::*;
use serde_json::{json, Value as J};
use std::sync::Arc;

fn lattice() -> Vec<u64> {
    let mut v: Vec<u64> = vec![0, 1, 250, 251, 252, 253, 254, 255, 256, 65534, 65535, 65536, (1 << 24) - 1, 1 << 24, (1 << 24) + 1, u32::MAX as u64 - 1, u32::MAX as u64, 1 << 32, i64::MAX as u64, 1 << 63, u64::MAX - 1, u64::MAX];
    for k in 0..64 {
        let p = 1u64 << k;
        v.push(p);
        v.push(p.wrapping_sub(1));
        v.push(p.wrapping_add(1));
    }
    v.sort();
    v.dedup();
    v
}

const CTX: [&str; 4] = ["completed", "complete_one first of two", "complete_one middle of three", "completed after complete_one"];

fn run_prog_conv(prog: Vec<WOp>, bin: bool, st: &mut Stats) -> Result<(Vec<Unit>, Vec<u8>), Violation> {
    let mut cmds = Vec::new();
    if bin {
        cmds.push(ClientCmd::new(with_byte(COM_STMT_PREPARE, b"id=1 p=0")));
        cmds.push(ClientCmd::new(cmd_execute(1, 0, 1, &[])));
    } else {
        cmds.push(q(b"x"));
    }
    cmds.push(ping());
    let conv = Conv::new(cmds);
    let s = conv.stream();
    let stream = Arc::new(s.bytes);
    let mut sim = sim_for(&stream, vec![]);
    sim.log_ops = false;
    let prog = Arc::new(prog);
    let behave = Box::new(move |_: usize, cb: &Cb| match cb {
        Cb::Prepare(_) => Behavior::PrepReply { id: 1, params: param_cols(0), cols: param_cols(0) },
        Cb::Query(_) | Cb::Execute { .. } => Behavior::Prog(prog.clone()),
        _ => Behavior::Silent,
    });
    let o = run_conn(sim, ConnCfg::new(behave));
    st.transitions += 1;
    if let ConnResult::Panic(l, m) = &o.res {
        return Err(Violation::new(panic_key(l, m), format!("run_on panicked at {}: {}", l, m)));
    }
    if !o.res.is_ok() {
        return Err(Violation::new("result-not-ok", format!("run_on returned {}", o.res.short())));
    }
    let d = decode_all(delivered(&o), &conv, &s.last_seq, conv.cmds.len(), false).map_err(|e| Violation::new("reply-decode", e))?;
    let k = conv.cmds.len() - 2;
    Ok((d.replies[k].clone(), o.sim.out.clone()))
}

/// second opinion on every OK packet of the output whose rows/id are in `want`
fn second_ok(out: &[u8], want: &[(u64, u64)]) -> Result<(), Violation> {
    let pkts = split_packets(out).unwrap();
    let mut seen = Vec::new();
    for p in &pkts {
        let m = &out[p.start..p.start + p.len];
        if m.first() == Some(&0) && m.len() >= 7 {
            if let Ok((r, i, _)) = second::ok(m) {
                seen.push((r, i));
            }
        }
    }
    for w in want {
        if !seen.contains(w) {
            return Err(Violation::new("second-opinion", format!("mysql_common does not read any OK packet as {:?}; it reads {:?}", w, seen)));
        }
    }
    Ok(())
}

struct Pairs {
    vals: Vec<u64>,
    /// second component's values (None: the same list)
    other: Option<Vec<u64>>,
    label: &'static str,
}
impl Pairs {
    fn case(&self, idx: u64) -> (u64, u64, usize, bool) {
        let n = self.vals.len() as u64;
        match &self.other {
            None => {
                let d = digits(idx, &[n, n, 4, 2]);
                (self.vals[d[0] as usize], self.vals[d[1] as usize], d[2] as usize, d[3] == 1)
            }
            Some(o) => {
                // dense range for one component, a few values for the other, both ways round
                let d = digits(idx, &[n, o.len() as u64, 2, 4, 2]);
                let (a, b) = (self.vals[d[0] as usize], o[d[1] as usize]);
                let (r, i) = if d[2] == 0 { (a, b) } else { (b, a) };
                (r, i, d[3] as usize, d[4] == 1)
            }
        }
    }
}
impl Family for Pairs {
    fn ambient(&self, idx: u64) -> u64 {
        crate::engine::rot(idx)
    }
    fn name(&self) -> String {
        self.label.into()
    }
    fn len(&self) -> u64 {
        let n = self.vals.len() as u64;
        match &self.other {
            None => n * n * 8,
            Some(o) => n * o.len() as u64 * 16,
        }
    }
    fn run(&self, idx: u64, st: &mut Stats) -> Result<(), Violation> {
        let (r, i, ctx, bin) = self.case(idx);
        if r > 250 || i > 250 {
            st.nontrivial += 1;
        }
        if r >= 1 << 24 || i >= 1 << 24 {
            st.bump("eight_byte_lenenc");
        }
        let (prog, pos): (Vec<WOp>, usize) = match ctx {
            0 => (vec![WOp::Completed(r, i)], 0),
            1 => (vec![WOp::CompleteOne(r, i), WOp::Completed(5, 6)], 0),
            2 => (vec![WOp::CompleteOne(1, 2), WOp::CompleteOne(r, i), WOp::Completed(5, 6)], 1),
            _ => (vec![WOp::CompleteOne(1, 2), WOp::Completed(r, i)], 1),
        };
        let n_units = prog.len();
        let (units, out) = run_prog_conv(prog, bin, st)?;
        if units.len() != n_units {
            return Err(Violation::new("unit-count", format!("{} units decoded, {} completions reported", units.len(), n_units)));
        }
        match &units[pos] {
            Unit::Ok { rows, id, .. } if *rows == r && *id == i => {}
            other => {
                return Err(Violation::new(
                    "count-differs",
                    format!("completion ({}, {}) in context '{}' ({}) arrived as {:?}", r, i, CTX[ctx], if bin { "binary" } else { "text" }, other),
                ))
            }
        }
        second_ok(&out, &[(r, i)])
    }
    fn describe(&self, idx: u64) -> J {
        let (r, i, ctx, bin) = self.case(idx);
        json!({"rows": r, "last_insert_id": i, "context": CTX[ctx], "binary": bin})
    }
}

struct ZeroCols {
    counts: Vec<u64>,
}
impl ZeroCols {
    fn case(&self, idx: u64) -> (u64, usize, bool) {
        let d = digits(idx, &[self.counts.len() as u64, 6, 2]);
        (self.counts[d[0] as usize], d[1] as usize, d[2] == 1)
    }
}
impl Family for ZeroCols {
    fn ambient(&self, idx: u64) -> u64 {
        crate::engine::rot(idx)
    }
    fn name(&self) -> String {
        "zero-column-row-counts".into()
    }
    fn len(&self) -> u64 {
        self.counts.len() as u64 * 12
    }
    fn run(&self, idx: u64, st: &mut Stats) -> Result<(), Violation> {
        let (n, how, bin) = self.case(idx);
        st.nontrivial += 1;
        st.bump("zero_column_sets");
        let c0 = Arc::new(Vec::new());
        let mut prog = Vec::new();
        // how: 0 = end_row, 1 = write_row, 2 = second of two zero-column sets (first has 3 rows),
        //      3 = write_col calls (ignored) between end_row calls; every fourth count is also
        //      preceded by a completion that must arrive on its own
        let lead = n % 4 == 1;
        if lead {
            prog.push(WOp::CompleteOne(300 + n, 70000 + n));
        }
        if how == 2 {
            prog.push(WOp::Start(c0.clone()));
            for _ in 0..3 {
                prog.push(WOp::EndRow);
            }
            prog.push(WOp::FinishOne);
        }
        prog.push(WOp::Start(c0.clone()));
        for k in 0..n {
            match how {
                1 => prog.push(WOp::WriteRow(vec![])),
                3 => {
                    if k % 2 == 0 {
                        prog.push(WOp::WriteCol(Val::I32(1)));
                    }
                    prog.push(WOp::EndRow)
                }
                4 => {
                    // NULL cells (ignored like any other cell of a zero-column set)
                    if k % 3 != 1 {
                        prog.push(WOp::WriteCol(Val::Null));
                    }
                    if k % 3 == 2 {
                        prog.push(WOp::WriteCol(Val::OptI32(None)));
                    }
                    prog.push(WOp::EndRow)
                }
                5 => prog.push(WOp::WriteRow(if k % 2 == 0 { vec![Val::I32(7)] } else { vec![Val::Null, Val::Str("x".into())] })),
                _ => prog.push(WOp::EndRow),
            }
        }
        prog.push(WOp::Finish);
        let (units, out) = run_prog_conv(prog, bin, st)?;
        let u = units.last();
        match u {
            Some(Unit::Ok { rows, id: 0, .. }) if *rows == n => {}
            other => return Err(Violation::new("zero-column-count", format!("{} rows ended on a zero-column resultset (variant {}), client sees {:?}", n, how, other))),
        }
        if lead {
            match units.first() {
                Some(Unit::Ok { rows, id, .. }) if *rows == 300 + n && *id == 70000 + n => {}
                other => return Err(Violation::new("completion-before-zero-column-set-lost", format!("complete_one({}, {}) followed by a zero-column resultset arrived as {:?}", 300 + n, 70000 + n, other))),
            }
        }
        if how == 2 {
            match units.get(if lead { 1 } else { 0 }) {
                Some(Unit::Ok { rows: 3, .. }) => {}
                other => return Err(Violation::new("zero-column-count", format!("first zero-column set of 3 rows arrived as {:?}", other))),
            }
        }
        second_ok(&out, &[(n, 0)])
    }
    fn describe(&self, idx: u64) -> J {
        let (n, how, bin) = self.case(idx);
        let variant = ["end_row", "write_row", "second of two zero-column resultsets", "write_col (ignored) + end_row", "write_col(NULL) (ignored) + end_row", "write_row with cells (ignored)"][how];
        json!({"rows_ended": n, "variant": variant, "binary": bin})
    }
}

pub fn build(quick: bool) -> Check {
    let vals = lattice();
    // every value of one component in a dense range (all of the 1- and 3-byte classes' small end,
    // thorough: through 2^16 and a window at 2^24) against a few values of the other
    let mut dense: Vec<u64> = (0..=(if quick { 1100u64 } else { 70_000 })).collect();
    if !quick {
        dense.extend((1u64 << 24) - 300..=(1u64 << 24) + 300);
    }
    let few = vec![0u64, 7, 251, 65536, 1 << 24, u64::MAX];
    let mut counts: Vec<u64> = (0..=300).collect();
    counts.extend([65535u64, 65536, 70000]);
    let nv = vals.len();
    Check {
        id: "C14",
        level: "model_checking",
        rule: format!("(rows, last_insert_id) over a lattice of {} values per component (0, 1, 250..256, 2^16, 2^24, 2^32, 2^63, 2^64-1, every 2^k and 2^k +- 1) squared x 4 contexts (completed; complete_one first/middle; completed after complete_one) x text/binary; every value 0..1100 (thorough: 0..70000 and 2^24+-300) of one component against 0, 7, 251, 65536, 2^24, 2^64-1 of the other, both ways round; zero-column resultsets with every row count 0..300 and 65535, 65536, 70000 via end_row, write_row (empty and with cells), ignored write_col (values and NULLs), and as the second of two zero-column sets. Oracle: refwire's length-encoded-integer decoding of the OK packet, and mysql_common's OkPacket. Non-trivial = a component beyond the one-byte class.", nv),
        assumptions: vec!["64-bit components are covered at the boundary lattice, not exhaustively".into()],
        bounds: json!({"lattice": nv, "zero_column_max_exhaustive": 300}),
        exhaustive: true,
        caps_hit: vec![],
        families: vec![
            Box::new(Pairs { vals, other: None, label: "count-pairs" }),
            Box::new(Pairs { vals: dense, other: Some(few), label: "dense-range-x-few" }),
            Box::new(ZeroCols { counts }),
            Box::new(super::aftermath::Aftermath { prop: "C14" }),
        ],
        required: vec!["aftermath_recovered", "eight_byte_lenenc", "zero_column_sets"],
    }
}
