//! C09 — column metadata reaches the client exactly as the shim declared it.

use super::common::*;
use crate::conv::*;
use crate::engine::*;
use crate::refwire::*;
use crate::second;
use crate::shim::*;
use msql_srv::{Column, ColumnFlags, ColumnType};
use serde_json::{json, Value as J};
use std::sync::Arc;

/// every type code the crate's ColumnType can represent
fn all_types() -> Vec<ColumnType> {
    (0..=255u8).filter_map(|b| ColumnType::try_from(b).ok()).collect()
}

fn check_defs(got: &[ColDef], want: &[Column], what: &str) -> Result<(), Violation> {
    if got.len() != want.len() {
        return Err(Violation::new("column-count", format!("{}: {} definitions declared, {} decoded", what, want.len(), got.len())));
    }
    for (i, (g, w)) in got.iter().zip(want.iter()).enumerate() {
        let field = if g.table != w.table.as_bytes() {
            "table"
        } else if g.name != w.column.as_bytes() {
            "name"
        } else if g.ty != w.coltype as u8 {
            "type"
        } else if g.flags != w.colflags.bits() {
            "flags"
        } else {
            continue;
        };
        return Err(Violation::new(
            format!("column-{}-differs", field),
            format!(
                "{}: column {} of {}: declared table {:?} name {:?} type {:#x} flags {:#x}; decoded table {:?} name {:?} type {:#x} flags {:#x}",
                what,
                i,
                want.len(),
                w.table.chars().take(20).collect::<String>(),
                w.column.chars().take(20).collect::<String>(),
                w.coltype as u8,
                w.colflags.bits(),
                String::from_utf8_lossy(&g.table[..g.table.len().min(20)]),
                String::from_utf8_lossy(&g.name[..g.name.len().min(20)]),
                g.ty,
                g.flags
            ),
        ));
    }
    Ok(())
}

/// second opinion over every column-definition message of the raw output
fn second_defs(out: &[u8], want_all: &[&Column]) -> Result<(), Violation> {
    let pkts = split_packets(out).map_err(|e| Violation::new("framing", e))?;
    let msgs = reassemble(out, &pkts).map_err(|e| Violation::new("framing", e))?;
    let mut k = 0;
    for m in &msgs {
        if m.data.starts_with(b"\x03def") {
            let (t, n, ty, fl) = second::column(&m.data).map_err(|e| Violation::new("second-opinion", e))?;
            if k < want_all.len() {
                let w = want_all[k];
                if t != w.table.as_bytes() || n != w.column.as_bytes() || ty != w.coltype as u8 || fl != w.colflags.bits() {
                    return Err(Violation::new("decoders-disagree", format!("definition {}: mysql_common reads table {:?} name {:?} type {:#x} flags {:#x}", k, String::from_utf8_lossy(&t[..t.len().min(20)]), String::from_utf8_lossy(&n[..n.len().min(20)]), ty, fl)));
                }
            }
            k += 1;
        }
    }
    if k != want_all.len() {
        return Err(Violation::new("second-opinion-count", format!("mysql_common finds {} column definitions, {} declared", k, want_all.len())));
    }
    Ok(())
}

/// declare `cols` in a resultset header and `params`/`cols` in a PREPARE reply with `id`
fn run_meta(id: u32, params: &Arc<Vec<Column>>, cols: &Arc<Vec<Column>>, st: &mut Stats) -> Result<(), Violation> {
    let conv = Conv::new(vec![ClientCmd::new(with_byte(COM_STMT_PREPARE, b"p")), ping(), q(b"q"), ping()]);
    let s = conv.stream();
    let stream = Arc::new(s.bytes);
    let mut sim = sim_for(&stream, vec![]);
    sim.log_ops = false;
    let (p2, c2, c3) = (params.clone(), cols.clone(), cols.clone());
    let behave = Box::new(move |_: usize, cb: &Cb| match cb {
        Cb::Prepare(_) => Behavior::PrepReply { id, params: p2.clone(), cols: c2.clone() },
        Cb::Query(_) => Behavior::Prog(Arc::new(vec![WOp::Start(c3.clone()), WOp::Finish])),
        _ => Behavior::Silent,
    });
    let o = run_conn(sim, ConnCfg::new(behave));
    st.transitions += (params.len() + 2 * cols.len()) as u64;
    if let ConnResult::Panic(l, m) = &o.res {
        return Err(Violation::new(panic_key(l, m), format!("run_on panicked at {}: {}", l, m)));
    }
    if !o.res.is_ok() {
        return Err(Violation::new("result-not-ok", format!("run_on returned {}", o.res.short())));
    }
    let d = decode_all(delivered(&o), &conv, &s.last_seq, 4, false).map_err(|e| Violation::new("reply-decode", e))?;
    match &d.replies[0][..] {
        [Unit::PrepareOk { id: gid, params: gp, cols: gc, .. }] => {
            if *gid != id {
                return Err(Violation::new("statement-id", format!("statement id {} declared, {} decoded", id, gid)));
            }
            check_defs(gp, params, "PREPARE parameters")?;
            check_defs(gc, cols, "PREPARE columns")?;
        }
        other => return Err(Violation::new("prepare-reply", format!("{:?}", other.iter().map(|u| format!("{:?}", u).chars().take(60).collect::<String>()).collect::<Vec<_>>()))),
    }
    match &d.replies[2][..] {
        [Unit::ResultSet { cols: gc, rows, end: Ok(_) }] if !cols.is_empty() => {
            check_defs(gc, cols, "resultset header")?;
            if !rows.is_empty() {
                return Err(Violation::new("phantom-rows", "rows decoded from an empty resultset"));
            }
        }
        [Unit::Ok { .. }] if cols.is_empty() => {}
        other => return Err(Violation::new("resultset-reply", format!("{:?}", other.iter().map(|u| format!("{:?}", u).chars().take(60).collect::<String>()).collect::<Vec<_>>()))),
    }
    // second opinion on PREPARE_OK and on all definitions in order
    let pkts = split_packets(&o.sim.out).unwrap();
    let prep = pkts.iter().map(|p| &o.sim.out[p.start..p.start + p.len]).find(|m| m.len() == 12 && m[0] == 0).ok_or_else(|| Violation::new("second-opinion", "no COM_STMT_PREPARE_OK found"))?;
    let (sid, nc, np) = second::stmt(prep).map_err(|e| Violation::new("second-opinion", e))?;
    if sid != id || nc as usize != cols.len() || np as usize != params.len() {
        return Err(Violation::new("decoders-disagree", format!("mysql_common reads PREPARE_OK as id {} columns {} params {}", sid, nc, np)));
    }
    let mut all: Vec<&Column> = params.iter().collect();
    all.extend(cols.iter());
    all.extend(cols.iter());
    second_defs(&o.sim.out, &all)
}

fn flag_words() -> Vec<u16> {
    let mut v: Vec<u16> = (0..=u16::MAX).map(|w| ColumnFlags::from_bits_truncate(w).bits()).collect();
    v.sort();
    v.dedup();
    v
}

fn mk_cols(n: usize, salt: usize) -> Arc<Vec<Column>> {
    let tables = ["A", "tbl_b", "A", "", "c\u{e9}"];
    let flags = flag_words();
    let types = all_types();
    Arc::new(
        (0..n)
            .map(|i| Column {
                table: tables[(i + salt) % tables.len()].to_string(),
                column: format!("c{}_{}", i, salt),
                coltype: types[(i * 7 + salt) % types.len()],
                colflags: ColumnFlags::from_bits_truncate(flags[(i * 131 + salt * 17) % flags.len()]),
            })
            .collect(),
    )
}

struct Counts {
    max: usize,
    extra: Vec<usize>,
}
impl Counts {
    fn n(&self, idx: u64) -> usize {
        if (idx as usize) <= self.max {
            idx as usize
        } else {
            self.extra[idx as usize - self.max - 1]
        }
    }
}
impl Family for Counts {
    fn ambient(&self, idx: u64) -> u64 {
        crate::engine::rot(idx)
    }
    fn name(&self) -> String {
        "column-counts".into()
    }
    fn len(&self) -> u64 {
        (self.max + 1 + self.extra.len()) as u64
    }
    fn max_threads(&self) -> Option<usize> {
        Some(12)
    }
    fn run(&self, idx: u64, st: &mut Stats) -> Result<(), Violation> {
        let n = self.n(idx);
        if n > 250 {
            st.nontrivial += 1;
            st.bump("more_than_250_columns");
        }
        run_meta(7, &mk_cols(n, 1), &mk_cols(n, 2), st)
    }
    fn describe(&self, idx: u64) -> J {
        json!({"parameters": self.n(idx), "columns": self.n(idx), "tables_cycle": ["A", "tbl_b", "A", "", "cé"]})
    }
}

/// column lists whose encoded definitions total far more than 2^16 bytes
struct BulkyLists;
const LISTS: [(usize, usize); 5] = [(1000, 60), (300, 200), (900, 100), (70, 1000), (4000, 30)];
impl Family for BulkyLists {
    fn name(&self) -> String {
        "bulky-definition-lists".into()
    }
    fn len(&self) -> u64 {
        LISTS.len() as u64
    }
    fn max_threads(&self) -> Option<usize> {
        Some(6)
    }
    fn run(&self, idx: u64, st: &mut Stats) -> Result<(), Violation> {
        let (n, name_len) = LISTS[idx as usize];
        st.nontrivial += 1;
        st.bump("bulky_lists");
        let types = all_types();
        let mk = |salt: usize| -> Arc<Vec<Column>> {
            Arc::new(
                (0..n)
                    .map(|i| Column {
                        table: format!("t{}", (i + salt) % 7),
                        column: format!("{:0width$}", i * 31 + salt, width = name_len),
                        coltype: types[(i + salt) % types.len()],
                        colflags: ColumnFlags::from_bits_truncate(((i * 37 + salt) % 4096) as u16),
                    })
                    .collect(),
            )
        };
        run_meta(3, &mk(1), &mk(2), st)
    }
    fn describe(&self, idx: u64) -> J {
        json!({"definitions": LISTS[idx as usize].0, "name_bytes": LISTS[idx as usize].1})
    }
}

/// bulky headers (well beyond any output staging an implementation may do: 17 KB .. 400 KB of
/// definitions) followed by every kind of ending of the response - rows and a clean finish, an
/// error at once, an error after rows, an error behind finish_one, the same header again in a
/// second resultset, writers dropped - in both protocols: the header the client decodes must be
/// the declared one every time, and the next reply must not be shifted
struct BulkyHeadersEndings;
const BHE_SHAPES: [(usize, usize); 5] = [(400, 30), (6, 5000), (60, 300), (1200, 12), (2000, 200)];
const BHE_ENDINGS: [&str; 8] = ["finish", "two rows, finish", "finish_error at once", "two rows, finish_error", "finish_one, then error", "finish_one, the same header again, a row, finish", "dropped after a row", "complete_one first, then the header, finish_error"];
impl Family for BulkyHeadersEndings {
    fn name(&self) -> String {
        "bulky-headers-x-response-endings".into()
    }
    fn len(&self) -> u64 {
        (BHE_SHAPES.len() * BHE_ENDINGS.len() * 2) as u64
    }
    fn run(&self, idx: u64, st: &mut Stats) -> Result<(), Violation> {
        let d = digits(idx, &[BHE_SHAPES.len() as u64, BHE_ENDINGS.len() as u64, 2]);
        let (n, name_len) = BHE_SHAPES[d[0] as usize];
        let (ending, bin) = (d[1] as usize, d[2] == 1);
        st.nontrivial += 1;
        st.bump("bulky_headers_with_endings");
        let cols: Arc<Vec<Column>> = Arc::new(
            (0..n)
                .map(|i| {
                    let mut name = format!("c{}_", i);
                    while name.len() < name_len {
                        name.push((b'a' + ((i + name.len()) % 26) as u8) as char);
                    }
                    Column { table: ["t", "", "other_table"][i % 3].to_string(), column: name, coltype: ColumnType::MYSQL_TYPE_VAR_STRING, colflags: [ColumnFlags::empty(), ColumnFlags::NOT_NULL_FLAG, ColumnFlags::BINARY_FLAG][i % 3] }
                })
                .collect(),
        );
        let row = |r: usize| WOp::WriteRow((0..n).map(|i| Val::Str(format!("{}.{}", r, i))).collect());
        let err = || (msql_srv::ErrorKind::ER_NO, b"no".to_vec());
        let prog: Vec<WOp> = match ending {
            0 => vec![WOp::Start(cols.clone()), WOp::Finish],
            1 => vec![WOp::Start(cols.clone()), row(0), row(1), WOp::Finish],
            2 => vec![WOp::Start(cols.clone()), WOp::FinishError(err().0, err().1)],
            3 => vec![WOp::Start(cols.clone()), row(0), row(1), WOp::FinishError(err().0, err().1)],
            4 => vec![WOp::Start(cols.clone()), row(0), WOp::FinishOne, WOp::Error(err().0, err().1)],
            5 => vec![WOp::Start(cols.clone()), row(0), WOp::FinishOne, WOp::Start(cols.clone()), row(1), WOp::Finish],
            6 => vec![WOp::Start(cols.clone()), row(0)],
            _ => vec![WOp::CompleteOne(3, 4), WOp::Start(cols.clone()), row(0), WOp::FinishError(err().0, err().1)],
        };
        let cmds = if bin { vec![ClientCmd::new(with_byte(COM_STMT_PREPARE, b"id=1 p=0")), ClientCmd::new(cmd_execute(1, 0, 1, &[])), ping()] } else { vec![q(b"q"), ping()] };
        let conv = Conv::new(cmds);
        let s = conv.stream();
        let stream = Arc::new(s.bytes);
        let mut sim = sim_for(&stream, vec![]);
        sim.log_ops = false;
        let prog = Arc::new(prog);
        let behave = Box::new(move |_: usize, cb: &Cb| match cb {
            Cb::Prepare(_) => Behavior::PrepReply { id: 1, params: param_cols(0), cols: param_cols(0) },
            Cb::Query(_) | Cb::Execute { .. } => Behavior::Prog(prog.clone()),
            _ => Behavior::Silent,
        });
        let o = run_conn(sim, ConnCfg::new(behave));
        st.transitions += n as u64;
        let what = format!("{} definitions with names of {} bytes, then {} ({} protocol)", n, name_len, BHE_ENDINGS[ending], if bin { "binary" } else { "text" });
        if let ConnResult::Panic(l, m) = &o.res {
            return Err(Violation::new(panic_key(l, m), format!("{}: run_on panicked at {}: {}", what, l, m)));
        }
        if !o.res.is_ok() {
            return Err(Violation::new("result-not-ok", format!("{}: run_on returned {}", what, o.res.short())));
        }
        let d = decode_all(delivered(&o), &conv, &s.last_seq, conv.cmds.len(), false).map_err(|e| Violation::new("reply-decode", format!("{}: {}", what, e)))?;
        let reply = &d.replies[conv.cmds.len() - 2];
        let mut headers = 0;
        for u in reply {
            if let Unit::ResultSet { cols: gc, .. } = u {
                check_defs(gc, &cols, &what)?;
                headers += 1;
            }
        }
        let want_headers = if ending == 5 { 2 } else { 1 };
        if headers != want_headers {
            return Err(Violation::new("resultset-reply", format!("{}: {} resultset header(s) decoded, {} declared", what, headers, want_headers)));
        }
        Ok(())
    }
    fn describe(&self, idx: u64) -> J {
        let d = digits(idx, &[BHE_SHAPES.len() as u64, BHE_ENDINGS.len() as u64, 2]);
        json!({"definitions": BHE_SHAPES[d[0] as usize].0, "name_bytes": BHE_SHAPES[d[0] as usize].1, "then": BHE_ENDINGS[d[1] as usize], "protocol": if d[2] == 1 { "binary" } else { "text" }})
    }
}

/// table and column names of every length 0..=700 (the table alone, the name alone, both): a
/// private buffer size an implementation may introduce lies somewhere in that range
struct NameLengthsDense;
impl Family for NameLengthsDense {
    fn name(&self) -> String {
        "names-of-every-length".into()
    }
    fn len(&self) -> u64 {
        701 * 3
    }
    fn run(&self, idx: u64, st: &mut Stats) -> Result<(), Violation> {
        let d = digits(idx, &[701, 3]);
        let l = d[0] as usize;
        let (tl, nl) = match d[1] {
            0 => (l, 5),
            1 => (3, l),
            _ => (l, l),
        };
        st.nontrivial += 1;
        st.bump("names_of_every_length");
        let mk = |n: usize, salt: usize| -> String { (0..n).map(|i| (b'a' + ((i + salt) % 26) as u8) as char).collect() };
        let c = Arc::new(vec![
            Column { table: mk(tl, 1), column: mk(nl, 2), coltype: ColumnType::MYSQL_TYPE_LONG, colflags: ColumnFlags::UNSIGNED_FLAG },
            Column { table: "t".into(), column: "after".into(), coltype: ColumnType::MYSQL_TYPE_VAR_STRING, colflags: ColumnFlags::empty() },
        ]);
        run_meta(1, &c, &c, st)
    }
    fn describe(&self, idx: u64) -> J {
        let d = digits(idx, &[701, 3]);
        let which = ["table", "column name", "both"][d[1] as usize];
        json!({"length": d[0], "applies_to": which})
    }
}

struct Names {
    lens: Vec<usize>,
}
impl Family for Names {
    fn ambient(&self, idx: u64) -> u64 {
        crate::engine::rot(idx)
    }
    fn name(&self) -> String {
        "name-lengths".into()
    }
    fn len(&self) -> u64 {
        (self.lens.len() * self.lens.len() * 2) as u64
    }
    fn run(&self, idx: u64, st: &mut Stats) -> Result<(), Violation> {
        let d = digits(idx, &[self.lens.len() as u64, self.lens.len() as u64, 2]);
        let (tl, nl, multibyte) = (self.lens[d[0] as usize], self.lens[d[1] as usize], d[2] == 1);
        let mk = |n: usize, salt: u8| -> String {
            if multibyte {
                // 2-byte characters; odd lengths get one ASCII byte
                let mut s = String::new();
                if n % 2 == 1 {
                    s.push((b'a' + salt) as char);
                }
                for i in 0..n / 2 {
                    s.push(char::from_u32(0xe0 + ((i as u32 + salt as u32) % 30)).unwrap());
                }
                s
            } else {
                (0..n).map(|i| (b'a' + ((i + salt as usize) % 26) as u8) as char).collect()
            }
        };
        if tl > 250 || nl > 250 {
            st.nontrivial += 1;
            st.bump("names_longer_than_250");
        }
        let c = Arc::new(vec![
            Column { table: mk(tl, 1), column: mk(nl, 2), coltype: ColumnType::MYSQL_TYPE_LONG, colflags: ColumnFlags::empty() },
            Column { table: "t".into(), column: "short".into(), coltype: ColumnType::MYSQL_TYPE_BLOB, colflags: ColumnFlags::NOT_NULL_FLAG },
            Column { table: mk(nl, 3), column: mk(tl, 4), coltype: ColumnType::MYSQL_TYPE_VAR_STRING, colflags: ColumnFlags::UNSIGNED_FLAG },
        ]);
        run_meta(1, &c, &c, st)
    }
    fn describe(&self, idx: u64) -> J {
        let d = digits(idx, &[self.lens.len() as u64, self.lens.len() as u64, 2]);
        json!({"table_name_bytes": self.lens[d[0] as usize], "column_name_bytes": self.lens[d[1] as usize], "multibyte": d[2] == 1})
    }
}

/// table and column names of megabytes: sizes at which a definition that mentions a name once,
/// twice (org_name) or together with its table (org_table) crosses the packet limit of 2^24-1 bytes
struct NamesMb;
const MB_PAIRS: [(usize, usize); 10] = [(1, 4_194_290), (1, 5_592_400), (1, 8_388_592), (1, 8_388_593), (1, 8_400_000), (5_242_880, 5_242_880), (0, 8_400_000), (4_194_300, 4_194_300), (2_796_200, 2_796_203), (1, 16_777_100)];
impl Family for NamesMb {
    fn name(&self) -> String {
        "names-of-megabytes".into()
    }
    fn len(&self) -> u64 {
        MB_PAIRS.len() as u64
    }
    fn run(&self, idx: u64, st: &mut Stats) -> Result<(), Violation> {
        let (tl, nl) = MB_PAIRS[idx as usize];
        st.nontrivial += 1;
        st.bump("names_of_megabytes");
        let mk = |n: usize, salt: usize| -> String { (0..n).map(|i| (b'a' + ((i / 7 + salt) % 26) as u8) as char).collect() };
        let c = Arc::new(vec![
            Column { table: "t".into(), column: "before".into(), coltype: ColumnType::MYSQL_TYPE_BLOB, colflags: ColumnFlags::NOT_NULL_FLAG },
            Column { table: mk(tl, 1), column: mk(nl, 2), coltype: ColumnType::MYSQL_TYPE_LONG, colflags: ColumnFlags::UNSIGNED_FLAG },
            Column { table: "t".into(), column: "after".into(), coltype: ColumnType::MYSQL_TYPE_VAR_STRING, colflags: ColumnFlags::empty() },
        ]);
        run_meta(1, &c, &c, st)
    }
    fn describe(&self, idx: u64) -> J {
        json!({"table_name_bytes": MB_PAIRS[idx as usize].0, "column_name_bytes": MB_PAIRS[idx as usize].1})
    }
}

/// every column type x every representable flag word, 256 columns per connection
struct TypesFlags {
    flags: Vec<u16>,
}
impl Family for TypesFlags {
    fn ambient(&self, idx: u64) -> u64 {
        crate::engine::rot(idx)
    }
    fn name(&self) -> String {
        "types-x-flag-words".into()
    }
    fn len(&self) -> u64 {
        ((all_types().len() * self.flags.len() + 255) / 256) as u64
    }
    fn run(&self, idx: u64, st: &mut Stats) -> Result<(), Violation> {
        let types = all_types();
        let total = types.len() * self.flags.len();
        let from = idx as usize * 256;
        let to = (from + 256).min(total);
        st.nontrivial += 1;
        st.add("type_flag_pairs", (to - from) as u64);
        let c: Arc<Vec<Column>> = Arc::new(
            (from..to)
                .map(|k| Column {
                    table: format!("t{}", k % 3),
                    column: format!("c{}", k),
                    coltype: types[k % types.len()],
                    colflags: ColumnFlags::from_bits_truncate(self.flags[k / types.len()]),
                })
                .collect(),
        );
        run_meta(2, &Arc::new(vec![]), &c, st)
    }
    fn describe(&self, idx: u64) -> J {
        json!({"pairs": format!("{}..{}", idx * 256, idx * 256 + 256), "types": all_types().len(), "flag_words": self.flags.len()})
    }
}

/// PREPARE replies whose two definition lists are each within the 16-bit count fields while their
/// sum is at, just beyond or far beyond 2^16 (arithmetic on the two counts together)
struct WidePrepares;
const WIDE_PAIRS: [(usize, usize); 16] = [(40_000, 30_000), (30_000, 40_000), (65_300, 300), (300, 65_300), (32_768, 32_768), (32_767, 32_768), (32_767, 32_769), (65_000, 535), (65_000, 536), (65_000, 537), (65_535, 1), (1, 65_535), (65_535, 65_535), (65_535, 65_534), (256, 65_280), (65_280, 256)];
impl Family for WidePrepares {
    fn ambient(&self, idx: u64) -> u64 {
        crate::engine::rot(idx)
    }
    fn name(&self) -> String {
        "prepare-count-pairs-whose-sum-crosses-2^16".into()
    }
    fn len(&self) -> u64 {
        WIDE_PAIRS.len() as u64
    }
    fn max_threads(&self) -> Option<usize> {
        Some(8)
    }
    fn run(&self, idx: u64, st: &mut Stats) -> Result<(), Violation> {
        let (np, nc) = WIDE_PAIRS[idx as usize];
        st.nontrivial += 1;
        st.bump("wide_prepare_pairs");
        run_meta(7 + idx as u32, &mk_cols(np, 3), &mk_cols(nc, 4), st).map_err(|v| Violation::new(&v.key, format!("{} parameters and {} columns: {}", np, nc, v.msg)))
    }
    fn describe(&self, idx: u64) -> J {
        json!({"parameters": WIDE_PAIRS[idx as usize].0, "columns": WIDE_PAIRS[idx as usize].1})
    }
}

struct PrepareShapes {
    counts: Vec<usize>,
    ids: Vec<u32>,
}
impl Family for PrepareShapes {
    fn ambient(&self, idx: u64) -> u64 {
        crate::engine::rot(idx)
    }
    fn name(&self) -> String {
        "prepare-ids-and-count-pairs".into()
    }
    fn len(&self) -> u64 {
        (self.counts.len() * self.counts.len() * self.ids.len()) as u64
    }
    fn max_threads(&self) -> Option<usize> {
        Some(8)
    }
    fn run(&self, idx: u64, st: &mut Stats) -> Result<(), Violation> {
        let d = digits(idx, &[self.counts.len() as u64, self.counts.len() as u64, self.ids.len() as u64]);
        let (np, nc, id) = (self.counts[d[0] as usize], self.counts[d[1] as usize], self.ids[d[2] as usize]);
        st.nontrivial += 1;
        if id > 65535 {
            st.bump("wide_statement_ids");
        }
        run_meta(id, &mk_cols(np, 3), &mk_cols(nc, 4), st)
    }
    fn describe(&self, idx: u64) -> J {
        let d = digits(idx, &[self.counts.len() as u64, self.counts.len() as u64, self.ids.len() as u64]);
        json!({"parameters": self.counts[d[0] as usize], "columns": self.counts[d[1] as usize], "statement_id": self.ids[d[2] as usize]})
    }
}


/// Metadata on one connection is a *history*: every sequence of metadata-bearing exchanges
/// (resultset headers in text and binary mode, chained headers in one response, PREPARE replies
/// that reuse a statement id with other counts) over a palette of column lists built to collide
/// (same table+name concatenation split differently, lists differing only in flags / type /
/// order / one name). Whatever came before, each header must equal what the shim declares now.
#[derive(Clone, Debug)]
enum MetaEv {
    Rs(usize),
    Exec(usize),
    Rs2(usize, usize),
    Prep(u32, usize, usize),
}

fn palette() -> Vec<Arc<Vec<Column>>> {
    let c = |t: &str, n: &str, ty: ColumnType, f: ColumnFlags| Column { table: t.into(), column: n.into(), coltype: ty, colflags: f };
    let l = ColumnType::MYSQL_TYPE_LONG;
    let e = ColumnFlags::empty();
    vec![
        vec![c("orders", "id", l, e)],
        vec![c("order", "sid", l, e)],
        vec![c("", "ordersid", l, e)],
        vec![c("ordersid", "", l, e)],
        vec![c("orders", "id", l, ColumnFlags::UNSIGNED_FLAG)],
        vec![c("orders", "id", ColumnType::MYSQL_TYPE_LONGLONG, e)],
        vec![c("orders", "id", l, e), c("orders", "x", l, e)],
        vec![c("orders", "id", l, e), c("orders", "y", l, e)],
        vec![c("orders", "x", l, e), c("orders", "id", l, e)],
        vec![],
        vec![c("t", "a", ColumnType::MYSQL_TYPE_VAR_STRING, e), c("t", "b", ColumnType::MYSQL_TYPE_DOUBLE, ColumnFlags::NOT_NULL_FLAG), c("t", "c", ColumnType::MYSQL_TYPE_DATETIME, e)],
        vec![c("t", "a", ColumnType::MYSQL_TYPE_VAR_STRING, e), c("t", "b", ColumnType::MYSQL_TYPE_DOUBLE, e), c("t", "c", ColumnType::MYSQL_TYPE_DATETIME, e)],
    ]
    .into_iter()
    .map(Arc::new)
    .collect()
}

fn param_palette() -> Vec<Arc<Vec<Column>>> {
    let c = |n: &str, ty: ColumnType, f: ColumnFlags| Column { table: String::new(), column: n.into(), coltype: ty, colflags: f };
    vec![
        vec![],
        vec![c("?", ColumnType::MYSQL_TYPE_VAR_STRING, ColumnFlags::empty())],
        vec![c("?", ColumnType::MYSQL_TYPE_VAR_STRING, ColumnFlags::empty()), c("?", ColumnType::MYSQL_TYPE_VAR_STRING, ColumnFlags::empty())],
        vec![c("a", ColumnType::MYSQL_TYPE_LONG, ColumnFlags::empty()), c("b", ColumnType::MYSQL_TYPE_LONG, ColumnFlags::UNSIGNED_FLAG), c("c", ColumnType::MYSQL_TYPE_BLOB, ColumnFlags::empty())],
    ]
    .into_iter()
    .map(Arc::new)
    .collect()
}

fn meta_events() -> Vec<MetaEv> {
    let n = palette().len();
    let mut v = Vec::new();
    for i in 0..n {
        v.push(MetaEv::Rs(i));
    }
    for i in 0..n {
        v.push(MetaEv::Exec(i));
    }
    for (a, b) in [(0, 1), (1, 0), (0, 4), (6, 7), (9, 0), (0, 9), (2, 3), (10, 11)] {
        v.push(MetaEv::Rs2(a, b));
    }
    for (id, p, c) in [(1u32, 1usize, 0usize), (1, 2, 1), (1, 0, 9), (2, 1, 0), (1, 1, 4), (1, 3, 10), (1, 3, 11), (2, 2, 6)] {
        v.push(MetaEv::Prep(id, p, c));
    }
    v
}

struct MetaHistories {
    evs: Vec<MetaEv>,
    depth: usize,
}
impl MetaHistories {
    fn hist(&self, idx: u64) -> Vec<MetaEv> {
        digits(idx, &vec![self.evs.len() as u64; self.depth]).iter().map(|i| self.evs[*i as usize].clone()).collect()
    }
}
impl Family for MetaHistories {
    fn ambient(&self, idx: u64) -> u64 {
        crate::engine::rot(idx)
    }
    fn name(&self) -> String {
        format!("metadata-histories-depth-{}", self.depth)
    }
    fn len(&self) -> u64 {
        (self.evs.len() as u64).pow(self.depth as u32)
    }
    fn run(&self, idx: u64, st: &mut Stats) -> Result<(), Violation> {
        let h = self.hist(idx);
        let pal = palette();
        let ppal = param_palette();
        st.nontrivial += 1;
        st.bump("metadata_histories");
        // statement 9 (no parameters) serves the binary-mode headers
        let mut cmds = vec![ClientCmd::new(with_byte(COM_STMT_PREPARE, b"nine"))];
        let mut behaviours: Vec<Behavior> = vec![Behavior::PrepReply { id: 9, params: ppal[0].clone(), cols: pal[9].clone() }];
        for ev in &h {
            match ev {
                MetaEv::Rs(i) => {
                    cmds.push(q(b"rs"));
                    behaviours.push(Behavior::Prog(Arc::new(vec![WOp::Start(pal[*i].clone()), WOp::Finish])));
                }
                MetaEv::Exec(i) => {
                    cmds.push(ClientCmd::new(cmd_execute(9, 0, 1, &[])));
                    behaviours.push(Behavior::Prog(Arc::new(vec![WOp::Start(pal[*i].clone()), WOp::Finish])));
                }
                MetaEv::Rs2(a, b) => {
                    cmds.push(q(b"rs2"));
                    behaviours.push(Behavior::Prog(Arc::new(vec![WOp::Start(pal[*a].clone()), WOp::FinishOne, WOp::Start(pal[*b].clone()), WOp::Finish])));
                }
                MetaEv::Prep(id, p, c) => {
                    cmds.push(ClientCmd::new(with_byte(COM_STMT_PREPARE, b"again")));
                    behaviours.push(Behavior::PrepReply { id: *id, params: ppal[*p].clone(), cols: pal[*c].clone() });
                }
            }
        }
        cmds.push(ping());
        let conv = Conv::new(cmds);
        let s = conv.stream();
        let stream = Arc::new(s.bytes);
        let mut sim = sim_for(&stream, vec![]);
        sim.log_ops = false;
        let mut k = 0usize;
        let bh = behaviours.clone();
        let behave = Box::new(move |_: usize, cb: &Cb| match cb {
            Cb::Prepare(_) | Cb::Query(_) | Cb::Execute { .. } => {
                let b = bh[k].clone();
                k += 1;
                b
            }
            _ => Behavior::Silent,
        });
        let o = run_conn(sim, ConnCfg::new(behave));
        st.transitions += h.len() as u64;
        if let ConnResult::Panic(l, m) = &o.res {
            return Err(Violation::new(panic_key(l, m), format!("run_on panicked at {}: {}", l, m)));
        }
        if !o.res.is_ok() {
            return Err(Violation::new("result-not-ok", format!("run_on returned {}", o.res.short())));
        }
        let d = decode_all(delivered(&o), &conv, &s.last_seq, conv.cmds.len(), false).map_err(|e| Violation::new("reply-decode", e))?;
        let check_rs = |u: &Unit, want: &Arc<Vec<Column>>, what: &str| -> Result<(), Violation> {
            match u {
                Unit::ResultSet { cols, end: Ok(_), .. } if !want.is_empty() => check_defs(cols, want, what),
                Unit::Ok { .. } if want.is_empty() => Ok(()),
                other => Err(Violation::new("resultset-reply", format!("{}: {}", what, format!("{:?}", other).chars().take(80).collect::<String>()))),
            }
        };
        for (i, ev) in h.iter().enumerate() {
            let r = &d.replies[i + 1];
            let what = format!("exchange {} of {:?}", i, h);
            match (ev, &r[..]) {
                (MetaEv::Rs(c), [u]) | (MetaEv::Exec(c), [u]) => check_rs(u, &pal[*c], &what)?,
                (MetaEv::Rs2(a, b), [u1, u2]) => {
                    check_rs(u1, &pal[*a], &what)?;
                    check_rs(u2, &pal[*b], &what)?;
                }
                (MetaEv::Prep(id, p, c), [Unit::PrepareOk { id: gid, params: gp, cols: gc, .. }]) => {
                    if gid != id {
                        return Err(Violation::new("statement-id", format!("{}: statement id {} declared, {} decoded", what, id, gid)));
                    }
                    check_defs(gp, &ppal[*p], &format!("{}: PREPARE parameters", what))?;
                    check_defs(gc, &pal[*c], &format!("{}: PREPARE columns", what))?;
                }
                (_, other) => return Err(Violation::new("reply-shape", format!("{}: {} unit(s)", what, other.len()))),
            }
        }
        Ok(())
    }
    fn describe(&self, idx: u64) -> J {
        json!(self.hist(idx).iter().map(|e| format!("{:?}", e)).collect::<Vec<_>>())
    }
}

/// Metadata over the life of prepared statements: PREPARE (two ids, colliding column lists, the
/// same id prepared again with another list), long data, EXECUTE answered with the declared list
/// or with another one, CLOSE, COM_FIELD_LIST and a text resultset in between - every sequence up
/// to the depth. Each header and PREPARE reply must equal what the shim declares at that moment.
#[derive(Clone, Copy, Debug, PartialEq)]
enum LifeEv {
    /// PREPARE answered with (statement id, column list index); always one parameter
    Prep(u32, usize),
    /// EXECUTE answered with the list the statement declared
    Exec(u32),
    /// EXECUTE of statement 1 answered with another list
    ExecOther(usize),
    Long(u32),
    Close(u32),
    FieldList,
    Rs(usize),
}

struct StmtLifecycles {
    depth: usize,
}
impl StmtLifecycles {
    fn evs() -> Vec<LifeEv> {
        vec![
            LifeEv::Prep(1, 0),
            LifeEv::Prep(1, 6),
            LifeEv::Prep(2, 1),
            LifeEv::Exec(1),
            LifeEv::Exec(2),
            LifeEv::ExecOther(10),
            LifeEv::Long(1),
            LifeEv::Long(2),
            LifeEv::Close(1),
            LifeEv::Close(2),
            LifeEv::FieldList,
            LifeEv::Rs(4),
        ]
    }
    fn hist(&self, idx: u64) -> Vec<LifeEv> {
        let e = Self::evs();
        digits(idx, &vec![e.len() as u64; self.depth]).iter().map(|i| e[*i as usize]).collect()
    }
}
impl Family for StmtLifecycles {
    fn ambient(&self, idx: u64) -> u64 {
        crate::engine::rot(idx)
    }
    fn name(&self) -> String {
        format!("statement-lifecycle-metadata-depth-{}", self.depth)
    }
    fn len(&self) -> u64 {
        (Self::evs().len() as u64).pow(self.depth as u32)
    }
    fn run(&self, idx: u64, st: &mut Stats) -> Result<(), Violation> {
        let h = self.hist(idx);
        let pal = palette();
        let ppal = param_palette();
        // what each statement declared (None = not open) and whether long data is pending
        let mut open: [Option<usize>; 3] = [None; 3];
        let mut pending = [false; 3];
        let mut cmds = Vec::new();
        let mut behaviours: Vec<Behavior> = Vec::new();
        let mut want: Vec<Option<usize>> = Vec::new(); // list expected in the reply's header
        // a history that does not end in a metadata-bearing exchange repeats a shorter one
        if !matches!(h.last(), Some(LifeEv::Prep(..)) | Some(LifeEv::Exec(_)) | Some(LifeEv::ExecOther(_)) | Some(LifeEv::Rs(_)) | Some(LifeEv::FieldList)) {
            st.skipped += 1;
            return Ok(());
        }
        for ev in &h {
            match *ev {
                LifeEv::Prep(id, c) => {
                    cmds.push(ClientCmd::new(with_byte(COM_STMT_PREPARE, b"p")));
                    behaviours.push(Behavior::PrepReply { id, params: ppal[1].clone(), cols: pal[c].clone() });
                    open[id as usize] = Some(c);
                    pending[id as usize] = false;
                    want.push(Some(c));
                }
                LifeEv::Exec(_) | LifeEv::ExecOther(_) => {
                    let (id, c) = match *ev {
                        LifeEv::Exec(id) => (id, open[id as usize]),
                        LifeEv::ExecOther(c) => (1, open[1].map(|_| c)),
                        _ => unreachable!(),
                    };
                    let c = match c {
                        Some(c) => c,
                        None => {
                            st.skipped += 1; // executing a statement that is not open is C10's subject
                            return Ok(());
                        }
                    };
                    let long = pending[id as usize];
                    pending[id as usize] = false;
                    let blk = exec_block(
                        &[ExecParam {
                            ty: 0xfd,
                            unsigned: false,
                            wire: if long { None } else { Some(vec![1, b'v']) },
                            long,
                        }],
                        true,
                    );
                    cmds.push(ClientCmd::new(cmd_execute(id, 0, 1, &blk)));
                    behaviours.push(Behavior::Prog(Arc::new(vec![WOp::Start(pal[c].clone()), WOp::Finish])));
                    want.push(Some(c));
                }
                LifeEv::Long(id) => {
                    if open[id as usize].is_none() {
                        st.skipped += 1;
                        return Ok(());
                    }
                    pending[id as usize] = true;
                    cmds.push(ClientCmd::new(cmd_long(id, 0, b"chunk")));
                    want.push(None);
                }
                LifeEv::Close(id) => {
                    open[id as usize] = None;
                    pending[id as usize] = false;
                    cmds.push(ClientCmd::new(cmd_close(id)));
                    want.push(None);
                }
                LifeEv::FieldList => {
                    cmds.push(ClientCmd::new(with_byte(COM_FIELD_LIST, b"t\0")));
                    want.push(None);
                }
                LifeEv::Rs(c) => {
                    cmds.push(q(b"rs"));
                    behaviours.push(Behavior::Prog(Arc::new(vec![WOp::Start(pal[c].clone()), WOp::Finish])));
                    want.push(Some(c));
                }
            }
        }
        st.nontrivial += 1;
        st.bump("statement_lifecycle_histories");
        cmds.push(ping());
        let conv = Conv::new(cmds);
        let s = conv.stream();
        let stream = Arc::new(s.bytes);
        let mut sim = sim_for(&stream, vec![]);
        sim.log_ops = false;
        let mut k = 0usize;
        let bh = behaviours.clone();
        let behave = Box::new(move |_: usize, cb: &Cb| match cb {
            Cb::Prepare(_) | Cb::Query(_) | Cb::Execute { .. } => {
                let b = bh[k].clone();
                k += 1;
                b
            }
            _ => Behavior::Silent,
        });
        let o = run_conn(sim, ConnCfg::new(behave));
        st.transitions += h.len() as u64;
        if let ConnResult::Panic(l, m) = &o.res {
            return Err(Violation::new(panic_key(l, m), format!("run_on panicked at {}: {}", l, m)));
        }
        if !o.res.is_ok() {
            return Err(Violation::new("result-not-ok", format!("{:?}: run_on returned {}", h, o.res.short())));
        }
        let d = decode_all(delivered(&o), &conv, &s.last_seq, conv.cmds.len(), false).map_err(|e| Violation::new("reply-decode", format!("{:?}: {}", h, e)))?;
        for (i, ev) in h.iter().enumerate() {
            let r = &d.replies[i];
            let what = format!("exchange {} of {:?}", i, h);
            match (ev, want[i], &r[..]) {
                (LifeEv::Prep(id, _), Some(c), [Unit::PrepareOk { id: gid, params: gp, cols: gc, .. }]) => {
                    if gid != id {
                        return Err(Violation::new("statement-id", format!("{}: statement id {} declared, {} decoded", what, id, gid)));
                    }
                    check_defs(gp, &ppal[1], &format!("{}: PREPARE parameters", what))?;
                    check_defs(gc, &pal[c], &format!("{}: PREPARE columns", what))?;
                }
                (LifeEv::Exec(_), Some(c), [Unit::ResultSet { cols, end: Ok(_), .. }]) | (LifeEv::ExecOther(_), Some(c), [Unit::ResultSet { cols, end: Ok(_), .. }]) | (LifeEv::Rs(_), Some(c), [Unit::ResultSet { cols, end: Ok(_), .. }]) => check_defs(cols, &pal[c], &what)?,
                (LifeEv::Long(_), None, []) | (LifeEv::Close(_), None, []) => {}
                (LifeEv::FieldList, None, _) => {}
                (_, _, other) => return Err(Violation::new("reply-shape", format!("{}: {} unit(s): {}", what, other.len(), format!("{:?}", other).chars().take(120).collect::<String>()))),
            }
        }
        Ok(())
    }
    fn describe(&self, idx: u64) -> J {
        json!(self.hist(idx).iter().map(|e| format!("{:?}", e)).collect::<Vec<_>>())
    }
}

/// Many *distinct* column lists on one connection, each declared again later: n distinct resultset
/// headers (1-4 columns; every seventh through a PREPARE reply + EXECUTE, every eleventh preceded
/// by a COM_FIELD_LIST), optionally behind one header with a 5000-byte column name, then the same n
/// lists once more in another order. For bounded caches of encoded definitions (wrong once full
/// or once they evict) and for per-connection counters of definition blocks. Every header of the
/// session is compared with what was declared.
pub struct ManyShapes {
    pub ns: Vec<usize>,
}
impl ManyShapes {
    /// `one_table`: every list belongs to the same table (state remembered per table then meets a
    /// column of "the same table" at every step); otherwise the table changes with every list
    fn shape_of(k: usize, one_table: bool) -> Arc<Vec<Column>> {
        let ncols = 1 + k % 4;
        Arc::new(
            (0..ncols)
                .map(|c| Column {
                    table: if one_table { "t0".to_string() } else { format!("t{}", k % 7) },
                    column: format!("s{}_c{}", k, c),
                    coltype: [ColumnType::MYSQL_TYPE_LONG, ColumnType::MYSQL_TYPE_VAR_STRING, ColumnType::MYSQL_TYPE_DOUBLE][(k + c) % 3],
                    colflags: if (k + c) % 5 == 0 { ColumnFlags::UNSIGNED_FLAG } else { ColumnFlags::empty() },
                })
                .collect(),
        )
    }
    /// (distinct lists, long name first, phase shift): the sessions behind a long name are run
    /// under eight phase shifts (0..7 extra plain declarations in front), so that a periodic event
    /// of the implementation (every K-th definition block) meets every position of this script's
    /// own period (a PREPARE reply every 7th declaration, a COM_FIELD_LIST every 11th)
    fn case(&self, idx: u64) -> (usize, bool, usize) {
        let plain = self.ns.len() as u64;
        if idx < plain {
            return (self.ns[idx as usize], false, 0);
        }
        let r = idx - plain;
        (self.ns[(r / 8) as usize], true, (r % 8) as usize)
    }
}
impl Family for ManyShapes {
    fn name(&self) -> String {
        "many-distinct-column-lists-then-each-again".into()
    }
    fn len(&self) -> u64 {
        self.ns.len() as u64 * 9
    }
    fn run(&self, idx: u64, st: &mut Stats) -> Result<(), Violation> {
        let (n, long_first, shift) = self.case(idx);
        st.nontrivial += 1;
        st.bump("many_shapes");
        // the order of declarations: 0..n, then a stride walk over the same n lists
        let stride = [1usize, 3, 5, 7, 11, 13].iter().copied().find(|s| n % s != 0).unwrap_or(1);
        let mut order: Vec<usize> = (0..n).collect();
        order.extend((0..n).map(|i| (i * stride + 1) % n));
        let order: Vec<(usize, usize)> = (0..shift).map(|i| (usize::MAX, i % n)).chain(order.into_iter().enumerate()).collect();
        let long_cols = Arc::new(vec![Column { table: "t0".into(), column: "L".repeat(5000), coltype: ColumnType::MYSQL_TYPE_LONG, colflags: ColumnFlags::empty() }]);
        let mut cmds = vec![ClientCmd::new(with_byte(COM_STMT_PREPARE, b"first"))];
        let mut behaviours: Vec<Behavior> = vec![Behavior::PrepReply { id: 9, params: param_palette()[0].clone(), cols: Self::shape_of(0, long_first) }];
        // (reply index, expected list, via PREPARE reply?)
        let mut want: Vec<(usize, Arc<Vec<Column>>, bool)> = Vec::new();
        if long_first {
            want.push((cmds.len(), long_cols.clone(), false));
            cmds.push(q(b"long"));
            behaviours.push(Behavior::Prog(Arc::new(vec![WOp::Start(long_cols.clone()), WOp::Finish])));
        }
        for (j, k) in order.iter() {
            let (j, k) = (*j, k);
            let cols = Self::shape_of(*k, long_first);
            if j == usize::MAX {
                want.push((cmds.len(), cols.clone(), false));
                cmds.push(q(b"rs"));
                behaviours.push(Behavior::Prog(Arc::new(vec![WOp::Start(cols), WOp::Finish])));
                continue;
            }
            if j % 11 == 10 {
                cmds.push(ClientCmd::new(with_byte(COM_FIELD_LIST, b"t\0")));
            }
            if j % 7 == 6 {
                want.push((cmds.len(), cols.clone(), true));
                cmds.push(ClientCmd::new(with_byte(COM_STMT_PREPARE, b"again")));
                behaviours.push(Behavior::PrepReply { id: 9, params: param_palette()[1].clone(), cols: cols.clone() });
                want.push((cmds.len(), cols.clone(), false));
                cmds.push(ClientCmd::new(cmd_execute(9, 0, 1, &exec_block(&[ExecParam { ty: 0xfd, unsigned: false, wire: Some(vec![1, b'v']), long: false }], true))));
                behaviours.push(Behavior::Prog(Arc::new(vec![WOp::Start(cols), WOp::Finish])));
            } else {
                want.push((cmds.len(), cols.clone(), false));
                cmds.push(q(b"rs"));
                behaviours.push(Behavior::Prog(Arc::new(vec![WOp::Start(cols), WOp::Finish])));
            }
        }
        cmds.push(ping());
        let conv = Conv::new(cmds);
        let s = conv.stream();
        let stream = Arc::new(s.bytes);
        let mut sim = sim_for(&stream, vec![]);
        sim.log_ops = false;
        let mut k = 0usize;
        let bh = behaviours.clone();
        let behave = Box::new(move |_: usize, cb: &Cb| match cb {
            Cb::Prepare(_) | Cb::Query(_) | Cb::Execute { .. } => {
                let b = bh[k].clone();
                k += 1;
                b
            }
            _ => Behavior::Silent,
        });
        let o = run_conn(sim, ConnCfg::new(behave));
        st.transitions += want.len() as u64;
        let tag = |e: String| format!("{} distinct column lists{}: {}", n, if long_first { format!(" behind a 5000-byte column name and {} further declarations", shift) } else { String::new() }, e);
        if let ConnResult::Panic(l, m) = &o.res {
            return Err(Violation::new(panic_key(l, m), tag(format!("run_on panicked at {}: {}", l, m))));
        }
        if !o.res.is_ok() {
            return Err(Violation::new("result-not-ok", tag(format!("run_on returned {}", o.res.short()))));
        }
        let d = decode_all(delivered(&o), &conv, &s.last_seq, conv.cmds.len(), false).map_err(|e| Violation::new("reply-decode", tag(e)))?;
        for (j, (ri, cols, prep)) in want.iter().enumerate() {
            let what = tag(format!("declaration {} of {} (reply {})", j, want.len(), ri));
            match (&d.replies[*ri][..], prep) {
                ([Unit::PrepareOk { cols: gc, .. }], true) => check_defs(gc, cols, &what)?,
                ([Unit::ResultSet { cols: gc, end: Ok(_), .. }], false) => check_defs(gc, cols, &what)?,
                (other, _) => return Err(Violation::new("reply-shape", format!("{}: {} unit(s)", what, other.len()))),
            }
        }
        Ok(())
    }
    fn describe(&self, idx: u64) -> J {
        let (n, long_first, shift) = self.case(idx);
        json!({"distinct_column_lists": n, "each_declared_twice": true, "behind_a_5000_byte_column_name": long_first, "phase_shift": shift})
    }
}

/// resultset headers of more columns than 16 bits can count (the column count of a resultset is a
/// length-encoded integer; only a PREPARE reply is limited to 65535): 65536 and 70000 columns
struct HugeHeaders;
impl Family for HugeHeaders {
    fn name(&self) -> String {
        "resultset-headers-beyond-65535-columns".into()
    }
    fn len(&self) -> u64 {
        2
    }
    fn run(&self, idx: u64, st: &mut Stats) -> Result<(), Violation> {
        let n = [65_536usize, 70_000][idx as usize];
        st.nontrivial += 1;
        st.bump("huge_headers");
        let cols = mk_cols(n, 5);
        let conv = Conv::new(vec![q(b"wide"), ping()]);
        let s = conv.stream();
        let stream = Arc::new(s.bytes);
        let mut sim = sim_for(&stream, vec![]);
        sim.log_ops = false;
        let c2 = cols.clone();
        let behave = Box::new(move |_: usize, cb: &Cb| match cb {
            Cb::Query(_) => Behavior::Prog(Arc::new(vec![WOp::Start(c2.clone()), WOp::Finish])),
            _ => Behavior::Silent,
        });
        let o = run_conn(sim, ConnCfg::new(behave));
        st.transitions += n as u64;
        if let ConnResult::Panic(l, m) = &o.res {
            return Err(Violation::new(panic_key(l, m), format!("{} columns: run_on panicked at {}: {}", n, l, m)));
        }
        if !o.res.is_ok() {
            return Err(Violation::new("result-not-ok", format!("{} columns: run_on returned {}", n, o.res.short())));
        }
        let d = decode_all(delivered(&o), &conv, &s.last_seq, 2, false).map_err(|e| Violation::new("reply-decode", format!("a resultset header of {} columns: {}", n, e)))?;
        match &d.replies[0][..] {
            [Unit::ResultSet { cols: gc, end: Ok(_), .. }] => check_defs(gc, &cols, &format!("resultset header of {} columns", n)),
            other => Err(Violation::new("resultset-reply", format!("{} columns: {} unit(s)", n, other.len()))),
        }
    }
    fn describe(&self, idx: u64) -> J {
        let n = [65_536usize, 70_000][idx as usize];
        json!({"columns": n})
    }
}

pub fn build(quick: bool) -> Check {
    let flags = flag_words();
    let nf = flags.len();
    Check {
        id: "C09",
        level: "model_checking",
        rule: format!("column descriptors declared through start() and StatementMetaWriter::reply on the real run_on, decoded by refwire and by mysql_common's Column/StmtPacket: table and column names of every length 0..700; headers of 17..400 KB followed by eight kinds of response ending (rows, errors at once / after rows / behind finish_one, the same header again, writers dropped) in both protocols; table and column names of 2.8..16.7 MB (ten size pairs at which a definition mentioning a name once, twice or with its table crosses the packet limit); every column count 0..{} (and 65535 in thorough; resultset headers of 65536 and 70000 columns) with table names cycling A, tbl_b, A, \"\", multibyte; table/column name lengths {{0,1,250,251,252,65535,65536,70000}}^2 in ASCII and 2-byte UTF-8; lists of 70..4000 definitions totalling 100 KiB..400 KiB; all {} column types x all {} representable flag words; statement ids {{0,1,255,256,65535,65536,2^31,2^32-1}} x (parameters, columns) in {{0,1,2,250,251,1000}}^2. Histories: every sequence of <= 3 (thorough: 4) metadata-bearing exchanges on one connection over 40 events (text and binary resultset headers, chained headers, PREPARE replies reusing an id with other counts) built from 12 column lists that collide (same table+name concatenation split differently; lists differing only in flags, type, order or one name; the empty list); 17..2300 (thorough: ..66000) distinct column lists on one connection (plain, through PREPARE + EXECUTE, behind COM_FIELD_LIST, optionally behind a 5000-byte name), each declared a second time in another order; every sequence of <= 6 (thorough: 7) events over PREPARE (two ids, a re-prepare with another list), long data, EXECUTE answered with the declared or another list, CLOSE, COM_FIELD_LIST and a text resultset. Oracle: count, order, table, name, type, flags, id and both counts equal what was declared; EOF placement per the 4.1 protocol without DEPRECATE_EOF. Non-trivial = beyond the one-byte length class.", 1000, all_types().len(), nf),
        assumptions: vec!["ColumnFlags can only represent its defined bits; all representable words are covered".into()],
        bounds: json!({"max_columns": if quick {1000} else {65535}, "flag_words": nf}),
        exhaustive: true,
        caps_hit: vec![],
        families: vec![
            Box::new(Counts { max: 1000, extra: if quick { vec![] } else { vec![65535] } }),
            Box::new(HugeHeaders),
            Box::new(Names { lens: vec![0, 1, 250, 251, 252, 65535, 65536, 70000] }),
            Box::new(NamesMb),
            Box::new(NameLengthsDense),
            Box::new(BulkyHeadersEndings),
            Box::new(BulkyLists),
            Box::new(TypesFlags { flags }),
            Box::new(WidePrepares),
            Box::new(PrepareShapes { counts: vec![0, 1, 2, 250, 251, 1000], ids: vec![0, 1, 255, 256, 65535, 65536, 1 << 31, u32::MAX] }),
            Box::new(super::aftermath::Aftermath { prop: "C09" }),
            Box::new(MetaHistories { evs: meta_events(), depth: 1 }),
            Box::new(MetaHistories { evs: meta_events(), depth: 2 }),
            Box::new(MetaHistories { evs: meta_events(), depth: if quick { 3 } else { 4 } }),
            Box::new(ManyShapes { ns: if quick { vec![17, 127, 129, 257, 513, 2300] } else { vec![17, 127, 128, 129, 255, 256, 257, 511, 513, 1025, 2300, 4200, 33000, 66000] } }),
            Box::new(StmtLifecycles { depth: 3 }),
            Box::new(StmtLifecycles { depth: 4 }),
            Box::new(StmtLifecycles { depth: 5 }),
            Box::new(StmtLifecycles { depth: 6 }),
            Box::new(StmtLifecycles { depth: if quick { 2 } else { 7 } }),
        ],
        required: vec!["names_of_every_length", "bulky_headers_with_endings", "names_of_megabytes", "aftermath_recovered", "huge_headers", "many_shapes", "metadata_histories", "statement_lifecycle_histories", "more_than_250_columns", "names_longer_than_250", "type_flag_pairs", "wide_statement_ids", "bulky_lists"],
    }
}
