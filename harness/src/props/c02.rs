//! C02 — routing of commands to callbacks: all command sequences up to a depth over a fixed
//! alphabet, compared with the routing model; plus every generated `USE` spelling.

use super::common::*;
use super::model::*;
use crate::conv::*;
use crate::engine::*;
use crate::refwire::*;
use crate::shim::*;
use serde_json::{json, Value as J};
use std::sync::Arc;

fn alphabet() -> Vec<Vec<u8>> {
    let mut a: Vec<Vec<u8>> = Vec::new();
    for t in [
        &b"x"[..],
        b"SELECT 1",
        b"SELECT @@max_allowed_packet",
        b"select @@anything",
        b"SELECT @@",
        b"SELECT @x",
        b"SELECT @",
        b"USER()",
        b"USE",
        b"USEdb",
        b"use\tdb",
        b"\xff",
        b"SELECT @@\xff",
        b"USE \xff",
        b"USE db",
        b"use `my db`;",
        b"USE  spaced ",
        b"use d;\n",
    ] {
        a.push(with_byte(COM_QUERY, t));
    }
    let ids: [u32; 4] = [1, 256, 0x8000_0000, 0xFFFF_FFFF];
    for id in ids {
        a.push(with_byte(COM_STMT_PREPARE, format!("id={} p=0", id).as_bytes()));
        a.push(cmd_execute(id, 0, 1, &[]));
        a.push(cmd_close(id));
    }
    a.push(cmd_long(1, 0, b"zz"));
    a.push(cmd_long(0xFFFF_FFFF, 7, b""));
    a.push(cmd_execute(0, 0, 1, &[]));
    a.push(with_byte(COM_STMT_PREPARE, b"\xc3\x28"));
    for n in [&b"db"[..], b" padded ", b"`quoted`", b"semi;", b"\xff\xfe"] {
        a.push(with_byte(COM_INIT_DB, n));
    }
    a.push(with_byte(COM_FIELD_LIST, b"tbl\0"));
    a.push(vec![COM_PING]);
    a.push(vec![COM_QUIT]);
    a
}

pub struct SeqFamily {
    alpha: Vec<Vec<u8>>,
    depth: usize,
    label: &'static str,
}

fn check_routing(cmds: &[Vec<u8>], st: &mut Stats) -> Result<(), Violation> {
    let conv = Conv::new(cmds.iter().map(|c| ClientCmd::new(c.clone())).collect());
    let s = conv.stream();
    let variants = expect_variants(cmds);
    let stream = Arc::new(s.bytes);
    let mut sim = sim_for(&stream, vec![]);
    sim.log_ops = false;
    let o = run_conn(sim, ConnCfg::new(std_behave()));
    st.transitions += cmds.len() as u64;
    if let ConnResult::Panic(l, m) = &o.res {
        return Err(Violation::new(panic_key(l, m), format!("run_on panicked at {}: {}", l, m)));
    }
    let got: Vec<Cb> = o.log.iter().map(|x| x.1.clone()).collect();
    if got.first() != Some(&auth_cb()) {
        return Err(Violation::new("auth-callback", "first callback is not after_authentication(u)"));
    }
    let got = &got[1..];
    if variants.len() > 1 {
        st.bump("sequences_with_invalid_utf8");
    }
    // the behaviour must be one of the variants the model accepts, completely: callback log,
    // run_on's result, and a strict decode of everything that was sent
    let mut first_err: Option<Violation> = None;
    let mut any_log_match = false;
    for v in &variants {
        if v.log[..] != got[..] || v.ok != o.res.is_ok() {
            continue;
        }
        any_log_match = true;
        match check_replies(cmds, &conv, &s.last_seq, &o, v) {
            Ok(()) => {
                if !v.ok {
                    st.bump("sequences_ending_in_error");
                }
                if !v.skipped.is_empty() {
                    st.bump("refused_commands_answered_and_skipped");
                }
                return Ok(());
            }
            Err(e) => {
                if first_err.is_none() {
                    first_err = Some(e);
                }
            }
        }
    }
    if let Some(e) = first_err {
        return Err(e);
    }
    debug_assert!(!any_log_match);
    // say what differs against the variant that serves the most commands
    let e = &variants.iter().max_by_key(|v| v.log.len()).unwrap().log;
    let n = e.len().min(got.len());
    let mut first = n;
    for i in 0..n {
        if e[i] != got[i] {
            first = i;
            break;
        }
    }
    let key = if first < n {
        "routing-wrong-callback"
    } else if got.len() > e.len() {
        "routing-extra-callback"
    } else if got.len() < e.len() {
        "routing-missing-callback"
    } else {
        "routing-wrong-result"
    };
    Err(Violation::new(
        key,
        format!(
            "callback log differs from the routing model at index {}: expected {:?}, got {:?}; run_on returned {}",
            first,
            e.get(first).map(cb_short),
            got.get(first).map(cb_short),
            o.res.short()
        ),
    )
    .with(json!({"accepted_logs": variants.iter().map(|v| json!({"log": v.log.iter().map(cb_short).collect::<Vec<_>>(), "run_on_ok": v.ok})).collect::<Vec<_>>(), "got": got.iter().map(cb_short).collect::<Vec<_>>()})))
}

/// replies for everything answered must decode, and nothing else may have been sent
fn check_replies(cmds: &[Vec<u8>], conv: &Conv, last_seq: &[u8], o: &Outcome, v: &Variant) -> Result<(), Violation> {
    let ans = v.answered;
    let refused = !v.ok;
    let d = decode_all(&o.sim.out[..o.sim.flushed], conv, last_seq, ans, refused).map_err(|e| Violation::new("reply-decode", e))?;
    if refused {
        // a refused command may be answered by one ERR before the connection ends
        trailing_is_at_most_one_err(&d).map_err(|e| Violation::new("stray-output-after-refusal", e))?;
    }
    for (i, c) in cmds.iter().take(ans).enumerate() {
        let r = &d.replies[i];
        if v.skipped.contains(&i) {
            // refused but not fatal: the client waits for a reply, and the only conformant one is ERR
            if !matches!(r[..], [Unit::Err(_)]) {
                return Err(Violation::new("reply-kind", format!("command {} was not handed to the shim, yet its reply is {:?} instead of one ERR", i, r)));
            }
            continue;
        }
        // light reply-kind check for library-answered commands
        let ok = match c[0] {
            COM_PING => matches!(r[..], [Unit::Ok { rows: 0, id: 0, .. }]),
            // any single conformant reply will do for the commands the library answers itself:
            // the property pins who answers, not the contents
            COM_FIELD_LIST => matches!(r[..], [Unit::FieldList { .. }] | [Unit::Err(_)]),
            COM_QUERY if c[1..].starts_with(b"SELECT @@") || c[1..].starts_with(b"select @@") => r.len() == 1,
            COM_STMT_PREPARE => match &r[..] {
                [Unit::PrepareOk { id, .. }] => {
                    let t = std::str::from_utf8(&c[1..]).unwrap_or("");
                    *id == parse_prep(t).0
                }
                _ => false,
            },
            COM_STMT_CLOSE | COM_STMT_SEND_LONG_DATA => r.is_empty(),
            _ => r.len() == 1,
        };
        if !ok {
            return Err(Violation::new(
                "reply-kind",
                format!("command {} ({:02x?}…) got an unexpected reply {:?}", i, &c[..c.len().min(12)], r),
            ));
        }
    }
    if d.replies.iter().zip(cmds.iter()).any(|(r, c)| r.is_empty() && resp_kind_of(c) != RespKind::None) {
        return Err(Violation::new("reply-missing", "a command that expects a reply got none"));
    }
    Ok(())
}

impl Family for SeqFamily {
    fn ambient(&self, idx: u64) -> u64 {
        crate::engine::rot(idx)
    }
    fn name(&self) -> String {
        format!("{}-depth-{}", self.label, self.depth)
    }
    fn len(&self) -> u64 {
        (self.alpha.len() as u64).pow(self.depth as u32)
    }
    fn run(&self, idx: u64, st: &mut Stats) -> Result<(), Violation> {
        let d = digits(idx, &vec![self.alpha.len() as u64; self.depth]);
        let cmds: Vec<Vec<u8>> = d.iter().map(|i| self.alpha[*i as usize].clone()).collect();
        // non-trivial: at least two different command bytes
        if cmds.iter().any(|c| c[0] != cmds[0][0]) {
            st.nontrivial += 1;
        }
        check_routing(&cmds, st)
    }
    fn describe(&self, idx: u64) -> J {
        let d = digits(idx, &vec![self.alpha.len() as u64; self.depth]);
        json!(d.iter().map(|i| hex(&self.alpha[*i as usize])).collect::<Vec<_>>())
    }
}

/// every `USE` spelling of the grammar, each in three positions of a three-command context
pub struct UseFamily {
    spellings: Vec<(Vec<u8>, String)>,
}

fn use_spellings() -> Vec<(Vec<u8>, String)> {
    let mut v = Vec::new();
    let ws = ["", " ", "\t", "\n", "  ", " \t\n"];
    let mut names: Vec<String> = ["d", "my_db", "d\u{e9}", "a b", "a;b", "x`y"].iter().map(|x| x.to_string()).collect();
    // names that end (and start) with every character U+00C0..U+00FF (last bytes 0x80..0xBF, among
    // them bytes that are white space in Latin-1), a Cyrillic, a 3-byte and a 4-byte character
    for c in (0xC0u32..=0xFF).filter_map(char::from_u32).chain(['\u{445}', '\u{420}', '\u{2026}', '\u{3000}', '\u{1F600}']) {
        names.push(format!("n{}", c));
        names.push(format!("{}n", c));
    }
    for kw in ["USE", "use"] {
        for pre in ws {
            for name in names.iter().map(|x| x.as_str()) {
                // the long tail of non-ASCII names runs with the plain spellings only
                if name.len() > 2 && !name.is_ascii() && name != "d\u{e9}" && (!pre.is_empty() || kw == "use") {
                    continue;
                }
                for quoted in [false, true] {
                    if !quoted && (name.contains(' ') || name.contains(';') || name.contains('`')) {
                        continue;
                    }
                    for semi in ["", ";"] {
                        for post in ws {
                            let mut s = String::new();
                            s.push_str(kw);
                            s.push(' ');
                            s.push_str(pre);
                            if quoted {
                                s.push('`');
                            }
                            s.push_str(name);
                            if quoted {
                                s.push('`');
                            }
                            s.push_str(semi);
                            s.push_str(post);
                            v.push((s.into_bytes(), name.to_string()));
                        }
                    }
                }
            }
        }
    }
    v
}

impl Family for UseFamily {
    fn name(&self) -> String {
        "use-spellings".into()
    }
    fn len(&self) -> u64 {
        self.spellings.len() as u64 * 3
    }
    fn run(&self, idx: u64, st: &mut Stats) -> Result<(), Violation> {
        let (sp, name) = &self.spellings[(idx / 3) as usize];
        let pos = (idx % 3) as usize;
        let mut cmds = vec![with_byte(COM_QUERY, b"SELECT 1"), vec![COM_PING]];
        cmds.insert(pos, with_byte(COM_QUERY, sp));
        st.nontrivial += 1;
        st.bump("use_spellings_run");
        let conv = Conv::new(cmds.iter().map(|c| ClientCmd::new(c.clone())).collect());
        let s = conv.stream();
        let stream = Arc::new(s.bytes);
        let mut sim = sim_for(&stream, vec![]);
        sim.log_ops = false;
        let o = run_conn(sim, ConnCfg::new(std_behave()));
        st.transitions += 3;
        let mut exp = vec![auth_cb(), Cb::Query("SELECT 1".into())];
        exp.insert(1 + pos.min(1), Cb::Init(name.clone()));
        if pos == 0 {
            exp = vec![auth_cb(), Cb::Init(name.clone()), Cb::Query("SELECT 1".into())];
        } else {
            exp = vec![auth_cb(), Cb::Query("SELECT 1".into()), Cb::Init(name.clone())];
        }
        check_exact(&o, &conv, &s.last_seq, &exp).map(|_| ()).map_err(|mut v| {
            v.key = format!("use-spelling:{}", v.key);
            v
        })
    }
    fn describe(&self, idx: u64) -> J {
        let (sp, name) = &self.spellings[(idx / 3) as usize];
        json!({"statement": String::from_utf8_lossy(sp), "expected_database": name, "position": idx % 3})
    }
}


/// statement ids are opaque 32-bit numbers chosen by the shim: every ordered pair of ids from a
/// palette (small, around 256/512/1000/1024/4096/65536, 2^24, 2^31, 2^32-1) is prepared, then
/// both are executed, long-data'd and closed in both orders - every command must reach the
/// callback with exactly its id whatever other ids are open
pub struct IdPairs;
const IDS: [u32; 24] = [0, 1, 2, 255, 256, 257, 511, 512, 513, 600, 999, 1000, 1001, 1010, 1023, 1024, 1025, 4095, 4096, 65535, 65536, 1 << 24, 1 << 31, u32::MAX];
impl Family for IdPairs {
    fn ambient(&self, idx: u64) -> u64 {
        crate::engine::rot(idx)
    }
    fn name(&self) -> String {
        "statement-id-pairs".into()
    }
    fn len(&self) -> u64 {
        (IDS.len() * IDS.len()) as u64
    }
    fn run(&self, idx: u64, st: &mut Stats) -> Result<(), Violation> {
        let a = IDS[idx as usize / IDS.len()];
        let b = IDS[idx as usize % IDS.len()];
        st.nontrivial += 1;
        st.bump("id_pairs");
        let prep = |id: u32| with_byte(COM_STMT_PREPARE, format!("id={} p=0", id).as_bytes());
        let mut cmds = vec![prep(a), prep(b), cmd_execute(b, 0, 1, &[]), cmd_execute(a, 0, 1, &[]), cmd_close(a), cmd_execute(b, 0, 1, &[]), prep(a), cmd_execute(a, 0, 1, &[]), cmd_close(b), cmd_close(a), vec![COM_PING]];
        if a == b {
            // the second prepare replaces the first; closing once closes it
            cmds = vec![prep(a), prep(b), cmd_execute(a, 0, 1, &[]), cmd_close(a), vec![COM_PING]];
        }
        check_routing(&cmds, st).map_err(|mut v| {
            v.msg = format!("statement ids {} and {}: {}", a, b, v.msg);
            v
        })
    }
    fn describe(&self, idx: u64) -> J {
        json!({"first_statement_id": IDS[idx as usize / IDS.len()], "second_statement_id": IDS[idx as usize % IDS.len()]})
    }
}


/// text whose multi-byte characters sit at every byte offset: QUERY / PREPARE / INIT_DB / USE
/// texts built from an ASCII prefix of every length 0..12, a 2-, 3- or 4-byte character, and an
/// ASCII rest - any code that slices the text at a fixed byte offset meets a character there
pub struct Utf8Offsets;
impl Utf8Offsets {
    pub fn texts() -> Vec<(u8, String)> {
        let mut v = Vec::new();
        for base in ["SELECT 1 FROM t WHERE x", "USE database_name", "use `quoted`;", "-- comment text", "select @@version_comment limit 1"] {
            // every offset of the first 12 bytes, and the very end of the text
            for k in (0..=12usize.min(base.len())).chain(std::iter::once(base.len())) {
                // letters, symbols, and the characters a "helpful" normalisation would drop or treat
                // as white space: byte order mark, zero-width space, soft hyphen, line / paragraph
                // separators, ideographic space, Mongolian vowel separator, a NUL
                for c in ["\u{e9}", "\u{20ac}", "\u{1F600}", "\u{a0}", "\u{85}", "\u{feff}", "\u{200b}", "\u{ad}", "\u{2028}", "\u{2029}", "\u{3000}", "\u{180e}", "\u{0}"] {
                    let t = format!("{}{}{}", &base[..k], c, &base[k..]);
                    v.push((COM_QUERY, t.clone()));
                    if base.starts_with("SELECT") {
                        v.push((COM_STMT_PREPARE, t.clone()));
                        v.push((COM_INIT_DB, t));
                    }
                }
            }
        }
        v
    }
}
impl Family for Utf8Offsets {
    fn ambient(&self, idx: u64) -> u64 {
        crate::engine::rot(idx)
    }
    fn name(&self) -> String {
        "multi-byte-characters-at-every-offset".into()
    }
    fn len(&self) -> u64 {
        Self::texts().len() as u64
    }
    fn run(&self, idx: u64, st: &mut Stats) -> Result<(), Violation> {
        let (cmd, t) = Self::texts()[idx as usize].clone();
        st.nontrivial += 1;
        st.bump("utf8_offsets");
        let cmds = vec![with_byte(cmd, t.as_bytes()), vec![COM_PING], with_byte(COM_QUERY, b"after")];
        check_routing(&cmds, st).map_err(|mut v| {
            v.msg = format!("command {:#04x} with text {:?}: {}", cmd, t, v.msg);
            v
        })
    }
    fn describe(&self, idx: u64) -> J {
        let (cmd, t) = Self::texts()[idx as usize].clone();
        json!({"command": cmd, "text": t})
    }
}

/// Statements every real client library sends on its own (session set-up, transaction control,
/// introspection) and statements that merely look like the two the library answers itself: each
/// must be routed by the stated rules only - handed to the shim verbatim unless it is `USE <name>`
/// or starts with `SELECT @@` - as COM_QUERY and as COM_STMT_PREPARE, in two orders.
pub struct ClientStatements;
impl ClientStatements {
    pub fn texts() -> Vec<&'static str> {
        vec![
            "SET NAMES utf8mb4",
            "SET NAMES latin1",
            "SET NAMES 'utf8' COLLATE 'utf8_general_ci'",
            "SET CHARACTER SET utf8",
            "SET autocommit=1",
            "SET autocommit=0",
            "SET sql_mode='STRICT_TRANS_TABLES'",
            "SET SESSION TRANSACTION ISOLATION LEVEL READ COMMITTED",
            "SET @a = 1",
            "SET @@session.max_allowed_packet = 1024",
            "BEGIN",
            "START TRANSACTION",
            "COMMIT",
            "ROLLBACK",
            "SAVEPOINT s1",
            "SHOW VARIABLES LIKE 'max_allowed_packet'",
            "SHOW WARNINGS",
            "SHOW DATABASES",
            "SHOW SESSION STATUS",
            "SELECT DATABASE()",
            "SELECT VERSION()",
            "SELECT CONNECTION_ID()",
            "SELECT USER()",
            "SELECT 1",
            "SELECT NOW()",
            "SELECT LAST_INSERT_ID()",
            "SELECT @@",
            "SELECT  @@version",
            "SELECT\t@@version",
            " SELECT @@version",
            "(SELECT @@version)",
            "/* mysql-connector */ SELECT @@version_comment LIMIT 1",
            "/* ping */ SELECT 1",
            "-- USE db",
            "# USE db",
            "KILL QUERY 1",
            "DO 1",
            "PING",
            "QUIT",
            "EXPLAIN SELECT 1",
            "USE",
            "USE ",
            "USER db",
            "USE`db`",
            "USING db",
            "DESCRIBE t",
            "LOCK TABLES t READ",
            "UNLOCK TABLES",
            "FLUSH TABLES",
            "RESET QUERY CACHE",
            "PREPARE s FROM 'SELECT 1'",
            "EXECUTE s",
            "DEALLOCATE PREPARE s",
            "CHANGE MASTER TO MASTER_HOST='x'",
            "",
            ";",
            "\0",
        ]
    }
}
impl Family for ClientStatements {
    fn ambient(&self, idx: u64) -> u64 {
        crate::engine::rot(idx)
    }
    fn name(&self) -> String {
        "statements-client-libraries-send-on-their-own".into()
    }
    fn len(&self) -> u64 {
        Self::texts().len() as u64 * 3
    }
    fn run(&self, idx: u64, st: &mut Stats) -> Result<(), Violation> {
        let t = Self::texts()[(idx / 3) as usize];
        st.nontrivial += 1;
        st.bump("client_statements");
        let cmds = match idx % 3 {
            0 => vec![with_byte(COM_QUERY, t.as_bytes()), vec![COM_PING], with_byte(COM_QUERY, b"after")],
            1 => vec![with_byte(COM_STMT_PREPARE, t.as_bytes()), vec![COM_PING], with_byte(COM_QUERY, b"after")],
            _ => vec![with_byte(COM_QUERY, b"before"), with_byte(COM_QUERY, t.as_bytes()), with_byte(COM_QUERY, t.as_bytes()), vec![COM_PING]],
        };
        check_routing(&cmds, st).map_err(|mut v| {
            v.msg = format!("statement {:?} ({}): {}", t, ["query", "prepare", "query twice behind another"][(idx % 3) as usize], v.msg);
            v
        })
    }
    fn describe(&self, idx: u64) -> J {
        let t = Self::texts()[(idx / 3) as usize];
        json!({"statement": t, "as": idx % 3})
    }
}

/// routing when the transport fails: conversations that use every route (INIT_DB, USE, SELECT @@,
/// field list, query, PREPARE, long data, EXECUTE, CLOSE, PING), with an error once and from then
/// on at every transport operation of the undisturbed run. Whatever callbacks are made must be a
/// prefix of the model's log - a failure must not turn one route into another, repeat a callback
/// or invent one.
struct RoutingUnderFaults {
    convs: Vec<(Vec<Vec<u8>>, usize, Vec<Cb>)>,
}
impl RoutingUnderFaults {
    fn new() -> Self {
        let blk = exec_block(&[ExecParam { ty: 0xfc, unsigned: false, wire: None, long: true }], true);
        let lists: Vec<Vec<Vec<u8>>> = vec![
            vec![with_byte(COM_INIT_DB, b"db1"), with_byte(COM_QUERY, b"USE `db2`"), with_byte(COM_QUERY, b"SELECT @@max_allowed_packet"), with_byte(COM_FIELD_LIST, b"t\0"), with_byte(COM_QUERY, b"SELECT 1"), vec![COM_PING], with_byte(COM_QUERY, b"select @@version_comment limit 1"), with_byte(COM_QUERY, b"use db3;"), with_byte(COM_QUERY, b"tail")],
            vec![with_byte(COM_STMT_PREPARE, b"id=1 p=1 c=1"), cmd_long(1, 0, b"abc"), cmd_execute(1, 0, 1, &blk), with_byte(COM_QUERY, b"SELECT @@max_allowed_packet"), with_byte(COM_STMT_PREPARE, b"id=2 p=0"), cmd_execute(2, 0, 1, &[]), cmd_close(1), vec![COM_PING], cmd_close(2), with_byte(COM_QUERY, b"tail")],
            vec![with_byte(COM_QUERY, b"SELECT @@max_allowed_packet"), with_byte(COM_QUERY, b"SELECT @@max_allowed_packet"), with_byte(COM_QUERY, b"USE a"), with_byte(COM_QUERY, b"USE b"), with_byte(COM_INIT_DB, b"c"), with_byte(COM_QUERY, b"tail")],
        ];
        let mut convs = Vec::new();
        for cmds in lists {
            let conv = Conv::new(cmds.iter().map(|c| ClientCmd::new(c.clone())).collect());
            let stream = Arc::new(conv.stream().bytes);
            let mut sim = sim_for(&stream, vec![]);
            sim.log_ops = true;
            let o = run_conn(sim, ConnCfg::new(std_behave()));
            let v = expect_variants(&cmds);
            assert_eq!(v.len(), 1, "VERIF harness bug: these conversations have one accepted behaviour");
            convs.push((cmds, o.sim.ops.len(), v[0].log.clone()));
        }
        RoutingUnderFaults { convs }
    }
    fn case(&self, idx: u64) -> (usize, usize, bool) {
        let mut r = idx;
        for (i, (_, ops, _)) in self.convs.iter().enumerate() {
            let n = *ops as u64 * 2;
            if r < n {
                return (i, (r / 2) as usize, r % 2 == 1);
            }
            r -= n;
        }
        unreachable!()
    }
}
impl Family for RoutingUnderFaults {
    fn name(&self) -> String {
        "routing-under-a-fault-at-every-transport-operation".into()
    }
    fn len(&self) -> u64 {
        self.convs.iter().map(|c| c.1 as u64 * 2).sum()
    }
    fn run(&self, idx: u64, st: &mut Stats) -> Result<(), Violation> {
        let (ci, at, persistent) = self.case(idx);
        let (cmds, _, want) = &self.convs[ci];
        st.nontrivial += 1;
        st.bump("routing_under_faults");
        let conv = Conv::new(cmds.iter().map(|c| ClientCmd::new(c.clone())).collect());
        let stream = Arc::new(conv.stream().bytes);
        let mut sim = sim_for(&stream, vec![]);
        sim.log_ops = true;
        sim.fault = Some(crate::sim::Fault { at_op: at, kind: crate::sim::FaultKind::Error(std::io::ErrorKind::Other), persistent });
        let o = run_conn(sim, ConnCfg::new(std_behave()));
        st.transitions += cmds.len() as u64;
        let what = format!("conversation {}, an error {} at transport operation {}", ci, if persistent { "from" } else { "once" }, at);
        if let ConnResult::Panic(l, m) = &o.res {
            return Err(Violation::new(panic_key(l, m), format!("{}: run_on panicked at {}: {}", what, l, m)));
        }
        let got: Vec<Cb> = o.log.iter().map(|x| x.1.clone()).collect();
        if got.is_empty() {
            return Ok(());
        }
        let got = &got[1..];
        if let Some(i) = (0..got.len()).find(|i| want.get(*i) != Some(&got[*i])) {
            return Err(Violation::new("routing-differs-under-a-fault", format!("{}: callback {} is {}, the model expects {}", what, i, cb_short(&got[i]), want.get(i).map(cb_short).unwrap_or_else(|| "no further callback".into()))));
        }
        Ok(())
    }
    fn describe(&self, idx: u64) -> J {
        let (ci, at, persistent) = self.case(idx);
        json!({"conversation": ci, "fault_at_operation": at, "persistent": persistent})
    }
}

/// texts of every length 0..=1300 (query, PREPARE, COM_INIT_DB, and the name of a USE statement,
/// bare and back-quoted with a terminator): what reaches the shim must be the text, whatever buffer
/// sizes or thresholds an implementation uses on the way
struct TextLengths;
impl TextLengths {
    fn case(idx: u64) -> (usize, usize) {
        let d = digits(idx, &[1301, 5]);
        (d[0] as usize, d[1] as usize)
    }
}
impl Family for TextLengths {
    fn name(&self) -> String {
        "texts-of-every-length".into()
    }
    fn len(&self) -> u64 {
        1301 * 5
    }
    fn run(&self, idx: u64, st: &mut Stats) -> Result<(), Violation> {
        let (n, kind) = Self::case(idx);
        st.nontrivial += 1;
        st.bump("texts_of_every_length");
        let body: String = (0..n).map(|i| (b'a' + ((i * 5 + n) % 26) as u8) as char).collect();
        let (cmd, want): (ClientCmd, Option<Cb>) = match kind {
            0 => (q(format!("q{}", body).as_bytes()), Some(Cb::Query(format!("q{}", body)))),
            1 => (ClientCmd::new(with_byte(COM_STMT_PREPARE, format!("id=1 p=0 {}", body).as_bytes())), Some(Cb::Prepare(format!("id=1 p=0 {}", body)))),
            2 => (ClientCmd::new(with_byte(COM_INIT_DB, body.as_bytes())), Some(Cb::Init(body.clone()))),
            3 => (q(format!("USE {}", body).as_bytes()), Some(Cb::Init(body.clone()))),
            _ => (q(format!("USE `{}`;", body).as_bytes()), Some(Cb::Init(body.clone()))),
        };
        let conv = Conv::new(vec![cmd, ping()]);
        let s = conv.stream();
        let stream = Arc::new(s.bytes);
        let mut sim = sim_for(&stream, vec![]);
        sim.log_ops = false;
        let o = run_conn(sim, ConnCfg::new(std_behave()));
        st.transitions += 2;
        let mut exp = vec![auth_cb()];
        exp.extend(want);
        check_exact(&o, &conv, &s.last_seq, &exp).map(|_| ()).map_err(|mut v| {
            v.msg = format!("a text of {} bytes as {}: {}", n, ["query", "PREPARE text", "COM_INIT_DB name", "bare USE name", "back-quoted USE name with terminator"][kind], v.msg);
            v
        })
    }
    fn describe(&self, idx: u64) -> J {
        let (n, kind) = Self::case(idx);
        let k = ["query", "PREPARE text", "COM_INIT_DB name", "bare USE name", "back-quoted USE name with terminator"][kind];
        json!({"text_bytes": n, "as": k})
    }
}

pub fn build(quick: bool) -> Check {
    let alpha = alphabet();
    let n = alpha.len();
    let mut families: Vec<Box<dyn Family>> = Vec::new();
    for d in 1..=(if quick { 4 } else { 5 }) {
        families.push(Box::new(SeqFamily { alpha: alpha.clone(), depth: d, label: "command-sequences" }));
    }
    if !quick {
        // one level deeper over a core of the alphabet (every third command)
        let core: Vec<Vec<u8>> = alpha.iter().enumerate().filter(|(i, _)| i % 2 == 0).map(|x| x.1.clone()).collect();
        families.push(Box::new(SeqFamily { alpha: core, depth: 6, label: "command-sequences" }));
    }
    // longer histories over the statement commands alone: two statements of different shape
    // (one parameter / none) prepared, executed and closed in every order, with two commands that
    // do not touch the registry in between
    let one = exec_block(
        &[ExecParam {
            ty: 0xfd,
            unsigned: false,
            wire: Some(vec![2, b'h', b'i']),
            long: false,
        }],
        true,
    );
    let stmts: Vec<Vec<u8>> = vec![
        with_byte(COM_STMT_PREPARE, b"id=1 p=1"),
        with_byte(COM_STMT_PREPARE, b"id=256 p=0"),
        cmd_execute(1, 0, 1, &one),
        cmd_execute(256, 0, 1, &[]),
        cmd_close(1),
        cmd_close(256),
        vec![COM_PING],
        with_byte(COM_QUERY, b"x"),
    ];
    for d in if quick { 5..=6 } else { 5..=7 } {
        families.push(Box::new(SeqFamily { alpha: stmts.clone(), depth: d, label: "statement-command-sequences" }));
    }
    families.push(Box::new(super::soak::Soak { label: "text-and-even", lens: super::soak::lens(quick), mixes: vec![super::soak::Mix::Text, super::soak::Mix::Even, super::soak::Mix::Silent], opts: super::soak::opts_all().into_iter().take(2).collect(), big: vec![] }));
    families.push(Box::new(UseFamily { spellings: use_spellings() }));
    families.push(Box::new(IdPairs));
    families.push(Box::new(TextLengths));
    families.push(Box::new(Utf8Offsets));
    families.push(Box::new(ClientStatements));
    families.push(Box::new(RoutingUnderFaults::new()));
    Check {
        id: "C02",
        level: "model_checking",
        rule: format!("texts of every length 0..1300 as query, PREPARE text, COM_INIT_DB name and USE name (bare; back-quoted with terminator); all command sequences of length <= {} over an alphabet of {} commands (near-miss prefixes, invalid UTF-8, statement ids at width boundaries, COM_INIT_DB names with edge whitespace/backticks/semicolons, quit mid-sequence), 57 statements client libraries send on their own or that merely look like USE / SELECT @@ (as query and as prepare), and of length <= 6 (thorough: 7) over 8 statement commands (two statements of different shape prepared / executed / closed in every order), pipelined on one connection; every USE spelling of the stated grammar in 3 positions; every ordered pair of statement ids from a 24-value palette prepared, executed and closed in both orders; USE names ending/starting with every character U+00C0..U+00FF and 3-/4-byte characters; query / prepare / init-db / USE texts with a multi-byte character at every byte offset 0..12. Long scripted sessions: 130..4099 (thorough: up to 131101) ordinary commands of every kind on one connection in up to six mixes (even, prepare/close churn with growing ids, executions, long-data chunks, unanswered commands, text and library-answered commands) under several client/transport behaviours (pipelined, request ids advancing by 7, lock-step, 1..4093-byte reads, 7/11-byte writes), generated by a fixed rule, kept valid with the registry model and judged on the complete trace (callbacks with arguments, result, strict decode of every reply with its sequence ids). Oracle: routing model (exact callback log, run_on result, strict decode of all replies). Non-trivial = sequence mixes at least two command kinds.", if quick {4} else {5}, n),
        assumptions: vec![
            "for text that is not valid UTF-8 the property only says it is never handed to the shim: both 'connection ends with an error' and 'command skipped' are accepted".into(),
            "mixed-case spellings (Select @@x, Use db) are not in the alphabet because the property does not say how they route".into(),
        ],
        bounds: json!({"alphabet": n, "depth": if quick {4} else {5}}),
        exhaustive: true,
        caps_hit: vec![],
        families,
        required: vec!["texts_of_every_length", "soak_sessions", "client_statements", "utf8_offsets", "id_pairs", "sequences_with_invalid_utf8", "sequences_ending_in_error", "use_spellings_run"],
    }
}
