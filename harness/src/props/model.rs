//! E5 — boring reference models: command routing and the statement registry.

use super::common::parse_prep;
use crate::refwire::*;
use crate::shim::{Cb, PVal};
use std::collections::BTreeMap;

#[derive(Clone, Debug, Default, PartialEq)]
pub struct StmtModel {
    pub params: usize,
    /// (type code, unsigned) per parameter, from the last execution that bound them
    pub types: Option<Vec<(u8, bool)>>,
    pub long: BTreeMap<u16, Vec<u8>>,
}

#[derive(Clone, Debug, Default, PartialEq)]
pub struct Registry {
    pub stmts: BTreeMap<u32, StmtModel>,
}

#[derive(Clone, Debug, PartialEq)]
pub enum Routed {
    /// exactly this callback
    Cb(Cb),
    /// the library answers itself (or the command has no effect on the shim)
    NoCb,
    Quit,
    /// not handed to the shim; the property does not say what happens to the connection
    /// afterwards (invalid UTF-8 text)
    Dropped,
    /// must end the connection with an error without reaching the shim
    Fatal,
    /// must not reach the shim (an execution that reuses types although none were ever bound
    /// cannot be decoded); whether the connection ends or an ERR is sent is not specified
    Refused,
}

/// The value a client encoded for one parameter, as the shim must see it.
pub fn le_i(bytes: &[u8]) -> u64 {
    let mut v = 0u64;
    for (i, b) in bytes.iter().enumerate() {
        v |= (*b as u64) << (8 * i);
    }
    v
}

/// Decode one inline parameter value by type (the reference for what the shim must see).
/// Returns (value, bytes consumed), or None if the bytes do not hold a complete value.
pub fn ref_param(ty: u8, unsigned: bool, b: &[u8]) -> Option<(PVal, usize)> {
    let fixed = |n: usize| -> Option<&[u8]> {
        if b.len() >= n {
            Some(&b[..n])
        } else {
            None
        }
    };
    Some(match ty {
        0x01 => {
            let x = fixed(1)?;
            (if unsigned { PVal::UInt(x[0] as u64) } else { PVal::Int(x[0] as i8 as i64) }, 1)
        }
        0x02 | 0x0d => {
            let x = le_i(fixed(2)?);
            (if unsigned { PVal::UInt(x) } else { PVal::Int(x as u16 as i16 as i64) }, 2)
        }
        0x03 | 0x09 => {
            let x = le_i(fixed(4)?);
            (if unsigned { PVal::UInt(x) } else { PVal::Int(x as u32 as i32 as i64) }, 4)
        }
        0x08 => {
            let x = le_i(fixed(8)?);
            (if unsigned { PVal::UInt(x) } else { PVal::Int(x as i64) }, 8)
        }
        0x04 => {
            let x = le_i(fixed(4)?) as u32;
            (PVal::Double((f32::from_bits(x) as f64).to_bits()), 4)
        }
        0x05 => (PVal::Double(le_i(fixed(8)?)), 8),
        0x06 => (PVal::Null, 0),
        0x07 | 0x0c => {
            let n = *b.first()? as usize;
            (PVal::Datetime(b.get(1..1 + n)?.to_vec()), 1 + n)
        }
        0x0a => {
            let n = *b.first()? as usize;
            (PVal::Date(b.get(1..1 + n)?.to_vec()), 1 + n)
        }
        0x0b => {
            let n = *b.first()? as usize;
            (PVal::Time(b.get(1..1 + n)?.to_vec()), 1 + n)
        }
        0x00 | 0x0f | 0x10 | 0xf5 | 0xf6 | 0xf7 | 0xf8 | 0xf9 | 0xfa | 0xfb | 0xfc | 0xfd | 0xfe | 0xff => {
            let mut c = Cur::new(b);
            let s = c.lenenc_str().ok()?;
            (PVal::Bytes(s.to_vec()), c.p)
        }
        _ => return None,
    })
}

impl Registry {
    /// Route one client command. `prep_ok` tells whether the shim accepts a PREPARE (by the
    /// convention of `parse_prep`).
    pub fn route(&mut self, payload: &[u8]) -> Routed {
        let body = &payload[1..];
        match payload[0] {
            COM_QUIT => Routed::Quit,
            COM_PING | COM_FIELD_LIST => Routed::NoCb,
            COM_INIT_DB => match std::str::from_utf8(body) {
                Ok(s) => Routed::Cb(Cb::Init(s.to_string())),
                Err(_) => Routed::Dropped,
            },
            COM_QUERY => {
                if body.starts_with(b"SELECT @@") || body.starts_with(b"select @@") {
                    Routed::NoCb
                } else if body.starts_with(b"USE ") || body.starts_with(b"use ") {
                    match std::str::from_utf8(&body[4..]) {
                        Ok(s) => Routed::Cb(Cb::Init(bare_db(s))),
                        Err(_) => Routed::Dropped,
                    }
                } else {
                    match std::str::from_utf8(body) {
                        Ok(s) => Routed::Cb(Cb::Query(s.to_string())),
                        Err(_) => Routed::Dropped,
                    }
                }
            }
            COM_STMT_PREPARE => match std::str::from_utf8(body) {
                Ok(s) => {
                    let (id, p, _c, mode) = parse_prep(s);
                    if mode == "ok" {
                        self.stmts.insert(
                            id,
                            StmtModel {
                                params: p,
                                types: None,
                                long: BTreeMap::new(),
                            },
                        );
                    }
                    Routed::Cb(Cb::Prepare(s.to_string()))
                }
                Err(_) => Routed::Dropped,
            },
            COM_STMT_CLOSE => {
                if body.len() < 4 {
                    return Routed::Fatal;
                }
                let id = le_i(&body[..4]) as u32;
                self.stmts.remove(&id);
                Routed::Cb(Cb::Close(id))
            }
            COM_STMT_SEND_LONG_DATA => {
                if body.len() < 6 {
                    return Routed::Fatal;
                }
                let id = le_i(&body[..4]) as u32;
                let param = le_i(&body[4..6]) as u16;
                match self.stmts.get_mut(&id) {
                    None => Routed::Fatal,
                    Some(s) => {
                        s.long.entry(param).or_default().extend_from_slice(&body[6..]);
                        Routed::NoCb
                    }
                }
            }
            COM_STMT_EXECUTE => {
                if body.len() < 9 {
                    return Routed::Fatal;
                }
                let id = le_i(&body[..4]) as u32;
                let block = &body[9..];
                let s = match self.stmts.get_mut(&id) {
                    None => return Routed::Fatal,
                    Some(s) => s,
                };
                let n = s.params;
                let mut params = Vec::new();
                if n > 0 {
                    let bm_len = (n + 7) / 8;
                    if block.len() < bm_len {
                        return Routed::Fatal;
                    }
                    let bm = &block[..bm_len];
                    let mut rest = &block[bm_len..];
                    if !rest.is_empty() {
                        let flag = rest[0];
                        rest = &rest[1..];
                        if flag != 0 {
                            if rest.len() < 2 * n {
                                return Routed::Fatal;
                            }
                            let mut t = Vec::new();
                            for i in 0..n {
                                t.push((rest[2 * i], rest[2 * i + 1] & 0x80 != 0));
                            }
                            s.types = Some(t);
                            rest = &rest[2 * n..];
                        }
                    }
                    let types = match &s.types {
                        Some(t) => t.clone(),
                        None => return Routed::Refused,
                    };
                    for i in 0..n {
                        let (ty, uns) = types[i];
                        if bm[i / 8] & (1 << (i % 8)) != 0 {
                            params.push((ty, PVal::Null));
                        } else if let Some(d) = s.long.get(&(i as u16)) {
                            params.push((ty, PVal::Bytes(d.clone())));
                        } else {
                            match ref_param(ty, uns, rest) {
                                Some((v, used)) => {
                                    rest = &rest[used..];
                                    params.push((ty, v));
                                }
                                None => return Routed::Fatal,
                            }
                        }
                    }
                }
                s.long.clear();
                Routed::Cb(Cb::Execute { id, params })
            }
            _ => Routed::Fatal,
        }
    }
}

/// the bare database name of a `USE ...` statement (text after "USE ")
pub fn bare_db(s: &str) -> String {
    // ASCII white space only: other white space characters belong to the name
    let t = s.trim_matches(|c: char| c.is_ascii_whitespace() || c == '\x0b');
    let t = t.strip_suffix(';').unwrap_or(t);
    let t = t.trim_end_matches(';');
    let t = t.strip_prefix('`').unwrap_or(t);
    let t = t.strip_suffix('`').unwrap_or(t);
    t.to_string()
}

/// One acceptable observable behaviour of a pipelined command list.
#[derive(Clone, Debug)]
pub struct Variant {
    /// callback log (after the Auth callback)
    pub log: Vec<Cb>,
    /// must run_on return Ok (true) / Err (false)
    pub ok: bool,
    /// how many commands are answered (served, or skipped with an ERR reply)
    pub answered: usize,
    /// commands that were not handed to the shim but skipped: each must have been answered by
    /// exactly one ERR (the client is waiting for a reply)
    pub skipped: Vec<usize>,
}

/// Every behaviour the routing model accepts for `cmds`. Text that is not valid UTF-8 is never
/// handed to the shim; the property does not say what else happens, so both "the connection ends
/// there with an error" and "the command is refused with an ERR reply and the conversation goes
/// on" (with the registry as it was) are variants.
pub fn expect_variants(cmds: &[Vec<u8>]) -> Vec<Variant> {
    fn go(cmds: &[Vec<u8>], from: usize, mut reg: Registry, mut log: Vec<Cb>, skipped: Vec<usize>, out: &mut Vec<Variant>) {
        for i in from..cmds.len() {
            match reg.route(&cmds[i]) {
                Routed::Cb(cb) => log.push(cb),
                Routed::NoCb => {}
                Routed::Quit => {
                    out.push(Variant { log, ok: true, answered: i, skipped });
                    return;
                }
                Routed::Fatal | Routed::Refused => {
                    out.push(Variant { log, ok: false, answered: i, skipped });
                    return;
                }
                Routed::Dropped => {
                    out.push(Variant { log: log.clone(), ok: false, answered: i, skipped: skipped.clone() });
                    let mut sk = skipped.clone();
                    sk.push(i);
                    go(cmds, i + 1, reg.clone(), log.clone(), sk, out);
                    return;
                }
            }
        }
        out.push(Variant { log, ok: true, answered: cmds.len(), skipped });
    }
    let mut out = Vec::new();
    go(cmds, 0, Registry::default(), Vec::new(), Vec::new(), &mut out);
    out
}
