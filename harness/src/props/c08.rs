//! C08 — prepared-statement parameters are decoded to exactly what the client bound.

use super::common::*;
use crate::conv::*;
use crate::engine::*;
use crate::refwire::*;
use crate::shim::*;
use chrono::{Datelike, NaiveDate, NaiveDateTime, Timelike};
use msql_srv::{ParamValue, ValueInner};
use serde_json::{json, Value as J};
use std::cell::RefCell;
use std::rc::Rc;
use std::sync::Arc;
use std::time::Duration;

/// what the client means (semantic value), from which both the wire bytes and the expectation
/// are derived independently of the implementation
#[derive(Clone, Debug)]
pub enum PSem {
    Null(u8),
    Int { ty: u8, unsigned: bool, v: i128 },
    F32(f32),
    F64(f64),
    Bytes(u8, Vec<u8>),
    /// type (DATE 0x0a / DATETIME 0x0c / TIMESTAMP 0x07), length form, fields
    Date { ty: u8, len: u8, y: u16, mo: u8, d: u8, h: u8, mi: u8, s: u8, us: u32 },
    Time { len: u8, neg: bool, days: u32, h: u8, m: u8, s: u8, us: u32 },
}

#[derive(Clone, Debug, PartialEq)]
pub enum ConvRes {
    I(i128),
    F32(u32),
    F64(u64),
    Bytes(Vec<u8>),
    Date(i32, u32, u32),
    DateTime(i32, u32, u32, u32, u32, u32, u32),
    Dur(u64, u32),
    Panic(String),
    Skipped,
}

thread_local! {
    /// the length-prefix form byte strings are encoded with (None: the shortest)
    static LENENC_FORM: std::cell::Cell<Option<u8>> = std::cell::Cell::new(None);
    /// executions after the first leave the type table out (new-params-bound = 0)
    static OMIT_TYPES_AFTER_FIRST: std::cell::Cell<bool> = std::cell::Cell::new(false);
}

impl PSem {
    fn ty(&self) -> u8 {
        match self {
            PSem::Null(t) => *t,
            PSem::Int { ty, .. } => *ty,
            PSem::F32(_) => 0x04,
            PSem::F64(_) => 0x05,
            PSem::Bytes(t, _) => *t,
            PSem::Date { ty, .. } => *ty,
            PSem::Time { .. } => 0x0b,
        }
    }
    fn unsigned(&self) -> bool {
        matches!(self, PSem::Int { unsigned: true, .. })
    }
    fn wire(&self) -> Option<Vec<u8>> {
        Some(match self {
            PSem::Null(_) => return None,
            PSem::Int { ty, v, .. } => {
                let w = match ty {
                    0x01 => 1,
                    0x02 | 0x0d => 2,
                    0x03 | 0x09 => 4,
                    _ => 8,
                };
                (*v as u64).to_le_bytes()[..w].to_vec()
            }
            PSem::F32(f) => f.to_le_bytes().to_vec(),
            PSem::F64(f) => f.to_le_bytes().to_vec(),
            PSem::Bytes(_, b) => {
                let mut v = Vec::new();
                match LENENC_FORM.with(|f| f.get()) {
                    // a legal but not the shortest length prefix
                    Some(0xfc) if b.len() < 1 << 16 => {
                        v.push(0xfc);
                        v.extend_from_slice(&(b.len() as u16).to_le_bytes());
                        v.extend_from_slice(b);
                    }
                    Some(0xfd) if b.len() < 1 << 24 => {
                        v.push(0xfd);
                        v.extend_from_slice(&(b.len() as u32).to_le_bytes()[..3]);
                        v.extend_from_slice(b);
                    }
                    Some(0xfe) => {
                        v.push(0xfe);
                        v.extend_from_slice(&(b.len() as u64).to_le_bytes());
                        v.extend_from_slice(b);
                    }
                    _ => put_lenenc_str(&mut v, b),
                }
                v
            }
            PSem::Date { len, y, mo, d, h, mi, s, us, .. } => {
                let mut v = vec![*len];
                if *len >= 4 {
                    v.extend_from_slice(&y.to_le_bytes());
                    v.push(*mo);
                    v.push(*d);
                }
                if *len >= 7 {
                    v.extend_from_slice(&[*h, *mi, *s]);
                }
                if *len >= 11 {
                    v.extend_from_slice(&us.to_le_bytes());
                }
                v
            }
            PSem::Time { len, neg, days, h, m, s, us } => {
                let mut v = vec![*len];
                if *len >= 8 {
                    v.push(*neg as u8);
                    v.extend_from_slice(&days.to_le_bytes());
                    v.extend_from_slice(&[*h, *m, *s]);
                }
                if *len >= 12 {
                    v.extend_from_slice(&us.to_le_bytes());
                }
                v
            }
        })
    }
    /// the raw inner value the shim must see
    fn expect_raw(&self) -> PVal {
        match self {
            PSem::Null(_) => PVal::Null,
            PSem::Int { unsigned, v, .. } => {
                if *unsigned {
                    PVal::UInt(*v as u64)
                } else {
                    PVal::Int(*v as i64)
                }
            }
            PSem::F32(f) => PVal::Double((*f as f64).to_bits()),
            PSem::F64(f) => PVal::Double(f.to_bits()),
            PSem::Bytes(_, b) => PVal::Bytes(b.clone()),
            PSem::Date { ty, .. } => {
                let w = self.wire().unwrap();
                if *ty == 0x0a {
                    PVal::Date(w[1..].to_vec())
                } else {
                    PVal::Datetime(w[1..].to_vec())
                }
            }
            PSem::Time { .. } => PVal::Time(self.wire().unwrap()[1..].to_vec()),
        }
    }
    /// what converting to the corresponding Rust type must yield
    fn expect_conv(&self) -> ConvRes {
        match self {
            PSem::Null(_) => ConvRes::Skipped,
            PSem::Int { v, .. } => ConvRes::I(*v),
            PSem::F32(f) => ConvRes::F32(f.to_bits()),
            PSem::F64(f) => ConvRes::F64(f.to_bits()),
            PSem::Bytes(_, b) => ConvRes::Bytes(b.clone()),
            PSem::Date { ty, len, y, mo, d, h, mi, s, us } => {
                if *len == 0 {
                    return ConvRes::Skipped; // the zero date has no chrono representation
                }
                if *ty == 0x0a {
                    if *len != 4 {
                        // DATE in the 7/11-byte forms is legal on the wire and must be delivered raw;
                        // which Rust type "corresponds" to a DATE with a time part is not defined
                        return ConvRes::Skipped;
                    }
                    ConvRes::Date(*y as i32, *mo as u32, *d as u32)
                } else {
                    ConvRes::DateTime(*y as i32, *mo as u32, *d as u32, *h as u32, *mi as u32, *s as u32, *us)
                }
            }
            PSem::Time { neg, days, h, m, s, us, .. } => {
                if *neg {
                    return ConvRes::Skipped;
                }
                ConvRes::Dur(*days as u64 * 86400 + *h as u64 * 3600 + *m as u64 * 60 + *s as u64, us * 1000)
            }
        }
    }
}

/// the conversion a shim author would write for this parameter
fn convert(p: &ParamValue<'_>) -> ConvRes {
    let v = p.value;
    let ty = p.coltype as u8;
    let inner = v.into_inner();
    let r = guarded(|| match (ty, inner) {
        (_, ValueInner::NULL) => ConvRes::Skipped,
        (0x01, ValueInner::Int(_)) => ConvRes::I(i8::from(v) as i128),
        (0x01, ValueInner::UInt(_)) => ConvRes::I(u8::from(v) as i128),
        (0x02 | 0x0d, ValueInner::Int(_)) => ConvRes::I(i16::from(v) as i128),
        (0x02 | 0x0d, ValueInner::UInt(_)) => ConvRes::I(u16::from(v) as i128),
        (0x03 | 0x09, ValueInner::Int(_)) => ConvRes::I(i32::from(v) as i128),
        (0x03 | 0x09, ValueInner::UInt(_)) => ConvRes::I(u32::from(v) as i128),
        (0x08, ValueInner::Int(_)) => ConvRes::I(i64::from(v) as i128),
        (0x08, ValueInner::UInt(_)) => ConvRes::I(u64::from(v) as i128),
        (0x04, ValueInner::Double(_)) => ConvRes::F32(f32::from(v).to_bits()),
        (0x05, ValueInner::Double(_)) => ConvRes::F64(f64::from(v).to_bits()),
        (_, ValueInner::Bytes(b)) => {
            let by: &[u8] = v.into();
            if std::str::from_utf8(b).is_ok() {
                let s: &str = v.into();
                if s.as_bytes() != by {
                    return ConvRes::Panic("str and bytes conversions disagree".into());
                }
            }
            ConvRes::Bytes(by.to_vec())
        }
        (_, ValueInner::Date(b)) => {
            if b.len() != 4 {
                return ConvRes::Skipped;
            }
            let d: NaiveDate = v.into();
            ConvRes::Date(d.year(), d.month(), d.day())
        }
        (_, ValueInner::Datetime(b)) => {
            if b.is_empty() {
                return ConvRes::Skipped;
            }
            let d: NaiveDateTime = v.into();
            ConvRes::DateTime(d.year(), d.month(), d.day(), d.hour(), d.minute(), d.second(), d.nanosecond() / 1000)
        }
        (_, ValueInner::Time(b)) => {
            if !b.is_empty() && b[0] != 0 {
                return ConvRes::Skipped;
            }
            let d: Duration = v.into();
            ConvRes::Dur(d.as_secs(), d.subsec_nanos())
        }
        (t, other) => ConvRes::Panic(format!("no conversion for type {:#x} holding {:?}", t, other)),
    });
    match r {
        Ok(c) => c,
        Err((l, m)) => ConvRes::Panic(format!("{} at {}", m, l)),
    }
}

/// run PREPARE(n params) + one EXECUTE per parameter list, compare raw values and conversions
fn run_execs(n: usize, execs: &[Vec<PSem>], st: &mut Stats) -> Result<(), Violation> {
    run_execs_with(n, execs, 0, 1, None, st)
}

fn run_execs_with(n: usize, execs: &[Vec<PSem>], flags: u8, iterations: u32, hs: Option<u64>, st: &mut Stats) -> Result<(), Violation> {
    run_execs_ids(n, execs, &[], flags, iterations, hs, st)
}

/// `ids[k]` = statement the k-th execution addresses (empty: all address statement 1); with ids, a
/// second statement of the same shape is prepared next to the first
#[allow(clippy::too_many_arguments)]
fn run_execs_ids(n: usize, execs: &[Vec<PSem>], ids: &[u32], flags: u8, iterations: u32, hs: Option<u64>, st: &mut Stats) -> Result<(), Violation> {
    let mut cmds = vec![ClientCmd::new(with_byte(COM_STMT_PREPARE, format!("id=1 p={}", n).as_bytes()))];
    let mut expected = vec![auth_cb(), Cb::Prepare(format!("id=1 p={}", n))];
    if !ids.is_empty() {
        cmds.push(ClientCmd::new(with_byte(COM_STMT_PREPARE, format!("id=2 p={}", n).as_bytes())));
        expected.push(Cb::Prepare(format!("id=2 p={}", n)));
    }
    let first_exec = expected.len();
    let mut exp_conv: Vec<ConvRes> = Vec::new();
    for (k, e) in execs.iter().enumerate() {
        let sid = ids.get(k).copied().unwrap_or(1);
        assert_eq!(e.len(), n);
        let ps: Vec<ExecParam> = e
            .iter()
            .map(|p| ExecParam {
                ty: p.ty(),
                unsigned: p.unsigned(),
                wire: p.wire(),
                long: false,
            })
            .collect();
        let with_types = k == 0 || !OMIT_TYPES_AFTER_FIRST.with(|o| o.get());
        cmds.push(ClientCmd::new(cmd_execute(sid, flags, iterations, &exec_block(&ps, with_types))));
        expected.push(Cb::Execute {
            id: sid,
            params: e.iter().map(|p| (p.ty(), p.expect_raw())).collect(),
        });
        exp_conv.extend(e.iter().map(|p| p.expect_conv()));
    }
    cmds.push(ping());
    let mut conv = Conv::new(cmds);
    if let Some(k) = hs {
        conv.handshake = handshake_variant(k).0;
    }
    let s = conv.stream();
    let stream = Arc::new(s.bytes);
    let mut sim = sim_for(&stream, vec![]);
    sim.log_ops = false;
    let mut cfg = ConnCfg::new(std_behave());
    let got_conv: Rc<RefCell<Vec<ConvRes>>> = Rc::new(RefCell::new(Vec::new()));
    let gc = got_conv.clone();
    cfg.param_probe = Some(Box::new(move |_i, p| gc.borrow_mut().push(convert(p))));
    let o = run_conn(sim, cfg);
    st.transitions += (execs.len() * n.max(1)) as u64;
    // pinpoint the first parameter that differs
    for (k, (g, e)) in o.log.iter().map(|x| &x.1).zip(expected.iter()).enumerate() {
        if let (Cb::Execute { params: gp, .. }, Cb::Execute { params: ep, .. }) = (g, e) {
            if gp.len() != ep.len() {
                return Err(Violation::new("param-count", format!("execution {} (callback {}): the shim saw {} parameters, the statement declares {}", k - first_exec, k, gp.len(), ep.len())));
            }
            for (i, (a, b)) in gp.iter().zip(ep.iter()).enumerate() {
                if a != b {
                    let key = if a.0 != b.0 { "param-type-differs" } else { "raw-value-differs" };
                    return Err(Violation::new(
                        format!("{}:{:#04x}", key, b.0),
                        format!("execution {} parameter {} of {}: the shim saw {:?}, the client bound {:?}", k - first_exec, i, ep.len(), a, b).chars().take(400).collect::<String>(),
                    ));
                }
            }
        }
    }
    let d = check_exact(&o, &conv, &s.last_seq, &expected).map_err(|mut v| {
        if v.key.starts_with("callback-mismatch") {
            v.key = "raw-value-differs".into();
        }
        v
    })?;
    let _ = d;
    let got = got_conv.borrow();
    if got.len() != exp_conv.len() {
        return Err(Violation::new("param-count", format!("{} parameters converted, {} sent", got.len(), exp_conv.len())));
    }
    for (i, (g, e)) in got.iter().zip(exp_conv.iter()).enumerate() {
        if *e == ConvRes::Skipped {
            continue;
        }
        if g != e {
            let (ei, pi) = (i / n.max(1), i % n.max(1));
            let key = match g {
                ConvRes::Panic(_) => "conversion-panics",
                _ => "conversion-differs",
            };
            return Err(Violation::new(
                format!("{}:{:#04x}", key, execs[ei][pi].ty()),
                format!("execution {} parameter {} ({:?}): conversion yields {:?}, the client encoded {:?}", ei, pi, execs[ei][pi], g, e),
            ));
        }
    }
    Ok(())
}

const STRINGISH: [u8; 14] = [0x00, 0x0f, 0x10, 0xf5, 0xf6, 0xf7, 0xf8, 0xf9, 0xfa, 0xfb, 0xfc, 0xfd, 0xfe, 0xff];

fn int_lattice(bits: u32, unsigned: bool) -> Vec<i128> {
    let (lo, hi) = if unsigned { (0, (1i128 << bits) - 1) } else { (-(1i128 << (bits - 1)), (1i128 << (bits - 1)) - 1) };
    let mut v = vec![lo, lo + 1, hi - 1, hi, 0, 1, -1];
    for k in 0..bits {
        let p = 1i128 << k;
        v.extend([p, p - 1, p + 1, -p, -p - 1, -p + 1]);
    }
    v.retain(|x| *x >= lo && *x <= hi);
    v.sort();
    v.dedup();
    v
}

/// single-parameter statements: each job is one connection with many executions
struct Values {
    jobs: Vec<(String, Vec<PSem>)>,
}

impl Values {
    fn new(quick: bool) -> Self {
        let mut jobs: Vec<(String, Vec<PSem>)> = Vec::new();
        for unsigned in [false, true] {
            // TINY exhaustive
            let (lo, hi) = if unsigned { (0i128, 255) } else { (-128, 127) };
            jobs.push((format!("TINY unsigned={} exhaustive", unsigned), (lo..=hi).map(|v| PSem::Int { ty: 0x01, unsigned, v }).collect()));
            // SHORT / YEAR exhaustive, in chunks of 4096
            for ty in [0x02u8, 0x0d] {
                let (lo, hi) = if unsigned { (0i128, 65535) } else { (-32768, 32767) };
                let all: Vec<i128> = (lo..=hi).collect();
                for (ci, ch) in all.chunks(4096).enumerate() {
                    if quick && ty == 0x0d && ci % 4 != 0 {
                        continue;
                    }
                    jobs.push((format!("type {:#x} unsigned={} exhaustive chunk {}", ty, unsigned, ci), ch.iter().map(|v| PSem::Int { ty, unsigned, v: *v }).collect()));
                }
            }
            for (ty, bits) in [(0x03u8, 32), (0x09, 32), (0x08, 64)] {
                jobs.push((format!("type {:#x} unsigned={} lattice", ty, unsigned), int_lattice(bits, unsigned).into_iter().map(|v| PSem::Int { ty, unsigned, v }).collect()));
            }
        }
        let mut f32s: Vec<f32> = vec![0.0, -0.0, 1.0, 0.1, f32::MAX, f32::MIN, f32::MIN_POSITIVE, 1e-45, 16777217.0, f32::INFINITY, f32::NEG_INFINITY];
        for k in -149..128 {
            f32s.push(2f32.powi(k) * 1.5);
        }
        jobs.push(("FLOAT lattice".into(), f32s.into_iter().map(PSem::F32).collect()));
        let mut f64s: Vec<f64> = vec![0.0, -0.0, 1.0, 0.1, f64::MAX, f64::MIN, f64::MIN_POSITIVE, 5e-324, 9007199254740993.0, f64::INFINITY];
        for k in (-1074..1024).step_by(3) {
            f64s.push(2f64.powi(k) * 1.25);
        }
        jobs.push(("DOUBLE lattice".into(), f64s.into_iter().map(PSem::F64).collect()));
        // byte strings: every length 0..=300 for VAR_STRING, class edges for every string-ish code
        for ty in STRINGISH {
            let lens: Vec<usize> = if ty == 0xfd { (0..=300).collect() } else { vec![0, 1, 250, 251, 252, 255, 256, 300] };
            jobs.push((format!("bytes type {:#x}", ty), lens.into_iter().map(|n| PSem::Bytes(ty, (0..n).map(|i| ((i * 37 + n) % 256) as u8).collect())).collect()));
        }
        for n in [65535usize, 65536, 65537, (1 << 24) - 10, (1 << 24) + 10] {
            if quick && n > 70000 {
                continue;
            }
            jobs.push((format!("bytes of {} bytes", n), vec![PSem::Bytes(0xfc, (0..n).map(|i| (i % 253) as u8).collect())]));
        }
        // every legal length form of the temporal types
        let mut temporal = Vec::new();
        for ty in [0x0au8, 0x0c, 0x07] {
            let lens: &[u8] = &[0, 4, 7, 11];
            for len in lens {
                for (y, mo, d) in [(2020u16, 1u8, 2u8), (1, 1, 1), (9999, 12, 31), (2024, 2, 29)] {
                    for (h, mi, s, us) in [(3u8, 4u8, 5u8, 123456u32), (0, 0, 0, 1), (23, 59, 59, 999999), (12, 0, 0, 500000)] {
                        let (h, mi, s) = if *len >= 7 { (h, mi, s) } else { (0, 0, 0) };
                        let us = if *len >= 11 { us } else { 0 };
                        temporal.push(PSem::Date { ty, len: *len, y, mo, d, h, mi, s, us });
                    }
                }
            }
        }
        for len in [0u8, 8, 12] {
            for (days, h, m, s, us) in [(0u32, 0u8, 0u8, 1u8, 1u32), (0, 23, 59, 59, 999999), (34, 22, 59, 59, 123456), (1, 0, 0, 0, 500000)] {
                for neg in [false, true] {
                    if len == 0 && (neg || days + h as u32 > 0) {
                        continue;
                    }
                    let (days, h, m, s) = if len >= 8 { (days, h, m, s) } else { (0, 0, 0, 0) };
                    temporal.push(PSem::Time { len, neg: neg && len >= 8, days, h, m, s, us: if len >= 12 { us } else { 0 } });
                }
            }
        }
        jobs.push(("every length form of DATE/DATETIME/TIMESTAMP/TIME".into(), temporal));
        // calendar and clock shapes: every month with its first / 28th / last days in five years,
        // every hour, microseconds of every decimal shape
        let usx = super::c06::USX;
        let mut cal = Vec::new();
        let mut k = 0usize;
        for y in [1u16, 1970, 2000, 2024, 9999] {
            for mo in 1..=12u8 {
                for d in [1u8, 28, 29, 30, 31] {
                    if chrono::NaiveDate::from_ymd_opt(y as i32, mo as u32, d as u32).is_none() {
                        continue;
                    }
                    k += 1;
                    cal.push(PSem::Date { ty: 0x0a, len: 4, y, mo, d, h: 0, mi: 0, s: 0, us: 0 });
                    let (h, mi, sec) = ((k % 24) as u8, [0u8, 59, 30, 7][k % 4], [0u8, 59, 15, 1][(k / 4) % 4]);
                    for ty in [0x0cu8, 0x07] {
                        cal.push(PSem::Date { ty, len: 7, y, mo, d, h, mi, s: sec, us: 0 });
                        cal.push(PSem::Date { ty, len: 11, y, mo, d, h, mi, s: sec, us: usx[k % usx.len()] });
                    }
                }
            }
        }
        jobs.push(("calendar shapes: months x first/28th/last days x 5 years, as DATE and DATETIME/TIMESTAMP".into(), cal));
        let mut clk = Vec::new();
        for days in [0u32, 1, 2, 33, 34] {
            for h in 0..24u8 {
                for (i, us) in usx.iter().enumerate() {
                    if (i + h as usize) % 4 != 0 {
                        continue;
                    }
                    clk.push(PSem::Time { len: 12, neg: false, days, h, m: (h * 2 + 1) % 60, s: 59 - h, us: *us });
                }
                clk.push(PSem::Time { len: 8, neg: false, days, h, m: 0, s: 0, us: 0 });
            }
        }
        jobs.push(("clock shapes: every hour x days 0,1,2,33,34 x microseconds of every decimal shape, as TIME".into(), clk));
        // the day count of a TIME value is a 32-bit field: intervals far beyond what a TIME column
        // holds are legal on the wire and must convert exactly (seconds around 2^31, 2^32, 2^33)
        let mut far = Vec::new();
        for days in [35u32, 255, 256, 1000, 24_855, 24_856, 49_710, 49_711, 65_535, 65_536, 99_420, 99_421, 100_000, 1 << 24, 1 << 31, u32::MAX - 1, u32::MAX] {
            for (h, m, sec, us) in [(0u8, 0u8, 0u8, 0u32), (3, 14, 7, 0), (3, 14, 8, 1), (6, 28, 15, 999_999), (6, 28, 16, 0), (23, 59, 59, 123_456)] {
                far.push(PSem::Time { len: if us == 0 { 8 } else { 12 }, neg: false, days, h, m, s: sec, us });
            }
        }
        jobs.push(("intervals of 35 .. 2^32-1 days (the whole range of the day field), six clock times each, as TIME".into(), far));
        Values { jobs }
    }
}

impl Family for Values {
    fn ambient(&self, idx: u64) -> u64 {
        crate::engine::rot(idx)
    }
    fn name(&self) -> String {
        "single-parameter-values".into()
    }
    fn len(&self) -> u64 {
        self.jobs.len() as u64
    }
    fn max_threads(&self) -> Option<usize> {
        Some(8)
    }
    fn run(&self, idx: u64, st: &mut Stats) -> Result<(), Violation> {
        let (_, vals) = &self.jobs[idx as usize];
        st.nontrivial += 1;
        st.evals += vals.len() as u64 - 1;
        st.add("values_bound", vals.len() as u64);
        if vals.iter().any(|v| matches!(v, PSem::Date { len: 11, .. } | PSem::Time { len: 12, .. })) {
            st.bump("microsecond_forms");
        }
        let execs: Vec<Vec<PSem>> = vals.iter().map(|v| vec![v.clone()]).collect();
        run_execs(1, &execs, st)
    }
    fn describe(&self, idx: u64) -> J {
        let (l, v) = &self.jobs[idx as usize];
        json!({"job": l, "executions": v.len(), "first": format!("{:?}", v.first()).chars().take(120).collect::<String>()})
    }
}

fn sample_of(ty: u8, unsigned: bool, salt: usize) -> PSem {
    let salt = salt % 100;
    match ty {
        0x01 | 0x02 | 0x0d | 0x03 | 0x09 | 0x08 => {
            let bits = match ty {
                0x01 => 8,
                0x02 | 0x0d => 16,
                0x03 | 0x09 => 32,
                _ => 64,
            };
            let v = if unsigned { (1i128 << bits) - 1 - salt as i128 } else { -(1i128 << (bits - 1)) + salt as i128 };
            PSem::Int { ty, unsigned, v }
        }
        0x04 => PSem::F32(1.5 + salt as f32),
        0x05 => PSem::F64(-2.25 - salt as f64),
        0x0a => PSem::Date { ty, len: 4, y: 2000 + salt as u16, mo: 2, d: 3, h: 0, mi: 0, s: 0, us: 0 },
        0x0c | 0x07 => PSem::Date { ty, len: 11, y: 2001, mo: 2, d: 3, h: 4, mi: 5, s: 6, us: 7 + salt as u32 },
        0x0b => PSem::Time { len: 12, neg: false, days: 1, h: 2, m: 3, s: 4, us: 5 + salt as u32 },
        0x06 => PSem::Null(0x06),
        t => PSem::Bytes(t, format!("v{}", salt).into_bytes()),
    }
}

const ALL_PARAM_TYPES: [u8; 26] = [0x01, 0x02, 0x0d, 0x03, 0x09, 0x08, 0x04, 0x05, 0x0a, 0x0c, 0x07, 0x0b, 0x06, 0x00, 0x0f, 0x10, 0xf5, 0xf6, 0xf7, 0xf8, 0xf9, 0xfa, 0xfb, 0xfc, 0xfd, 0xfe];

/// every type code x unsigned in three position classes of a 4-parameter statement
struct Positions;
impl Family for Positions {
    fn ambient(&self, idx: u64) -> u64 {
        crate::engine::rot(idx)
    }
    fn name(&self) -> String {
        "type-codes-in-every-position".into()
    }
    fn len(&self) -> u64 {
        (ALL_PARAM_TYPES.len() * 2 * ALL_PARAM_TYPES.len()) as u64
    }
    fn run(&self, idx: u64, st: &mut Stats) -> Result<(), Violation> {
        let d = digits(idx, &[ALL_PARAM_TYPES.len() as u64, 2, ALL_PARAM_TYPES.len() as u64]);
        let ty = ALL_PARAM_TYPES[d[0] as usize];
        let unsigned = d[1] == 1;
        let other = ALL_PARAM_TYPES[d[2] as usize];
        st.nontrivial += 1;
        // [T, other, variable-width, T] : first, after a fixed/other type, after a variable-width value, last
        let e = vec![sample_of(ty, unsigned, 1), sample_of(other, false, 2), PSem::Bytes(0xfd, b"varwidth".to_vec()), sample_of(ty, unsigned, 3)];
        let e2 = vec![sample_of(other, true, 4), sample_of(ty, unsigned, 5), PSem::Null(ty), sample_of(other, false, 6)];
        run_execs(4, &[e, e2], st)
    }
    fn describe(&self, idx: u64) -> J {
        let d = digits(idx, &[ALL_PARAM_TYPES.len() as u64, 2, ALL_PARAM_TYPES.len() as u64]);
        json!({"type_under_test": format!("{:#04x}", ALL_PARAM_TYPES[d[0] as usize]), "unsigned": d[1] == 1, "neighbour_type": format!("{:#04x}", ALL_PARAM_TYPES[d[2] as usize])})
    }
}

/// executions that rely on the types bound earlier: for every (type code, unsigned) the first
/// execution binds the table, the second and third leave it out and send other values of the same
/// type (one- and two-parameter statements, every pair of types for the latter). Each value must
/// be decoded with the persisted type of its position.
struct Reexecutions {
    two: bool,
}
impl Family for Reexecutions {
    fn ambient(&self, idx: u64) -> u64 {
        crate::engine::rot(idx)
    }
    fn name(&self) -> String {
        if self.two { "re-executions-without-a-type-table-two-parameters".into() } else { "re-executions-without-a-type-table-every-type".into() }
    }
    fn len(&self) -> u64 {
        let a = ALL_PARAM_TYPES.len() as u64 * 2;
        if self.two { a * a } else { a }
    }
    fn run(&self, idx: u64, st: &mut Stats) -> Result<(), Violation> {
        let a = ALL_PARAM_TYPES.len() as u64 * 2;
        let t = |x: u64| (ALL_PARAM_TYPES[(x / 2) as usize], x % 2 == 1);
        let table: Vec<(u8, bool)> = if self.two {
            let d = digits(idx, &[a, a]);
            vec![t(d[0]), t(d[1])]
        } else {
            vec![t(idx)]
        };
        st.nontrivial += 1;
        st.bump("reexecutions_without_types");
        let execs: Vec<Vec<PSem>> = (0..3).map(|k| table.iter().enumerate().map(|(i, (ty, u))| sample_of(*ty, *u, 5 * k + i + 1)).collect()).collect();
        OMIT_TYPES_AFTER_FIRST.with(|o| o.set(true));
        let r = run_execs(table.len(), &execs, st);
        OMIT_TYPES_AFTER_FIRST.with(|o| o.set(false));
        r.map_err(|mut v| {
            v.msg = format!("types {:?} bound by the first execution only: {}", table, v.msg);
            v
        })
    }
    fn describe(&self, idx: u64) -> J {
        json!({"index": idx, "two_parameters": self.two})
    }
}

/// consecutive executions of ONE statement that each bind their own type table: every ordered
/// pair of (type code, unsigned) tables for a one-parameter statement, every pair of tables over
/// the integer codes for a two-parameter statement, every triple over the integer codes — so a
/// later table that differs from the earlier one only in a flag, only in one position, or not at
/// all is always among them. Values have their top bit set, so a stale signedness shows.
struct Rebinds {
    mode: u8,
}
const INT_TYPES: [u8; 6] = [0x01, 0x02, 0x0d, 0x03, 0x09, 0x08];
impl Rebinds {
    fn tables(&self, idx: u64) -> Vec<Vec<(u8, bool)>> {
        match self.mode {
            0 => {
                let n = ALL_PARAM_TYPES.len() as u64 * 2;
                let d = digits(idx, &[n, n]);
                d.iter().map(|x| vec![(ALL_PARAM_TYPES[(*x / 2) as usize], x % 2 == 1)]).collect()
            }
            1 => {
                let n = INT_TYPES.len() as u64 * 2;
                let d = digits(idx, &[n, n, n, n]);
                vec![
                    vec![(INT_TYPES[(d[0] / 2) as usize], d[0] % 2 == 1), (INT_TYPES[(d[1] / 2) as usize], d[1] % 2 == 1)],
                    vec![(INT_TYPES[(d[2] / 2) as usize], d[2] % 2 == 1), (INT_TYPES[(d[3] / 2) as usize], d[3] % 2 == 1)],
                ]
            }
            2 => {
                let n = INT_TYPES.len() as u64 * 2;
                let d = digits(idx, &[n, n, n]);
                d.iter().map(|x| vec![(INT_TYPES[(*x / 2) as usize], x % 2 == 1)]).collect()
            }
            4 => {
                // statement 1 binds T1, statement 2 binds T2, statement 1 re-binds T2, statement 2
                // re-binds T1: each must be decoded with the table its own execution carries
                let n = ALL_PARAM_TYPES.len() as u64 * 2;
                let d = digits(idx, &[n, n]);
                let t = |x: u64| vec![(ALL_PARAM_TYPES[(x / 2) as usize], x % 2 == 1)];
                vec![t(d[0]), t(d[1]), t(d[1]), t(d[0])]
            }
            _ => {
                let n = ALL_PARAM_TYPES.len() as u64 * 2;
                let d = digits(idx, &[n, n, n, n]);
                let t = |x: u64| (ALL_PARAM_TYPES[(x / 2) as usize], x % 2 == 1);
                vec![vec![t(d[0]), t(d[1])], vec![t(d[2]), t(d[3])]]
            }
        }
    }
}
impl Family for Rebinds {
    fn ambient(&self, idx: u64) -> u64 {
        crate::engine::rot(idx)
    }
    fn name(&self) -> String {
        ["rebinds-one-parameter-all-type-pairs", "rebinds-two-parameters-integer-tables", "rebinds-one-parameter-integer-triples", "rebinds-two-parameters-all-type-tables", "rebinds-alternating-between-two-statements"][self.mode as usize].into()
    }
    fn len(&self) -> u64 {
        let a = ALL_PARAM_TYPES.len() as u64 * 2;
        let i = INT_TYPES.len() as u64 * 2;
        match self.mode {
            0 | 4 => a * a,
            1 => i * i * i * i,
            2 => i * i * i,
            _ => a * a * a * a,
        }
    }
    fn run(&self, idx: u64, st: &mut Stats) -> Result<(), Violation> {
        let t = self.tables(idx);
        st.nontrivial += 1;
        st.bump("rebinds");
        if t.windows(2).any(|w| w[0].iter().zip(w[1].iter()).all(|(a, b)| a.0 == b.0) && w[0] != w[1]) {
            st.bump("rebinds_changing_only_flags");
        }
        let execs: Vec<Vec<PSem>> = t.iter().enumerate().map(|(k, tab)| tab.iter().enumerate().map(|(i, (ty, u))| sample_of(*ty, *u, 3 * k + i)).collect()).collect();
        if self.mode == 4 {
            return run_execs_ids(1, &execs, &[1, 2, 1, 2], 0, 1, None, st);
        }
        run_execs(t[0].len(), &execs, st)
    }
    fn describe(&self, idx: u64) -> J {
        json!({"type_tables_bound_by_consecutive_executions": self.tables(idx).iter().map(|t| t.iter().map(|(ty, u)| format!("{:#04x}{}", ty, if *u { " unsigned" } else { "" })).collect::<Vec<_>>()).collect::<Vec<_>>()})
    }
}

/// the flags byte and iteration count of COM_STMT_EXECUTE are not part of the parameter block:
/// every flags value (cursor types, bits a later protocol revision assigns a meaning to only
/// after negotiation) x iteration counts x handshake variants must leave the parameters alone
struct ExecHeader;
impl Family for ExecHeader {
    fn name(&self) -> String {
        "execute-flags-and-iteration-count".into()
    }
    fn len(&self) -> u64 {
        256 * 4 * N_HANDSHAKE_VARIANTS
    }
    fn run(&self, idx: u64, st: &mut Stats) -> Result<(), Violation> {
        let d = digits(idx, &[256, 4, N_HANDSHAKE_VARIANTS]);
        let flags = d[0] as u8;
        let iter = [0u32, 1, 2, u32::MAX][d[1] as usize];
        st.nontrivial += 1;
        st.bump("execute_header_cases");
        let e1 = vec![PSem::Int { ty: 0x03, unsigned: false, v: 512 }, PSem::Null(0xfd)];
        let e2 = vec![PSem::Int { ty: 0x08, unsigned: true, v: 3 }, PSem::Bytes(0xfd, b"second".to_vec())];
        run_execs_with(2, &[e1, e2], flags, iter, Some(d[2]), st).map_err(|mut v| {
            v.msg = format!("flags byte {:#04x}, iteration count {}, {}: {}", flags, iter, handshake_variant(d[2]).1, v.msg);
            v
        })
    }
    fn describe(&self, idx: u64) -> J {
        let d = digits(idx, &[256, 4, N_HANDSHAKE_VARIANTS]);
        let it = [0u32, 1, 2, u32::MAX][d[1] as usize];
        json!({"flags_byte": d[0], "iteration_count": it, "handshake": handshake_variant(d[2]).1})
    }
}

/// parameter counts and NULL bitmaps
struct Bitmaps {
    max_all: usize,
    big: Vec<usize>,
}
impl Bitmaps {
    fn items(&self) -> Vec<(usize, Option<u64>)> {
        let mut v = Vec::new();
        for n in 0..=self.max_all {
            for m in 0..(1u64 << n) {
                v.push((n, Some(m)));
            }
        }
        for n in (self.max_all + 1)..=17 {
            v.push((n, None));
        }
        for n in &self.big {
            v.push((*n, None));
        }
        v
    }
}
impl Family for Bitmaps {
    fn ambient(&self, idx: u64) -> u64 {
        crate::engine::rot(idx)
    }
    fn name(&self) -> String {
        "parameter-counts-and-null-bitmaps".into()
    }
    fn len(&self) -> u64 {
        self.items().len() as u64
    }
    fn run(&self, idx: u64, st: &mut Stats) -> Result<(), Violation> {
        let (n, mask) = self.items()[idx as usize];
        st.nontrivial += 1;
        if n > 8 {
            st.bump("second_bitmap_byte");
        }
        let mk = |nulls: &dyn Fn(usize) -> bool, salt: usize| -> Vec<PSem> {
            (0..n)
                .map(|i| {
                    let ty = ALL_PARAM_TYPES[(i + salt) % ALL_PARAM_TYPES.len()];
                    if nulls(i) {
                        PSem::Null(ty)
                    } else {
                        sample_of(ty, i % 3 == 0, i + salt)
                    }
                })
                .collect()
        };
        let execs: Vec<Vec<PSem>> = match mask {
            Some(m) => vec![mk(&|i| m & (1 << i) != 0, 0), mk(&|i| m & (1 << i) == 0, 1)],
            None => {
                let mut v = vec![mk(&|_| false, 0), mk(&|_| true, 1), mk(&|i| i % 2 == 0, 2), mk(&|i| i % 2 == 1, 3)];
                for e in [0usize, 7, 8, 9, 15, 16, 17, 63, 64, 65, n.saturating_sub(1)] {
                    if e < n {
                        v.push(mk(&|i| i == e, 4 + e));
                        v.push(mk(&|i| i != e, 5 + e));
                        v.push(mk(&|i| i < e, 6 + e));
                    }
                }
                v
            }
        };
        st.evals += execs.len() as u64 - 1;
        run_execs(n, &execs, st)
    }
    fn describe(&self, idx: u64) -> J {
        let (n, mask) = self.items()[idx as usize];
        json!({"parameters": n, "null_mask": mask.map(|m| format!("{:#b}", m))})
    }
}

/// inline values of executions that follow an execution fed by long data
const LONG_SIZES: [usize; 8] = [8, 0, 300, 1500, 4096, 10_000, 70_000, 1_200_000];
struct AfterLongData;
impl Family for AfterLongData {
    fn ambient(&self, idx: u64) -> u64 {
        crate::engine::rot(idx)
    }
    fn name(&self) -> String {
        "inline-after-long-data".into()
    }
    fn len(&self) -> u64 {
        4 * LONG_SIZES.len() as u64
    }
    fn run(&self, idx: u64, st: &mut Stats) -> Result<(), Violation> {
        st.nontrivial += 1;
        st.bump("after_long_data");
        let size = LONG_SIZES[(idx / 4) as usize];
        let idx = idx % 4;
        let streamed: Vec<u8> = (0..size).map(|i| b's' + (i % 5) as u8).collect();
        let which = (idx % 2) as u16; // the parameter that is streamed first
        let bind_again = idx / 2 == 1;
        let p = |wire: Option<Vec<u8>>, long: bool, ty: u8| ExecParam { ty, unsigned: false, wire, long };
        let first = if which == 0 { vec![p(None, true, 0xfc), p(Some(vec![9, 0, 0, 0]), false, 0x03)] } else { vec![p(Some(vec![3, b'a', b'b', b'c']), false, 0xfc), p(None, true, 0x03)] };
        let second = vec![p(Some(vec![3, b'x', b'y', b'z']), false, 0xfc), p(Some(vec![7, 0, 0, 0]), false, 0x03)];
        let payloads = vec![
            with_byte(COM_STMT_PREPARE, b"id=1 p=2"),
            cmd_long(1, which, &streamed),
            cmd_execute(1, 0, 1, &exec_block(&first, true)),
            cmd_execute(1, 0, 1, &exec_block(&second, bind_again)),
            cmd_execute(1, 0, 1, &exec_block(&second, false)),
        ];
        super::registry::run_payloads(&payloads, &[], st).map(|_| ()).map_err(|mut v| {
            v.key = format!("after-long-data:{}", v.key);
            v
        })
    }
    fn describe(&self, idx: u64) -> J {
        json!({"streamed_bytes": LONG_SIZES[(idx / 4) as usize], "streamed_parameter": idx % 2, "second_execution_rebinds": (idx % 4) / 2 == 1, "history": "prepare(2), long data, execute (streamed), execute (all inline), execute (all inline, reuse)"})
    }
}

/// inline values of the first executions of a statement that was prepared after another
/// statement's long data was abandoned (CLOSE with data pending, or a re-PREPARE of the same id):
/// nothing of the abandoned data may be delivered, and the inline bytes must be consumed as such
struct AfterAbandonedLongData;
impl Family for AfterAbandonedLongData {
    fn ambient(&self, idx: u64) -> u64 {
        crate::engine::rot(idx)
    }
    fn name(&self) -> String {
        "inline-after-abandoned-long-data".into()
    }
    fn len(&self) -> u64 {
        3 * 2 * LONG_SIZES.len() as u64
    }
    fn run(&self, idx: u64, st: &mut Stats) -> Result<(), Violation> {
        st.nontrivial += 1;
        st.bump("after_abandoned_long_data");
        let d = digits(idx, &[3, 2, LONG_SIZES.len() as u64]);
        let size = LONG_SIZES[d[2] as usize];
        let which = d[1] as u16;
        let streamed: Vec<u8> = (0..size).map(|i| b'S' + (i % 7) as u8).collect();
        let p = |wire: Option<Vec<u8>>, ty: u8| ExecParam { ty, unsigned: false, wire, long: false };
        let inline = vec![p(Some(vec![3, b'x', b'y', b'z']), 0xfc), p(Some(vec![7, 0, 0, 0]), 0x03)];
        let mut payloads = vec![with_byte(COM_STMT_PREPARE, b"id=1 p=2"), cmd_long(1, which, &streamed)];
        // 0: CLOSE, PREPARE the same id; 1: CLOSE, PREPARE another id; 2: re-PREPARE without CLOSE
        let id = match d[0] {
            0 => {
                payloads.push(cmd_close(1));
                payloads.push(with_byte(COM_STMT_PREPARE, b"id=1 p=2"));
                1
            }
            1 => {
                payloads.push(cmd_close(1));
                payloads.push(with_byte(COM_STMT_PREPARE, b"id=2 p=2"));
                2
            }
            _ => {
                payloads.push(with_byte(COM_STMT_PREPARE, b"id=1 p=2"));
                1
            }
        };
        payloads.push(cmd_execute(id, 0, 1, &exec_block(&inline, true)));
        payloads.push(cmd_execute(id, 0, 1, &exec_block(&inline, false)));
        super::registry::run_payloads(&payloads, &[], st).map(|_| ()).map_err(|mut v| {
            v.key = format!("after-abandoned-long-data:{}", v.key);
            v
        })
    }
    fn describe(&self, idx: u64) -> J {
        let d = digits(idx, &[3, 2, LONG_SIZES.len() as u64]);
        let then = ["CLOSE, PREPARE the same id", "CLOSE, PREPARE another id", "re-PREPARE the same id"][d[0] as usize];
        let bytes = LONG_SIZES[d[2] as usize];
        json!({"abandoned_bytes": bytes, "abandoned_parameter": d[1], "then": then, "history": "prepare(2), long data, <then>, execute (all inline, bind), execute (all inline, reuse)"})
    }
}

/// byte-string parameters whose length is sent with a legal but not the shortest prefix (0xfc + 2
/// bytes for a length below 251, 0xfd + 3, 0xfe + 8): the value and every parameter behind it must
/// arrive exactly as with the shortest form
struct LengthForms;
const FORM_LENS: [usize; 9] = [0, 1, 2, 250, 251, 252, 300, 65_535, 65_536];
const STRING_TYPES: [u8; 6] = [0xfd, 0xfc, 0xfe, 0x0f, 0xf6, 0xfb];
impl Family for LengthForms {
    fn name(&self) -> String {
        "byte-strings-with-every-legal-length-prefix-form".into()
    }
    fn len(&self) -> u64 {
        (FORM_LENS.len() * 3 * STRING_TYPES.len() * 2) as u64
    }
    fn run(&self, idx: u64, st: &mut Stats) -> Result<(), Violation> {
        let d = digits(idx, &[FORM_LENS.len() as u64, 3, STRING_TYPES.len() as u64, 2]);
        let n = FORM_LENS[d[0] as usize];
        let form = [0xfcu8, 0xfd, 0xfe][d[1] as usize];
        let ty = STRING_TYPES[d[2] as usize];
        st.nontrivial += 1;
        st.bump("length_prefix_forms");
        let data: Vec<u8> = (0..n).map(|i| ((i * 29 + n) % 256) as u8).collect();
        // the string first or in the middle, integers around it so that a shifted offset shows
        let e = if d[3] == 0 {
            vec![PSem::Bytes(ty, data), PSem::Int { ty: 0x03, unsigned: false, v: -2 }, PSem::Bytes(0xfd, b"tail".to_vec())]
        } else {
            vec![PSem::Int { ty: 0x08, unsigned: true, v: u64::MAX as i128 - 1 }, PSem::Bytes(ty, data), PSem::Int { ty: 0x01, unsigned: false, v: -3 }]
        };
        LENENC_FORM.with(|f| f.set(Some(form)));
        let r = run_execs(3, &[e.clone(), e], st);
        LENENC_FORM.with(|f| f.set(None));
        r.map_err(|mut v| {
            v.msg = format!("string of {} bytes (type {:#04x}) sent with length prefix form {:#04x}: {}", n, ty, form, v.msg);
            v
        })
    }
    fn describe(&self, idx: u64) -> J {
        let d = digits(idx, &[FORM_LENS.len() as u64, 3, STRING_TYPES.len() as u64, 2]);
        let form = [0xfcu8, 0xfd, 0xfe][d[1] as usize];
        json!({"length": FORM_LENS[d[0] as usize], "prefix_form": form, "type": STRING_TYPES[d[2] as usize], "position": d[3]})
    }
}

/// long data for two parameters of one statement in every arrival order of up to five chunks
/// (a, b, ab, ba, aba, abab, baab, ...): each parameter's value is the concatenation of its own
/// chunks in arrival order, whatever was interleaved
struct InterleavedChunks;
impl InterleavedChunks {
    fn order(idx: u64) -> Vec<u16> {
        // lengths 1..=5, each position parameter 0 or 1
        let mut i = idx;
        for n in 1..=5u32 {
            let c = 1u64 << n;
            if i < c {
                return (0..n).map(|k| ((i >> k) & 1) as u16).collect();
            }
            i -= c;
        }
        unreachable!()
    }
}
impl Family for InterleavedChunks {
    fn ambient(&self, idx: u64) -> u64 {
        crate::engine::rot(idx)
    }
    fn name(&self) -> String {
        "long-data-chunks-for-two-parameters-in-every-order".into()
    }
    fn len(&self) -> u64 {
        2 + 4 + 8 + 16 + 32
    }
    fn run(&self, idx: u64, st: &mut Stats) -> Result<(), Violation> {
        let order = Self::order(idx);
        st.nontrivial += 1;
        st.bump("interleaved_chunks");
        let mut payloads = vec![with_byte(COM_STMT_PREPARE, b"id=1 p=3")];
        for (k, p) in order.iter().enumerate() {
            payloads.push(cmd_long(1, *p, format!("<{}:{}>", p, k).as_bytes()));
        }
        let has = |p: u16| order.contains(&p);
        let prm = |p: u16, inline: &[u8]| ExecParam { ty: 0xfc, unsigned: false, wire: if has(p) { None } else { Some({ let mut v = Vec::new(); put_lenenc_str(&mut v, inline); v }) }, long: has(p) };
        let block = vec![prm(0, b"inline0"), prm(1, b"inline1"), ExecParam { ty: 0x03, unsigned: false, wire: Some(vec![9, 0, 0, 0]), long: false }];
        payloads.push(cmd_execute(1, 0, 1, &exec_block(&block, true)));
        // and once more with everything inline: nothing of the chunks may be left
        let inline = vec![ExecParam { ty: 0xfc, unsigned: false, wire: Some(vec![1, b'x']), long: false }, ExecParam { ty: 0xfc, unsigned: false, wire: Some(vec![1, b'y']), long: false }, ExecParam { ty: 0x03, unsigned: false, wire: Some(vec![8, 0, 0, 0]), long: false }];
        payloads.push(cmd_execute(1, 0, 1, &exec_block(&inline, false)));
        super::registry::run_payloads(&payloads, &[], st).map(|_| ()).map_err(|mut v| {
            v.key = format!("interleaved-chunks:{}", v.key);
            v.msg = format!("chunks for parameters {:?} in this order: {}", order, v.msg);
            v
        })
    }
    fn describe(&self, idx: u64) -> J {
        json!({"chunk_order_by_parameter": Self::order(idx)})
    }
}

pub fn build(quick: bool) -> Check {
    let mut families: Vec<Box<dyn Family>> = vec![
        Box::new(Values::new(quick)),
        Box::new(Positions),
        Box::new(Rebinds { mode: 0 }),
        Box::new(Rebinds { mode: 1 }),
        Box::new(Rebinds { mode: 2 }),
        Box::new(Rebinds { mode: 4 }),
        Box::new(Reexecutions { two: false }),
        Box::new(Reexecutions { two: true }),
        Box::new(Bitmaps {
            max_all: if quick { 8 } else { 12 },
            big: if quick { vec![63, 64, 65, 255, 256, 300, 65529, 65535] } else { vec![63, 64, 65, 255, 256, 300, 4096, 32767, 32768, 65527, 65528, 65529, 65530, 65534, 65535] },
        }),
        Box::new(AfterLongData),
        Box::new(AfterAbandonedLongData),
        Box::new(LengthForms),
        Box::new(InterleavedChunks),
        Box::new(ExecHeader),
    ];
    if !quick {
        families.push(Box::new(Rebinds { mode: 3 }));
    }
    Check {
        id: "C08",
        level: "model_checking",
        rule: "COM_STMT_EXECUTE parameter blocks built from semantic values by the independent encoder and run through the real run_on; the shim records (type, raw inner value) and applies the documented Into<T> for the corresponding Rust type under catch_unwind. Domains: TINY, SHORT, YEAR exhaustive (signed and unsigned); LONG/INT24/LONGLONG over every 2^k, 2^k+-1 and the bounds; FLOAT/DOUBLE lattices incl. subnormals and infinities; byte strings of every length 0..300 and the length-class edges for all 14 string-like type codes, 65535..65537 (and around 2^24 in thorough), and lengths 0..65536 sent with every legal longer prefix form (0xfc, 0xfd, 0xfe) for six string-like codes in two positions; every legal length form of DATE/DATETIME/TIMESTAMP (0,4,7,11; DATE with a time part raw only) and TIME (0,8,12) over boundary calendar values, every month with its first/28th/last days in five years, every hour x five day counts, microseconds of every decimal shape; intervals of 35 .. 2^32-1 days (seconds around 2^31, 2^32, 2^33 and the end of the day field); negative TIME raw only; all 26 type codes (MYSQL_TYPE_NULL among them) x unsigned in four position classes next to every other type; consecutive executions of one statement binding every ordered pair of (type, unsigned) tables (one parameter: all 52^2, and all 52^2 with the executions alternating between two statements of the same shape - 1:T1, 2:T2, 1:T2, 2:T1; two parameters: all 12^4 over the integer codes, thorough: all 52^4 over every code; triples 12^3), values with the top bit set; parameter counts 0..17, 63, 64, 65, 255, 256, 300, 65529, 65535 (thorough: more around 2^15 and 2^16) with all 2^n NULL bitmaps for n <= 12 (8 in quick) and structured ones above; long-data chunks for two parameters in every arrival order of up to five chunks; inline executions that follow an execution fed by 0..1.2 MB of long data, and the first inline executions of a statement prepared after 0..1.2 MB of another statement's long data was abandoned (CLOSE or re-PREPARE, same or other id); every value of the flags byte x iteration counts {0,1,2,2^32-1} x 5 handshake variants (among them one that mentions every capability the server did not offer). Oracle: exactly n parameters, type = bound code, raw value = encoded value, conversion = encoded value (zero dates and negative TIME have no chrono/Duration form and are checked raw).".into(),
        assumptions: vec!["wider integer, float and string domains are covered at lattices".into()],
        bounds: json!({"all_bitmaps_up_to_params": if quick {8} else {12}}),
        exhaustive: true,
        caps_hit: vec![],
        families,
        required: vec!["execute_header_cases", "rebinds_changing_only_flags", "values_bound", "microsecond_forms", "second_bitmap_byte", "after_long_data", "after_abandoned_long_data", "length_prefix_forms", "interleaved_chunks"],
    }
}
