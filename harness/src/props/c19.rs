//! C19 — connection end and transport faults: for each conversation, every end-of-stream
//! point, every one-off and persistent error at every transport operation, every zero-length
//! write.

use super::common::*;
use crate::conv::*;
use crate::engine::*;
use crate::refwire::*;
use crate::shim::*;
use crate::sim::*;
use msql_srv::{ColumnFlags, ColumnType, ErrorKind};
use serde_json::{json, Value as J};
use std::io;
use std::sync::Arc;

#[derive(Clone)]
struct ConvSpec {
    label: String,
    cmds: Vec<ClientCmd>,
    /// writer programs for the query/execute callbacks, in order
    progs: Vec<Arc<Vec<WOp>>>,
    /// which shim-bound callback (0-based among query/prepare/execute/init) fails with a marker
    fail_at: Option<usize>,
    auth_reject: bool,
    uniform_read: usize,
    write_cap: usize,
    /// positions in the client byte stream that no read may cross
    cuts: Vec<usize>,
    /// the client waits for every reply before it sends the next command
    lockstep: bool,
    /// multi-megabyte conversation: end-of-stream only around packet headers and message ends,
    /// one error kind
    sparse: bool,
}

const KINDS: [io::ErrorKind; 4] = [
    io::ErrorKind::Other,
    io::ErrorKind::BrokenPipe,
    io::ErrorKind::WouldBlock,
    io::ErrorKind::ConnectionReset,
];

fn behave_for(spec: &ConvSpec) -> Box<dyn FnMut(usize, &Cb) -> Behavior> {
    let progs = spec.progs.clone();
    let fail_at = spec.fail_at;
    let mut nprog = 0usize;
    let mut ncb = 0usize;
    let done = Arc::new(vec![WOp::Completed(0, 0)]);
    Box::new(move |_, cb| {
        let is_bound = matches!(cb, Cb::Query(_) | Cb::Prepare(_) | Cb::Execute { .. } | Cb::Init(_));
        if is_bound {
            let me = ncb;
            ncb += 1;
            if fail_at == Some(me) {
                return Behavior::Fail(4242);
            }
        }
        match cb {
            Cb::Query(_) | Cb::Execute { .. } => {
                let p = progs.get(nprog).cloned().unwrap_or_else(|| done.clone());
                nprog += 1;
                Behavior::Prog(p)
            }
            Cb::Prepare(t) => {
                let (id, p, c, _) = parse_prep(t);
                Behavior::PrepReply {
                    id,
                    params: param_cols(p),
                    cols: param_cols(c),
                }
            }
            Cb::Init(_) => Behavior::InitOk,
            _ => Behavior::Silent,
        }
    })
}

fn run_spec(spec: &ConvSpec, stream: &Arc<Vec<u8>>, fault: Option<Fault>) -> Outcome {
    let mut sim = sim_for(stream, spec.cuts.iter().copied().filter(|c| *c < stream.len()).collect());
    sim.uniform_read = spec.uniform_read;
    sim.write_cap = spec.write_cap;
    sim.fault = fault;
    sim.log_ops = true;
    if spec.lockstep {
        // the client sends nothing before the greeting and waits for every owed reply
        let conv = Conv::new(spec.cmds.clone());
        let ends = conv.stream().ends;
        let mut gates = vec![Gate { pos: 0, need: 1 }];
        let mut need = 2;
        gates.push(Gate { pos: ends[0], need });
        for (i, c) in conv.cmds.iter().enumerate() {
            if c.resp != RespKind::None {
                need += 1;
            }
            if ends[i + 1] < stream.len() {
                gates.push(Gate { pos: ends[i + 1], need });
            }
        }
        gates.retain(|g| g.pos < stream.len() || g.pos == 0);
        sim.gates = gates;
        sim.gate_fn = Some(Box::new(move |flushed| complete_replies(flushed, &conv)));
    }
    let mut cfg = ConnCfg::new(behave_for(spec));
    if spec.auth_reject {
        cfg.auth_reject = Some(999);
    }
    run_conn(sim, cfg)
}

struct FaultFamily {
    spec: ConvSpec,
    conv: Conv,
    stream: Arc<Vec<u8>>,
    ends: Vec<usize>,
    base_ops: Vec<OpKind>,
    base_res: ConnResult,
    base_cbs: usize,
    write_ops: Vec<usize>,
    eof_points: Vec<usize>,
    per_op: u64,
    /// fault-free callbacks and output, for judging a transient `Interrupted`
    base_log: Vec<Cb>,
    base_out: Vec<u8>,
}

#[derive(Debug)]
enum Spec {
    Eof(usize),
    Err { at: usize, kind: io::ErrorKind, persistent: bool },
    ZeroWrite(usize),
    /// `ErrorKind::Interrupted` once: the one error kind a caller may legitimately retry
    Interrupted(usize),
}

impl FaultFamily {
    fn new(spec: ConvSpec) -> Self {
        let conv = Conv::new(spec.cmds.clone());
        let s = conv.stream();
        let stream = Arc::new(s.bytes);
        let o = run_spec(&spec, &stream, None);
        let base_ops: Vec<OpKind> = o.sim.ops.iter().map(|x| x.kind).collect();
        let write_ops = base_ops.iter().enumerate().filter(|(_, k)| **k == OpKind::Write).map(|(i, _)| i).collect();
        let eof_points: Vec<usize> = if spec.sparse {
            let mut v: Vec<usize> = Vec::new();
            for h in s.headers.iter().chain(s.ends.iter()) {
                for d in -6i64..=6 {
                    let p = *h as i64 + d;
                    if p >= 0 && p as usize <= stream.len() {
                        v.push(p as usize);
                    }
                }
            }
            v.sort();
            v.dedup();
            v
        } else {
            (0..=stream.len()).collect()
        };
        let per_op = if spec.sparse { 2 } else { 8 };
        FaultFamily {
            base_log: o.log.iter().map(|x| x.1.clone()).collect(),
            base_out: if spec.sparse { Vec::new() } else { o.sim.out.clone() },
            eof_points,
            per_op,
            spec,
            conv,
            stream,
            ends: s.ends,
            base_ops,
            base_res: o.res,
            base_cbs: o.log.len(),
            write_ops,
        }
    }
    fn spec_of(&self, idx: u64) -> Spec {
        let m = self.eof_points.len() as u64;
        if idx < m {
            return Spec::Eof(self.eof_points[idx as usize]);
        }
        let r = idx - m;
        let n = self.base_ops.len() as u64;
        if r < n * self.per_op {
            let at = (r / self.per_op) as usize;
            let kind = KINDS[((r % self.per_op) / 2) as usize];
            return Spec::Err {
                at,
                kind,
                persistent: r % 2 == 1,
            };
        }
        let r2 = r - n * self.per_op;
        if (r2 as usize) < self.write_ops.len() {
            return Spec::ZeroWrite(self.write_ops[r2 as usize]);
        }
        Spec::Interrupted(r2 as usize - self.write_ops.len())
    }
    /// what must run_on return when the stream ends after k bytes: Ok(true)=Ok, Ok(false)=Err
    /// (any), Err(m)=the marker m; plus the number of callbacks that must have run
    fn expect_eof(&self, k: usize) -> (Result<bool, u64>, Option<usize>) {
        if k < self.ends[0] {
            return (Ok(false), Some(0));
        }
        if self.spec.auth_reject {
            return (Err(999), Some(1));
        }
        let mut cbs = 1usize; // auth
        let mut bound = 0usize;
        let mut reg = super::model::Registry::default();
        for (i, c) in self.conv.cmds.iter().enumerate() {
            let start = self.ends[i];
            let end = self.ends[i + 1];
            if k < end {
                return (Ok(k == start), Some(cbs));
            }
            match reg.route(&c.payload) {
                super::model::Routed::Quit => return (Ok(true), Some(cbs)),
                super::model::Routed::Cb(Cb::Close(_)) => cbs += 1,
                super::model::Routed::Cb(_) => {
                    cbs += 1;
                    if self.spec.fail_at == Some(bound) {
                        return (Err(4242), Some(cbs));
                    }
                    bound += 1;
                }
                super::model::Routed::NoCb => {}
                _ => return (Ok(false), Some(cbs)),
            }
        }
        (Ok(true), Some(cbs))
    }
}

impl Family for FaultFamily {
    fn name(&self) -> String {
        // "faults:<mode> [<conversation>]" so that the evidence can list one line per mode
        let l = &self.spec.label;
        match (l.find('('), l.find(')')) {
            (Some(a), Some(b)) if a < b => {
                let mode = &l[a + 1..b];
                let rest = format!("{}{}", &l[..a].trim_end(), &l[b + 1..]);
                let (rest, rb) = match rest.find(" [read boundary") {
                    Some(i) => (rest[..i].to_string(), ", one read boundary"),
                    None => (rest, ""),
                };
                let at = l.find("[read boundary at ").map(|i| l[i + 18..].trim_end_matches(']').to_string());
                format!("faults:{}{} [{}{}]", mode, rb, rest, at.map(|x| format!(" @{}", x)).unwrap_or_default())
            }
            _ => format!("faults:large requests [{}]", l),
        }
    }
    fn len(&self) -> u64 {
        self.eof_points.len() as u64 + self.base_ops.len() as u64 * self.per_op + self.write_ops.len() as u64 + if self.spec.sparse { 0 } else { self.base_ops.len() as u64 }
    }
    fn run(&self, idx: u64, st: &mut Stats) -> Result<(), Violation> {
        let sp = self.spec_of(idx);
        st.transitions += self.base_ops.len() as u64;
        match sp {
            Spec::Eof(k) => {
                let cut = Arc::new(self.stream[..k].to_vec());
                let o = run_spec(&self.spec, &cut, None);
                if let ConnResult::Panic(l, m) = &o.res {
                    return Err(Violation::new(panic_key(l, m), format!("end of stream after {} bytes: run_on panicked at {}: {}", k, l, m)));
                }
                let (want, cbs) = self.expect_eof(k);
                let at_boundary = self.ends.contains(&k);
                if !at_boundary {
                    st.nontrivial += 1;
                    st.bump("eof_inside_a_message");
                } else {
                    st.bump("eof_at_a_boundary");
                }
                let ok = match (&want, &o.res) {
                    (Ok(true), ConnResult::Ok) => true,
                    (Ok(false), r) => r.is_err(),
                    (Err(m), ConnResult::ErrMarker(g)) => m == g,
                    _ => false,
                };
                if !ok {
                    let key = match (&want, &o.res) {
                        (Ok(false), ConnResult::Ok) => "eof-inside-message-masked",
                        (Ok(true), _) => "clean-close-reported-as-error",
                        (Err(_), _) => "shim-error-not-returned",
                        _ => "eof-wrong-result",
                    };
                    return Err(Violation::new(
                        key,
                        format!("stream of {} bytes ends after {} bytes (message ends {:?}): run_on returned {}, expected {:?}", self.stream.len(), k, self.ends, o.res.short(), want),
                    ));
                }
                // whatever was received completely was routed exactly as in the undisturbed run
                if let Some((i, (_, cb))) = o.log.iter().enumerate().find(|(i, (_, cb))| self.base_log.get(*i) != Some(cb)) {
                    return Err(Violation::new("eof-callbacks-differ", format!("stream ends after {} bytes: callback {} is {}, the undisturbed run made {}", k, i, cb_short(cb), self.base_log.get(i).map(cb_short).unwrap_or_else(|| "none".into()))));
                }
                if let Some(c) = cbs {
                    if o.log.len() != c {
                        return Err(Violation::new(
                            "eof-callback-count",
                            format!("stream ends after {} bytes: {} callbacks ran, {} commands were completely received", k, o.log.len(), c),
                        ));
                    }
                }
                Ok(())
            }
            Spec::Err { at, kind, persistent } => {
                st.nontrivial += 1;
                match self.base_ops[at] {
                    OpKind::Read => st.bump("read_faults"),
                    OpKind::Write => st.bump("write_faults"),
                    OpKind::Flush => st.bump("flush_faults"),
                }
                let o = run_spec(
                    &self.spec,
                    &self.stream,
                    Some(Fault {
                        at_op: at,
                        kind: FaultKind::Error(kind),
                        persistent,
                    }),
                );
                self.judge_fault(&o, at, &format!("{:?} {} at op {} ({:?})", kind, if persistent { "from" } else { "once" }, at, self.base_ops[at]))
            }
            Spec::Interrupted(at) => {
                st.nontrivial += 1;
                st.bump("interrupted_once");
                let o = run_spec(&self.spec, &self.stream, Some(Fault { at_op: at, kind: FaultKind::Error(io::ErrorKind::Interrupted), persistent: false }));
                let what = format!("Interrupted once at op {} ({:?})", at, self.base_ops[at]);
                if let ConnResult::Panic(l, m) = &o.res {
                    return Err(Violation::new(panic_key(l, m), format!("{}: run_on panicked at {}: {}", what, l, m)));
                }
                // either the operation is retried and nothing at all changes for client and shim ...
                let log: Vec<Cb> = o.log.iter().map(|x| x.1.clone()).collect();
                if o.res == self.base_res && log == self.base_log && after_greeting(&o.sim.out) == after_greeting(&self.base_out) {
                    st.bump("interrupted_retried_transparently");
                    return Ok(());
                }
                // ... or it is reported like any other transport error
                if o.res.is_ok() {
                    return Err(Violation::new("interrupted-changes-the-conversation", format!("{}: run_on returned Ok, but callbacks or output differ from the undisturbed run ({} vs {} callbacks, {} vs {} bytes)", what, log.len(), self.base_log.len(), o.sim.out.len(), self.base_out.len())));
                }
                self.judge_fault(&o, at, &what)
            }
            Spec::ZeroWrite(at) => {
                st.nontrivial += 1;
                st.bump("zero_writes");
                let o = run_spec(
                    &self.spec,
                    &self.stream,
                    Some(Fault {
                        at_op: at,
                        kind: FaultKind::ZeroWrite,
                        persistent: true,
                    }),
                );
                self.judge_fault(&o, at, &format!("write accepting 0 bytes from op {}", at))
            }
        }
    }
    fn describe(&self, idx: u64) -> J {
        json!({"conversation": self.spec.label, "fault": format!("{:?}", self.spec_of(idx)), "fault_free_ops": self.base_ops.len(), "client_bytes": self.stream.len(), "fault_free_result": self.base_res.short(), "fault_free_callbacks": self.base_cbs})
    }
}

impl FaultFamily {
    fn judge_fault(&self, o: &Outcome, at: usize, what: &str) -> Result<(), Violation> {
        match &o.res {
            ConnResult::Panic(l, m) => return Err(Violation::new(panic_key(l, m), format!("{}: run_on panicked at {}: {}", what, l, m))),
            ConnResult::Ok => return Err(Violation::new("fault-masked", format!("{}: run_on returned Ok", what))),
            _ => {}
        }
        // the op log must show the injected failure
        if o.sim.ops.len() <= at {
            return Err(Violation::new("harness:fault-not-reached", format!("{}: only {} ops performed", what, o.sim.ops.len())));
        }
        if let Some((i, (_, cb))) = o.log.iter().enumerate().find(|(i, (_, cb))| self.base_log.get(*i) != Some(cb)) {
            return Err(Violation::new("callbacks-differ-before-the-fault", format!("{}: callback {} is {}, the undisturbed run made {}", what, i, cb_short(cb), self.base_log.get(i).map(cb_short).unwrap_or_else(|| "none".into()))));
        }
        for (ops_at_entry, cb) in &o.log {
            if *ops_at_entry > at {
                return Err(Violation::new(
                    "callback-after-fault",
                    format!("{}: callback {} started after the failed operation (at op count {})", what, cb_short(cb), ops_at_entry),
                ));
            }
        }
        Ok(())
    }
}

fn specs(quick: bool) -> Vec<ConvSpec> {
    let c2 = Arc::new(vec![
        col("a", ColumnType::MYSQL_TYPE_LONG, ColumnFlags::empty()),
        col("b", ColumnType::MYSQL_TYPE_VAR_STRING, ColumnFlags::empty()),
    ]);
    let c0 = Arc::new(Vec::new());
    let row = || WOp::WriteRow(vec![Val::I32(7), Val::Str("x".into())]);
    let programs: Vec<(&str, Vec<WOp>)> = vec![
        ("completed", vec![WOp::Completed(1, 2)]),
        ("error", vec![WOp::Error(ErrorKind::ER_NO, b"no".to_vec())]),
        ("rows+finish", vec![WOp::Start(c2.clone()), row(), row(), WOp::Finish]),
        ("cols+drop", vec![WOp::Start(c2.clone()), WOp::WriteCol(Val::I32(1)), WOp::WriteCol(Val::Null), WOp::Drop]),
        ("rows+implicit-drop", vec![WOp::Start(c2.clone()), row()]),
        ("chain", vec![WOp::CompleteOne(1, 1), WOp::Start(c2.clone()), row(), WOp::FinishOne, WOp::Completed(2, 2)]),
        ("chain+drop", vec![WOp::Start(c2.clone()), row(), WOp::FinishOne, WOp::CompleteOne(5, 5), WOp::Drop]),
        ("rows+finish_error", vec![WOp::Start(c2.clone()), row(), WOp::FinishError(ErrorKind::ER_NO, b"late".to_vec())]),
        ("zero-cols", vec![WOp::Start(c0.clone()), WOp::EndRow, WOp::EndRow, WOp::Finish]),
        ("complete_one+drop", vec![WOp::CompleteOne(9, 9), WOp::Drop]),
    ];
    let mut v = Vec::new();
    let modes: Vec<(usize, usize, bool, &str)> = if quick {
        vec![(usize::MAX, usize::MAX, false, "whole reads"), (usize::MAX, usize::MAX, true, "lock-step client"), (1, usize::MAX, false, "1-byte reads"), (usize::MAX, 5, false, "5-byte writes")]
    } else {
        vec![(usize::MAX, usize::MAX, false, "whole reads"), (usize::MAX, usize::MAX, true, "lock-step client"), (1, usize::MAX, false, "1-byte reads"), (usize::MAX, 5, false, "5-byte writes"), (3, 2, false, "3-byte reads, 2-byte writes"), (7, usize::MAX, true, "lock-step client, 7-byte reads")]
    };
    for (ur, wc, ls, mname) in modes {
        for (name, p) in &programs {
            // what the client sends behind the command under test: a command the library answers,
            // a command for the shim and then QUIT, or QUIT at once (a masked failure would then
            // even end in Ok)
            for (bin, follow) in [(false, 0), (true, 0), (false, 1), (true, 1), (false, 2), (true, 2)] {
                if follow > 0 && wc != usize::MAX {
                    continue;
                }
                let mut cmds = Vec::new();
                if bin {
                    cmds.push(ClientCmd::new(with_byte(COM_STMT_PREPARE, b"id=1 p=0")));
                    cmds.push(ClientCmd::new(cmd_execute(1, 0, 1, &[])));
                } else {
                    cmds.push(q(b"go"));
                }
                match follow {
                    0 => cmds.push(ping()),
                    1 => {
                        cmds.push(q(b"next"));
                        cmds.push(quit());
                    }
                    _ => cmds.push(quit()),
                }
                v.push(ConvSpec {
                    label: format!("{} {} ({}) + {}", if bin { "execute" } else { "query" }, name, mname, ["ping", "query + quit", "quit"][follow]),
                    cmds,
                    progs: vec![Arc::new(p.clone())],
                    fail_at: None,
                    auth_reject: false,
                    uniform_read: ur,
                    write_cap: wc,
                    cuts: vec![],
                    lockstep: ls,
                    sparse: false,
                });
            }
        }
        // commands that are routed by their text and commands the library answers itself
        v.push(ConvSpec {
            label: format!("init-db + USE + SELECT @@ + field list + query + ping + quit ({})", mname),
            cmds: vec![
                ClientCmd::new(with_byte(COM_INIT_DB, b"db1")),
                q(b"USE `db2`"),
                q(b"SELECT @@max_allowed_packet"),
                ClientCmd::new(with_byte(COM_FIELD_LIST, b"t\0")),
                q(b"go"),
                q(b"use db3;"),
                ping(),
                quit(),
            ],
            progs: vec![Arc::new(programs[2].1.clone())],
            fail_at: None,
            auth_reject: false,
            uniform_read: ur,
            write_cap: wc,
            cuts: vec![],
            lockstep: ls,
            sparse: false,
        });
        // prepared statement with long data, close, quit
        let blk = exec_block(
            &[
                ExecParam { ty: 0xfc, unsigned: false, wire: None, long: true },
                ExecParam { ty: 0x03, unsigned: false, wire: Some(vec![5, 0, 0, 0]), long: false },
            ],
            true,
        );
        v.push(ConvSpec {
            label: format!("prepare + long data x2 + execute + close + quit ({})", mname),
            cmds: vec![
                ClientCmd::new(with_byte(COM_STMT_PREPARE, b"id=3 p=2 c=1")),
                ClientCmd::new(cmd_long(3, 0, b"abc")),
                ClientCmd::new(cmd_long(3, 0, b"def")),
                ClientCmd::new(cmd_execute(3, 0, 1, &blk)),
                ClientCmd::new(cmd_close(3)),
                quit(),
                ping(),
            ],
            progs: vec![Arc::new(programs[2].1.clone())],
            fail_at: None,
            auth_reject: false,
            uniform_read: ur,
            write_cap: wc,
            cuts: vec![],
            lockstep: ls,
            sparse: false,
        });
        // two statements whose long data arrives interleaved; one is closed with data pending, the
        // other executed and closed; then a library-answered command
        v.push(ConvSpec {
            label: format!("two statements, interleaved long data, close with data pending, execute, close, ping ({})", mname),
            cmds: vec![
                ClientCmd::new(with_byte(COM_STMT_PREPARE, b"id=1 p=2 c=1")),
                ClientCmd::new(with_byte(COM_STMT_PREPARE, b"id=2 p=2 c=1")),
                ClientCmd::new(cmd_long(1, 0, b"a1")),
                ClientCmd::new(cmd_long(2, 0, b"b1")),
                ClientCmd::new(cmd_long(1, 0, b"a2")),
                ClientCmd::new(cmd_close(1)),
                ClientCmd::new(cmd_long(2, 0, b"b2")),
                ClientCmd::new(cmd_execute(2, 0, 1, &blk)),
                ClientCmd::new(cmd_close(2)),
                ping(),
            ],
            progs: vec![Arc::new(programs[2].1.clone())],
            fail_at: None,
            auth_reject: false,
            uniform_read: ur,
            write_cap: wc,
            cuts: vec![],
            lockstep: ls,
            sparse: false,
        });
        // library replies
        v.push(ConvSpec {
            label: format!("init db, USE, field list, SELECT @@max_allowed_packet, ping ({})", mname),
            cmds: vec![
                ClientCmd::new(with_byte(COM_INIT_DB, b"db")),
                q(b"USE other"),
                ClientCmd::new(with_byte(COM_FIELD_LIST, b"t\0")),
                q(b"SELECT @@max_allowed_packet"),
                ping(),
            ],
            progs: vec![],
            fail_at: None,
            auth_reject: false,
            uniform_read: ur,
            write_cap: wc,
            cuts: vec![],
            lockstep: ls,
            sparse: false,
        });
        // hundreds of commands arriving in one read (only with whole reads)
        if ur == usize::MAX && wc == usize::MAX {
            v.push(ConvSpec {
                label: "300 pipelined queries + ping (whole reads)".into(),
                cmds: (0..300).map(|i| q(format!("query number {} {}", i, "y".repeat(i % 17)).as_bytes())).chain(std::iter::once(ping())).collect(),
                progs: vec![],
                fail_at: None,
                auth_reject: false,
                uniform_read: ur,
                write_cap: wc,
                cuts: vec![],
                lockstep: ls,
                sparse: false,
            });
        }
        // auth rejection with a pipelined command
        v.push(ConvSpec {
            label: format!("authentication rejected, query pipelined ({})", mname),
            cmds: vec![q(b"never")],
            progs: vec![],
            fail_at: None,
            auth_reject: true,
            uniform_read: ur,
            write_cap: wc,
            cuts: vec![],
            lockstep: ls,
            sparse: false,
        });
        // a shim error at each kind of callback
        for (k, what) in ["query", "prepare", "execute", "init"].iter().enumerate() {
            v.push(ConvSpec {
                label: format!("shim error in on_{} ({})", what, mname),
                cmds: vec![
                    q(b"one"),
                    ClientCmd::new(with_byte(COM_STMT_PREPARE, b"id=1 p=0")),
                    ClientCmd::new(cmd_execute(1, 0, 1, &[])),
                    ClientCmd::new(with_byte(COM_INIT_DB, b"db")),
                    ping(),
                ],
                progs: vec![],
                fail_at: Some(k),
                auth_reject: false,
                uniform_read: ur,
                write_cap: wc,
                cuts: vec![],
                lockstep: ls,
                sparse: false,
            });
        }
    }
    // two writer programs on one connection (a text one, then a binary one behind a PREPARE), so that
    // every fault also lands behind an earlier exchange of every kind; and the same with the shim
    // failing in the second program's callback
    for (ls, mname) in [(false, "whole reads"), (true, "lock-step client")] {
        for (i, (n1, p1)) in programs.iter().enumerate() {
            for (j, (n2, p2)) in programs.iter().enumerate() {
                if quick && ls && (i + j) % 3 != 0 {
                    continue;
                }
                for fail in [None, Some(2usize)] {
                    if fail.is_some() && (ls || j != 0) {
                        continue;
                    }
                    v.push(ConvSpec {
                        label: format!("query {} + prepare + execute {}{} + init db + ping ({})", n1, n2, if fail.is_some() { " (the shim fails instead)" } else { "" }, mname),
                        cmds: vec![
                            q(b"first"),
                            ClientCmd::new(with_byte(COM_STMT_PREPARE, b"id=1 p=0")),
                            ClientCmd::new(cmd_execute(1, 0, 1, &[])),
                            ClientCmd::new(with_byte(COM_INIT_DB, b"db")),
                            ping(),
                        ],
                        progs: vec![Arc::new(p1.clone()), Arc::new(p2.clone())],
                        fail_at: fail,
                        auth_reject: false,
                        uniform_read: usize::MAX,
                        write_cap: usize::MAX,
                        cuts: vec![],
                        lockstep: ls,
                        sparse: false,
                    });
                }
            }
        }
    }
    // accumulation: a reply of thousands of packets (per-connection packet counters, periodic
    // maintenance on the write side) with a fault at every operation; and hundreds of small
    // commands each arriving in its own read, then a longer command split behind its header
    {
        let c1 = Arc::new(vec![col("n", ColumnType::MYSQL_TYPE_LONG, ColumnFlags::empty())]);
        let mut p = vec![WOp::Start(c1)];
        for i in 0..(if quick { 4200 } else { 9000 }) {
            p.push(WOp::WriteRow(vec![Val::I32(i)]));
        }
        p.push(WOp::Finish);
        v.push(ConvSpec {
            label: format!("query answered with {} one-cell rows + ping + quit", p.len() - 2),
            cmds: vec![q(b"many"), ping(), quit()],
            progs: vec![Arc::new(p)],
            fail_at: None,
            auth_reject: false,
            uniform_read: usize::MAX,
            write_cap: usize::MAX,
            cuts: vec![],
            lockstep: false,
            sparse: true,
        });
        let mut cmds: Vec<ClientCmd> = (0..(if quick { 300 } else { 700 })).map(|_| ping()).collect();
        let long: Vec<u8> = (0..400).map(|i| b'a' + (i % 26) as u8).collect();
        cmds.push(q(&long));
        cmds.push(quit());
        let split = Conv::new(cmds.clone()).stream().ends[cmds.len() - 2] + 4;
        v.push(ConvSpec {
            label: format!("{} pings each in its own read, a 400-byte query split behind its header, quit (lock-step client)", cmds.len() - 2),
            cmds,
            progs: vec![],
            fail_at: None,
            auth_reject: false,
            uniform_read: usize::MAX,
            write_cap: usize::MAX,
            cuts: vec![split],
            lockstep: true,
            sparse: true,
        });
    }
    // a long pipelined history of statement cycles (several read buffers' worth of commands): the
    // stream ends after every byte count, and every operation fails, also late in the history,
    // after the read buffer has been refilled, shifted and reused many times
    for (ur, mname) in [(usize::MAX, "whole reads"), (509usize, "509-byte reads")] {
        let cycles = if quick { 260 } else { 700 };
        let blk = exec_block(&[ExecParam { ty: 0xfc, unsigned: false, wire: None, long: true }], true);
        let mut cmds = Vec::new();
        let mut progs = Vec::new();
        for i in 0..cycles {
            let id = (i % 5 + 1) as u32;
            cmds.push(ClientCmd::new(with_byte(COM_STMT_PREPARE, format!("id={} p=1 c=1", id).as_bytes())));
            cmds.push(ClientCmd::new(cmd_long(id, 0, &vec![b'a' + (i % 26) as u8; i % 9])));
            cmds.push(ClientCmd::new(cmd_execute(id, 0, 1, &blk)));
            progs.push(Arc::new(programs[i % 3].1.clone()));
            cmds.push(ClientCmd::new(cmd_close(id)));
            if i % 7 == 3 {
                cmds.push(ping());
            }
        }
        cmds.push(quit());
        v.push(ConvSpec {
            label: format!("{} pipelined cycles of prepare + long data + execute + close ({}) + quit", cycles, mname),
            cmds,
            progs,
            fail_at: None,
            auth_reject: false,
            uniform_read: ur,
            write_cap: usize::MAX,
            cuts: vec![],
            lockstep: false,
            sparse: false,
        });
    }
    // multi-packet requests: end of stream and faults around every packet header
    for size in if quick { vec![MAXP + 9] } else { vec![MAXP - 1, MAXP, MAXP + 9, 2 * MAXP, 2 * MAXP + 9] } {
        let mut text = vec![b'w'; size - 1];
        text[0] = b'k';
        v.push(ConvSpec {
            label: format!("query of {} payload bytes + ping", size),
            cmds: vec![q(&text), ping()],
            progs: vec![],
            fail_at: None,
            auth_reject: false,
            uniform_read: usize::MAX,
            write_cap: usize::MAX,
            cuts: vec![],
            lockstep: false,
            sparse: true,
        });
    }
    // replies of 2^24-1 bytes and more: the packet writer touches the transport in the middle of a
    // message (a maximal packet is handed over while the rest is still being assembled), so every
    // operation of such a reply fails once, fails for good, is interrupted; with an explicit finish,
    // with the writers finalised by drop, in both protocols, under whole and 65537-byte writes
    for (bin, wc, pname, tail) in [
        (false, usize::MAX, "row + finish", vec![WOp::Finish]),
        (false, usize::MAX, "row, writers dropped", vec![]),
        (true, usize::MAX, "row + finish", vec![WOp::Finish]),
        (false, 65537, "row + finish", vec![WOp::Finish]),
        (true, 65537, "row, writers dropped", vec![]),
    ] {
        if quick && wc != usize::MAX && bin {
            continue;
        }
        let c1 = Arc::new(vec![col("big", ColumnType::MYSQL_TYPE_BLOB, ColumnFlags::empty()), col("n", ColumnType::MYSQL_TYPE_LONG, ColumnFlags::empty())]);
        let big: Vec<u8> = (0..MAXP + 11).map(|i| (i % 251) as u8).collect();
        let mut p = vec![WOp::Start(c1), WOp::WriteRow(vec![Val::Bytes(big), Val::I32(77)])];
        p.extend(tail);
        let mut cmds = Vec::new();
        if bin {
            cmds.push(ClientCmd::new(with_byte(COM_STMT_PREPARE, b"id=1 p=0")));
            cmds.push(ClientCmd::new(cmd_execute(1, 0, 1, &[])));
        } else {
            cmds.push(q(b"big"));
        }
        cmds.push(ping());
        cmds.push(quit());
        v.push(ConvSpec {
            label: format!("{} answered with a row of 2^24+10 bytes and more ({}{}) + ping + quit", if bin { "execute" } else { "query" }, pname, if wc == usize::MAX { "".to_string() } else { format!(", {}-byte writes", wc) }),
            cmds,
            progs: vec![Arc::new(p)],
            fail_at: None,
            auth_reject: false,
            uniform_read: usize::MAX,
            write_cap: wc,
            cuts: vec![],
            lockstep: false,
            sparse: wc != usize::MAX,
        });
    }
    v
}

pub fn build(quick: bool) -> Check {
    let sp = specs(quick);
    // the same fault enumeration again with one read boundary inside the client stream: the
    // operation log (and with it every fault point) changes with the chunking. Quick: the plain
    // pipelined conversations under a boundary next to every packet header; thorough: under a
    // boundary at every position.
    let mut sp = sp;
    let base: Vec<ConvSpec> = sp.iter().filter(|s| s.uniform_read == usize::MAX && s.write_cap == usize::MAX && !s.lockstep && !s.sparse && s.cmds.len() <= 8).cloned().collect();
    for b in base {
        let st = Conv::new(b.cmds.clone()).stream();
        let positions: Vec<usize> = if quick {
            let mut v: Vec<usize> = Vec::new();
            for h in &st.headers {
                for d in [1usize, 3, 4, 5] {
                    if h + d < st.bytes.len() {
                        v.push(h + d);
                    }
                }
            }
            v.sort();
            v.dedup();
            v
        } else {
            (1..st.bytes.len()).collect()
        };
        for c in positions {
            let mut s2 = b.clone();
            s2.cuts = vec![c];
            s2.label = format!("{} [read boundary at {}]", b.label, c);
            sp.push(s2);
        }
    }
    let n = sp.len();
    let mut families: Vec<Box<dyn Family>> = sp.into_iter().map(|s| Box::new(FaultFamily::new(s)) as Box<dyn Family>).collect();
    // the end of the stream inside a TLS session: a stream that ends inside a TLS record, or
    // between two records but inside a packet, is not a clean close either
    families.push(Box::new(super::c18::TlsEof::new(quick, false, false)));
    families.push(Box::new(super::c18::TlsEof::new(quick, false, true)));
    Check {
        id: "C19",
        level: "fault_enumeration",
        rule: format!("the client's stream ending at every kind of position of a TLS session (all messages in one burst of records, and one record per message): Ok only exactly between two records at a command boundary; {} conversations (writer programs with explicit finish and with implicit drops, text and binary, chained results, long data, close, quit, library replies, auth rejection, a shim error in each callback; each writer program followed by a library-answered command, by another shim command + QUIT, and by QUIT alone; pipelined and with a lock-step client; under 1-byte reads and short writes; requests of 2^24-1 bytes and more with end-of-stream within 6 bytes of every packet header and message end; replies holding a row of more than 2^24-1 bytes (explicit finish and writers finalised by drop, text and binary, whole and 65537-byte writes) with every operation failing once / for good / interrupted; the plain conversations again under one read boundary next to every packet header (thorough: at every position), each with its own fault-free operation log). For each, from the operation log of its fault-free run: end of stream after every byte count 0..M, an error of each of 4 kinds once and persistently at every operation index, a zero-length write at every write; ErrorKind::Interrupted once at every operation (must either be retried without any visible difference or be reported like any other error). Oracle: Ok iff fault-free and the client quit or closed at a message boundary after the handshake; every fault => Err, never Ok, never a panic; no callback starts after the failed operation; a shim error is returned as the identical value. Non-trivial = a fault strictly inside the conversation (not a clean close).", n),
        assumptions: vec![
            "ErrorKind::Interrupted is injected once per operation only (a persistent one makes std's write_all spin by contract); both a transparent retry and an error return are accepted".into(),
            "fault points are derived from the fault-free run of the tree under test, not from constants".into(),
        ],
        bounds: json!({"conversations": n, "error_kinds": 4}),
        exhaustive: true,
        caps_hit: vec![],
        families,
        required: vec!["tls_eof_inside_a_record", "interrupted_once", "eof_inside_a_message", "eof_at_a_boundary", "read_faults", "write_faults", "flush_faults", "zero_writes"],
    }
}
