//! C10 — statement ids are executable exactly between the PREPARE reply and CLOSE.

use super::registry::*;
use crate::engine::*;
use serde_json::{json, Value as J};

fn alphabet() -> Vec<Action> {
    let mut a = Vec::new();
    for id in [1u32, 2] {
        for n in 0..=2 {
            a.push(Action::Prepare { id, n, ok: true });
        }
        a.push(Action::Prepare { id, n: 1, ok: false });
    }
    for id in [1u32, 2, 3] {
        a.push(Action::Exec { id, bind: Bind::A, null_first: false, shim_ignores: 0 });
        a.push(Action::Exec { id, bind: Bind::Reuse, null_first: false, shim_ignores: 0 });
        a.push(Action::Long { id, param: 0, chunk: 1 });
        if id != 2 {
            // an empty chunk is still a command for that statement (dead or alive)
            a.push(Action::Long { id, param: 0, chunk: 0 });
        }
        a.push(Action::Close { id });
    }
    a
}


/// COM_STMT_CLOSE carries a 4-byte id; bytes behind it are ignored by real servers. A close with
/// trailing bytes is still a close: exactly one on_close with that id, no reply, the id is gone.
struct OverlongClose;
impl Family for OverlongClose {
    fn name(&self) -> String {
        "close-with-trailing-bytes".into()
    }
    fn len(&self) -> u64 {
        6
    }
    fn run(&self, idx: u64, st: &mut Stats) -> Result<(), Violation> {
        use crate::refwire::*;
        st.nontrivial += 1;
        st.bump("overlong_closes");
        let extra: &[u8] = [&b"\0"[..], b"\x01\x02\x03\x04", b"trailing bytes of some length"][(idx % 3) as usize];
        let mut close1 = cmd_close(1);
        close1.extend_from_slice(extra);
        let mut close7 = cmd_close(7); // never prepared
        close7.extend_from_slice(extra);
        let payloads = if idx < 3 {
            vec![with_byte(COM_STMT_PREPARE, b"id=1 p=0"), cmd_execute(1, 0, 1, &[]), close1, close7, with_byte(COM_STMT_PREPARE, b"id=1 p=0"), cmd_execute(1, 0, 1, &[])]
        } else {
            // the closed id must be dead afterwards
            vec![with_byte(COM_STMT_PREPARE, b"id=1 p=0"), close1, cmd_execute(1, 0, 1, &[])]
        };
        run_payloads(&payloads, &[], st).map(|_| ()).map_err(|mut v| {
            v.msg = format!("COM_STMT_CLOSE followed by {} more bytes: {}", extra.len(), v.msg);
            v
        })
    }
    fn describe(&self, idx: u64) -> J {
        let tb = [1, 4, 29][(idx % 3) as usize];
        json!({"trailing_bytes": tb, "then": if idx < 3 { "re-prepare and execute" } else { "execute the closed id (must end the connection)" }})
    }
}

/// Commands for ids that are not open, in every shape a client might give them: ids from a palette
/// (0, never-prepared small ones, 2^16+1, 2^31, 2^32-1 - the value some servers read as "the
/// statement prepared last"), EXECUTE with every interesting flags byte and iteration count and with
/// or without a parameter block, long data with and without bytes; while another statement is
/// open, after the id was closed, and on a connection that never prepared anything. None may reach
/// the shim; the connection ends with an error.
struct DeadIds;
const DEAD_IDS: [u32; 7] = [0, 3, 77, 65_537, 0x8000_0000, 0xffff_fffe, 0xffff_ffff];
const DEAD_FLAGS: [u8; 6] = [0, 1, 2, 4, 0x80, 0xff];
impl DeadIds {
    fn case(idx: u64) -> (u32, u8, u32, usize, usize) {
        let d = digits(idx, &[DEAD_IDS.len() as u64, DEAD_FLAGS.len() as u64, 3, 3, 3]);
        (DEAD_IDS[d[0] as usize], DEAD_FLAGS[d[1] as usize], [0u32, 1, u32::MAX][d[2] as usize], d[3] as usize, d[4] as usize)
    }
}
impl Family for DeadIds {
    fn name(&self) -> String {
        "commands-for-ids-that-are-not-open".into()
    }
    fn len(&self) -> u64 {
        (DEAD_IDS.len() * DEAD_FLAGS.len() * 3 * 3 * 3) as u64
    }
    fn run(&self, idx: u64, st: &mut Stats) -> Result<(), Violation> {
        use crate::refwire::*;
        let (id, flags, iter, shape, ctx) = Self::case(idx);
        st.nontrivial += 1;
        st.bump("dead_id_commands");
        let block = exec_block(&[ExecParam { ty: 0x03, unsigned: false, wire: Some(vec![1, 0, 0, 0]), long: false }], true);
        let dead = match shape {
            0 => cmd_execute(id, flags, iter, &[]),
            1 => cmd_execute(id, flags, iter, &block),
            _ => cmd_long(id, 0, if flags & 1 == 1 { b"data" } else { b"" }),
        };
        // context: nothing prepared / another statement open and executed / the same id prepared,
        // executed and closed before (only for ids the shim can hand out: all of them)
        let mut payloads = match ctx {
            0 => vec![],
            1 => vec![with_byte(COM_STMT_PREPARE, b"id=1 p=1"), cmd_execute(1, 0, 1, &block)],
            _ => vec![with_byte(COM_STMT_PREPARE, format!("id={} p=1", id).as_bytes()), cmd_execute(id, 0, 1, &block), cmd_close(id), with_byte(COM_STMT_PREPARE, b"id=1 p=1")],
        };
        if ctx == 2 && id == 1 {
            payloads.pop();
        }
        payloads.push(dead);
        payloads.push(vec![COM_PING]);
        run_payloads(&payloads, &[], st).map(|_| ()).map_err(|mut v| {
            v.msg = format!("id {:#x}, flags {:#04x}, iteration count {}, shape {}, context {}: {}", id, flags, iter, shape, ctx, v.msg);
            v
        })
    }
    fn describe(&self, idx: u64) -> J {
        let (id, flags, iter, shape, ctx) = Self::case(idx);
        let shape = ["EXECUTE without parameter block", "EXECUTE with a parameter block", "SEND_LONG_DATA"][shape];
        let ctx = ["nothing prepared", "another statement open", "the id was prepared, executed and closed; another statement is open"][ctx];
        json!({"id": id, "flags": flags, "iteration_count": iter, "command": shape, "context": ctx})
    }
}

pub fn build(quick: bool) -> Check {
    let alpha = alphabet();
    let mut families: Vec<Box<dyn Family>> = Vec::new();
    for d in 1..=(if quick { 6 } else { 7 }) {
        families.push(Box::new(Tree { label: "lifecycle".into(), prefix: vec![], alpha: alpha.clone(), depth: d }));
    }
    families.push(Box::new(Bfs {
        label: "lifecycle".into(),
        prefix: vec![],
        alpha: alpha.clone(),
        max_depth: if quick { 7 } else { 14 },
        max_long: 4,
        max_states: if quick { 3000 } else { 200_000 },
    }));
    families.push(Box::new(Histories { label: "lifecycle".into(), hists: scale_lifecycle() }));
    families.push(Box::new(Histories { label: "lifecycle-counter-wraps".into(), hists: wraps_lifecycle(quick) }));
    // a core alphabet of two statements (and one id never prepared) under eight id maps
    let core: Vec<Action> = vec![
        Action::Prepare { id: 1, n: 1, ok: true },
        Action::Prepare { id: 2, n: 1, ok: true },
        Action::Prepare { id: 1, n: 2, ok: true },
        Action::Exec { id: 1, bind: Bind::A, null_first: false, shim_ignores: 0 },
        Action::Exec { id: 1, bind: Bind::Reuse, null_first: false, shim_ignores: 0 },
        Action::Exec { id: 2, bind: Bind::A, null_first: false, shim_ignores: 0 },
        Action::Exec { id: 2, bind: Bind::Reuse, null_first: false, shim_ignores: 0 },
        Action::Exec { id: 3, bind: Bind::A, null_first: false, shim_ignores: 0 },
        Action::Long { id: 1, param: 0, chunk: 1 },
        Action::Long { id: 2, param: 0, chunk: 1 },
        Action::Close { id: 1 },
        Action::Close { id: 2 },
    ];
    for d in (if quick { 5..=6 } else { 5..=7 }) {
        // quick: the deepest level under two of the eight maps
        let maps = if quick && d == 6 { vec![id_maps()[0], id_maps()[6]] } else { id_maps() };
        families.push(Box::new(IdTree { label: "lifecycle".into(), alpha: core.clone(), depth: d, maps }));
    }
    families.push(Box::new(OverlongClose));
    families.push(Box::new(DeadIds));
    families.push(Box::new(super::c16::CycleCounts { max_k: if quick { 600 } else { 1300 } }));
    families.push(Box::new(super::soak::Soak { label: "all-mixes", lens: super::soak::lens(quick), mixes: super::soak::MIXES.to_vec(), opts: super::soak::opts_all(), big: super::soak::big_default(quick) }));
    if !quick {
        families.push(Box::new(Histories { label: "lifecycle-volume".into(), hists: scale_volume() }));
    }
    Check {
        id: "C10",
        level: "model_checking",
        rule: format!("histories over {} actions: PREPARE(id 1|2, 0..2 params, accepted|rejected), EXECUTE(id 1|2|3(never prepared), bind|reuse), LONG_DATA (with data and empty), CLOSE. (1) the full history tree to depth {} from a fresh connection, no abstraction; (2) BFS over reference-model states (registry map) where every transition is validated by re-running the implementation on witness+action, from two different witnesses per state when two were found. Long scripted sessions: 130..4099 (thorough: up to 131101) ordinary commands of every kind on one connection in up to six mixes (even, prepare/close churn with growing ids, executions, long-data chunks, unanswered commands, text and library-answered commands) under several client/transport behaviours (pipelined, request ids advancing by 7, lock-step, 1..4093-byte reads, 7/11-byte writes), generated by a fixed rule, kept valid with the registry model and judged on the complete trace (callbacks with arguments, result, strict decode of every reply with its sequence ids). Oracle per history: complete callback log, run_on result and strictly decoded replies equal the registry model (dead ids never reach the shim and end the connection with Err, every CLOSE -> exactly one on_close and no reply bytes, re-prepare resets parameter count/types/long data). (2b) every history of 5-6 (thorough: 7) actions over a 12-action core of two statements and one id never prepared, under eight id maps (quick: depth 6 under two of them) (300/100, 100/300, 70000/3, 2^32-1/0, 256/0, 4096/4095, 65536/65537, ids equal modulo 2^16 and 2^24). (3) long histories: 8..1000 open statements, one long-lived statement next to 6..600 prepare/execute/close cycles; statements of 9..300 parameters closed and re-prepared under the same or another id; COM_STMT_CLOSE packets with 1..29 trailing bytes; EXECUTE / SEND_LONG_DATA for seven ids that are not open (0 .. 2^32-1) x six flags bytes x three iteration counts x with/without parameter block x three contexts; thorough: 120 MB of long data discarded by re-preparing an open id. Non-trivial = history not pruned as a duplicate.", alpha.len(), if quick {6} else {7}),
        assumptions: vec![
            "an EXECUTE that reuses types when none were ever bound for the (re-)prepared statement is treated as connection-ending (it cannot be decoded)".into(),
            "BFS merging assumes hidden implementation state is a function of the model state; tested with two witnesses per state and not assumed at all by the tree".into(),
        ],
        bounds: json!({"tree_depth": if quick {6} else {7}, "bfs_depth": if quick {7} else {14}, "alphabet": alpha.len()}),
        exhaustive: true,
        caps_hit: vec![],
        families,
        required: vec!["histories_with_renamed_ids", "soak_sessions", "dead_id_commands", "histories_ending_in_refusal", "execute_after_close", "re_prepare", "bfs_states", "long_histories", "states_with_two_witnesses"],
    }
}
