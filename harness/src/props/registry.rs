//! The statement-registry machine shared by C10, C16 and C17: an action alphabet, a client-side
//! encoder that knows the registry model, whole-history runs of the real implementation, the
//! full history tree and a BFS over reference-model states with two witnesses per state.

use super::common::*;
use super::model::*;
use crate::conv::*;
use crate::engine::*;
use crate::refwire::*;
use crate::shim::*;
use rayon::prelude::*;
use serde_json::{json, Value as J};
use std::collections::HashMap;
use std::sync::Arc;

#[derive(Clone, Copy, Debug, PartialEq, Eq, Hash)]
pub enum Bind {
    Reuse,
    A, // LONG signed
    B, // TINY unsigned
    C, // VAR_STRING
    D, // LONGLONG unsigned (same width family as nothing else: 8 bytes)
    E, // LONG unsigned: same type code as A, other signedness
    N, // MYSQL_TYPE_NULL for every parameter (no payload; NULL bit set or clear)
}

#[derive(Clone, Copy, Debug, PartialEq, Eq, Hash)]
pub enum Action {
    Prepare { id: u32, n: usize, ok: bool },
    /// shim_ignores: 0 = the shim reads every parameter, 1 = none, 2 = only the first
    Exec { id: u32, bind: Bind, null_first: bool, shim_ignores: u8 },
    Long { id: u32, param: u16, chunk: u8 },
    Close { id: u32 },
}

/// long-data chunks by index: three tiny ones (all the BFS uses) and three of sizes at which an
/// implementation's buffers may start to behave differently
pub fn chunk_bytes(idx: u8) -> Vec<u8> {
    match idx {
        0 => Vec::new(),
        1 => b"xy".to_vec(),
        2 => b"z".to_vec(),
        3 => (0..2000usize).map(|i| b'a' + (i % 23) as u8).collect(),
        4 => (0..12_000usize).map(|i| b'A' + (i % 19) as u8).collect(),
        5 => (0..70_000usize).map(|i| b'0' + (i % 7) as u8).collect(),
        _ => vec![b'V'; 15_000_000],
    }
}

impl Action {
    pub fn short(&self) -> String {
        match self {
            Action::Prepare { id, n, ok } => format!("PREPARE(id={},params={},{})", id, n, if *ok { "ok" } else { "rejected" }),
            Action::Exec { id, bind, null_first, shim_ignores } => format!(
                "EXECUTE(id={},{:?}{}{})",
                id,
                bind,
                if *null_first { ",first NULL" } else { "" },
                match *shim_ignores {
                    0 => "",
                    1 => ",shim ignores params",
                    _ => ",shim reads only the first param",
                }
            ),
            Action::Long { id, param, chunk } => format!("LONG_DATA(id={},param={},{})", id, param, if *chunk < 3 { format!("{:?}", String::from_utf8_lossy(&chunk_bytes(*chunk))) } else { format!("{} bytes", chunk_bytes(*chunk).len()) }),
            Action::Close { id } => format!("CLOSE(id={})", id),
        }
    }
}

fn bind_type(b: Bind) -> (u8, bool) {
    match b {
        Bind::A => (0x03, false),
        Bind::B => (0x01, true),
        Bind::C => (0xfd, false),
        Bind::D => (0x08, true),
        Bind::E => (0x03, true),
        Bind::N => (0x06, false),
        Bind::Reuse => unreachable!(),
    }
}

/// wire bytes of parameter `i` at history step `step` for a given type; chosen so that decoding
/// with another type or from another offset yields a different value
fn value_bytes(ty: u8, i: usize, step: usize) -> Vec<u8> {
    let s = ((step * 7 + i * 3) % 48) as u8;
    match ty {
        0x03 => vec![0x11 + s, 0x62 + s, 0x23 + s, 0xc4 + s],
        0x01 => vec![0x91 + s],
        0x08 => vec![0x15 + s, 0x26 + s, 0x37 + s, 0x48 + s, 0x59 + s, 0x6a + s, 0x7b + s, 0x8c + s],
        0x06 => vec![],
        _ => vec![2, b'A' + (s % 26), b'a' + (s % 26)],
    }
}

/// Encode one action the way a conformant client that knows the registry (the model) would.
pub fn encode(reg: &Registry, a: &Action, step: usize) -> Vec<u8> {
    match *a {
        Action::Prepare { id, n, ok } => with_byte(COM_STMT_PREPARE, format!("id={} p={}{}", id, n, if ok { "" } else { " err" }).as_bytes()),
        Action::Close { id } => cmd_close(id),
        Action::Long { id, param, chunk } => cmd_long(id, param, &chunk_bytes(chunk)),
        Action::Exec { id, bind, null_first, .. } => {
            let (n, types, long): (usize, Option<Vec<(u8, bool)>>, Vec<u16>) = match reg.stmts.get(&id) {
                Some(s) => (s.params, s.types.clone(), s.long.keys().copied().collect()),
                None => (1, None, vec![]),
            };
            let mut ps = Vec::new();
            for i in 0..n {
                let (ty, uns) = match bind {
                    Bind::Reuse => types.as_ref().and_then(|t| t.get(i).copied()).unwrap_or((0x03, false)),
                    b => bind_type(b),
                };
                let is_long = long.contains(&(i as u16));
                let wire = if is_long || (null_first && i == 0) { None } else { Some(value_bytes(ty, i, step)) };
                ps.push(ExecParam {
                    ty,
                    unsigned: uns,
                    wire,
                    long: is_long,
                });
            }
            cmd_execute(id, 0, 1, &exec_block(&ps, bind != Bind::Reuse))
        }
    }
}

pub struct HistOutcome {
    pub ok: bool,
    pub msg: String,
    pub key: &'static str,
    /// the model after the history (None if the history ended the connection)
    pub model: Option<Registry>,
    pub steps_run: usize,
}

/// Run a whole history on a fresh connection of the real implementation and compare the complete
/// observable trace (callback log, result, strictly decoded replies) with the model.
pub fn run_history(hist: &[Action], st: &mut Stats) -> Result<Option<Registry>, Violation> {
    let mut reg = Registry::default();
    let mut payloads = Vec::new();
    let mut ignores = Vec::new();
    for (step, a) in hist.iter().enumerate() {
        let payload = encode(&reg, a, step);
        let routed = reg.route(&payload);
        payloads.push(payload);
        ignores.push(match a {
            Action::Exec { shim_ignores, .. } => *shim_ignores,
            _ => 0,
        });
        if routed == Routed::Fatal || routed == Routed::Refused {
            break;
        }
    }
    run_payloads(&payloads, &ignores, st)
}

/// Run a list of command payloads on a fresh connection of the real implementation and compare
/// the complete observable trace with the registry model.
pub fn run_payloads(payloads: &[Vec<u8>], ignores: &[u8], st: &mut Stats) -> Result<Option<Registry>, Violation> {
    run_payloads_opts(payloads, ignores, &RunOpts::default(), st)
}

/// how the client and the transport behave while a payload list is run
#[derive(Clone, Copy, Debug)]
pub struct RunOpts {
    /// request k carries sequence id (k * seq_stride) mod 256
    pub seq_stride: u8,
    /// every read returns at most this many bytes
    pub uniform_read: usize,
    /// every transport write accepts at most this many bytes
    pub write_cap: usize,
    /// the client waits for every owed reply before it sends the next command
    pub lockstep: bool,
    /// every K-th command (0: none) arrives in two reads: its 4-byte header, then the rest
    pub cut_every: usize,
    /// exactly one command arrives in two reads (header, then the rest): the first command of at
    /// least 300 bytes behind the tenth; everything else arrives whole. (A periodic disturbance
    /// keeps overwriting single-slot state; a wrap needs one disturbance and 2^16 quiet steps.)
    pub cut_once: bool,
    /// the shim answers with resultsets of varying shape (text and binary rows, an occasional
    /// 5000-byte row, chained sets) instead of bare completions
    pub rich: bool,
}
impl Default for RunOpts {
    fn default() -> Self {
        RunOpts { seq_stride: 0, uniform_read: usize::MAX, write_cap: usize::MAX, lockstep: false, cut_every: 0, cut_once: false, rich: false }
    }
}

pub fn run_payloads_opts(payloads: &[Vec<u8>], ignores: &[u8], opts: &RunOpts, st: &mut Stats) -> Result<Option<Registry>, Violation> {
    let mut reg = Registry::default();
    let mut cmds: Vec<ClientCmd> = Vec::new();
    let mut expected = vec![auth_cb()];
    let mut skip_iter = Vec::new();
    let mut fatal_at = None;
    let mut lenient = false;
    for (step, payload) in payloads.iter().enumerate() {
        let routed = reg.route(payload);
        cmds.push(ClientCmd::new(payload.clone()).seq((step as u64 * opts.seq_stride as u64 % 256) as u8));
        match routed {
            Routed::Cb(cb) => {
                if let Cb::Execute { id, .. } = &cb {
                    let ign = ignores.get(step).copied().unwrap_or(0);
                    skip_iter.push(ign);
                    if ign == 1 {
                        expected.push(Cb::Execute { id: *id, params: vec![] });
                        continue;
                    }
                    if ign == 2 {
                        if let Cb::Execute { id, params } = &cb {
                            expected.push(Cb::Execute { id: *id, params: params.iter().take(1).cloned().collect() });
                            continue;
                        }
                    }
                }
                expected.push(cb);
            }
            Routed::NoCb => {}
            Routed::Fatal => {
                fatal_at = Some(step);
                break;
            }
            Routed::Refused => {
                fatal_at = Some(step);
                lenient = true;
                break;
            }
            other => panic!("VERIF harness bug: registry action routed to {:?}", other),
        }
    }
    let n_cmds = cmds.len();
    cmds.push(ping()); // sentinel: proves nothing shifted (not reached after a fatal action)
    let conv = Conv::new(cmds);
    let s = conv.stream();
    let stream = Arc::new(s.bytes);
    let mut cuts: Vec<usize> = if opts.cut_every == 0 { vec![] } else { (0..n_cmds).filter(|k| k % opts.cut_every == opts.cut_every - 1).map(|k| s.ends[k] + 4).collect() };
    if opts.cut_once {
        if let Some(k) = (10..n_cmds).find(|k| payloads[*k].len() >= 300) {
            cuts.push(s.ends[k] + 4);
        }
    }
    let mut sim = sim_for(&stream, cuts);
    sim.log_ops = false;
    sim.uniform_read = opts.uniform_read;
    sim.write_cap = opts.write_cap;
    if opts.lockstep && fatal_at.is_none() {
        lockstep(&mut sim, &conv);
    }
    let mut cfg = ConnCfg::new(if opts.rich { super::soak::soak_behave() } else { std_behave() });
    cfg.skip_iter = skip_iter;
    let o = run_conn(sim, cfg);
    st.transitions += n_cmds as u64;
    if let ConnResult::Panic(l, m) = &o.res {
        return Err(Violation::new(panic_key(l, m), format!("run_on panicked at {}: {}", l, m)));
    }
    let got: Vec<&Cb> = o.log.iter().map(|x| &x.1).collect();
    let n = got.len().min(expected.len());
    for i in 0..n {
        if got[i] != &expected[i] {
            let key = match (got[i], &expected[i]) {
                (Cb::Execute { params: g, .. }, Cb::Execute { params: e, .. }) => {
                    if g.len() != e.len() {
                        "execute-param-count"
                    } else if g.iter().zip(e.iter()).any(|(a, b)| a.0 != b.0) {
                        "execute-param-types"
                    } else {
                        "execute-param-values"
                    }
                }
                _ => "callback-differs",
            };
            return Err(Violation::new(key, format!("callback {}: model predicts {}, implementation made {}", i, cb_short(&expected[i]), cb_short(got[i]))));
        }
    }
    if got.len() > expected.len() {
        return Err(Violation::new(
            if fatal_at.is_some() { "dead-statement-reached-shim" } else { "callback-extra" },
            format!("implementation made an extra callback {}; model predicts the history {} here", cb_short(got[n]), if fatal_at.is_some() { "ends the connection" } else { "is over" }),
        ));
    }
    if got.len() < expected.len() {
        return Err(Violation::new("callback-missing", format!("model predicts callback {}, implementation made none (run_on returned {})", cb_short(&expected[n]), o.res.short())));
    }
    match fatal_at {
        Some(k) => {
            st.bump("histories_ending_in_refusal");
            if !o.res.is_err() {
                if lenient {
                    // refused with an ERR reply instead of ending the connection: also fine, as
                    // long as the command was answered by exactly one ERR and nothing shifted
                    let d = decode_all(delivered(&o), &conv, &s.last_seq, n_cmds + 1, false).map_err(|e| Violation::new("reply-decode", e))?;
                    return match &d.replies[k][..] {
                        [Unit::Err(_)] => Ok(None),
                        other => Err(Violation::new("undecodable-execute-served", format!("an execution that reuses types although none were bound was answered by {} unit(s) that are not a single ERR", other.len()))),
                    };
                }
                return Err(Violation::new("refusal-not-an-error", format!("action {} must end the connection with an error, run_on returned {}", k, o.res.short())));
            }
            let d = decode_all(&o.sim.out[..o.sim.flushed], &conv, &s.last_seq, k, true).map_err(|e| Violation::new("reply-decode", e))?;
            trailing_is_at_most_one_err(&d).map_err(|e| Violation::new("stray-output-after-refusal", e))?;
            Ok(None)
        }
        None => {
            if !o.res.is_ok() {
                return Err(Violation::new("result-not-ok", format!("run_on returned {} for a history the model accepts", o.res.short())));
            }
            decode_all(delivered(&o), &conv, &s.last_seq, n_cmds + 1, false).map_err(|e| Violation::new("reply-decode", e))?;
            Ok(Some(reg))
        }
    }
}

pub fn hist_json(h: &[Action]) -> J {
    json!(h.iter().map(|a| a.short()).collect::<Vec<_>>())
}

/// every history of exactly `depth` actions over the alphabet, after a fixed prefix
pub struct Tree {
    pub label: String,
    pub prefix: Vec<Action>,
    pub alpha: Vec<Action>,
    pub depth: usize,
}

impl Tree {
    fn hist(&self, idx: u64) -> Vec<Action> {
        let d = digits(idx, &vec![self.alpha.len() as u64; self.depth]);
        let mut h = self.prefix.clone();
        h.extend(d.iter().map(|i| self.alpha[*i as usize]));
        h
    }
}

impl Family for Tree {
    fn ambient(&self, idx: u64) -> u64 {
        crate::engine::rot(idx)
    }
    fn name(&self) -> String {
        format!("{}-tree-depth-{}", self.label, self.depth)
    }
    fn len(&self) -> u64 {
        (self.alpha.len() as u64).pow(self.depth as u32)
    }
    fn run(&self, idx: u64, st: &mut Stats) -> Result<(), Violation> {
        let h = self.hist(idx);
        // histories that continue after a connection-ending action duplicate a shorter one
        let mut reg = Registry::default();
        for (step, a) in h.iter().enumerate() {
            let p = encode(&reg, a, step);
            let r = reg.route(&p);
            if (r == Routed::Fatal || r == Routed::Refused) && step + 1 < h.len() {
                st.bump("pruned_duplicates");
                st.skipped += 1;
                return Ok(());
            }
        }
        st.nontrivial += 1;
        classify(&h, st);
        run_history(&h, st).map(|_| ())
    }
    fn describe(&self, idx: u64) -> J {
        hist_json(&self.hist(idx))
    }
}

/// The history tree again with the statement ids renamed: the shim hands out ids of its own
/// choosing, so every history must behave the same whether the two statements are called 1 and 2
/// or 300 and 100, 2^32-1 and 0, 65536 and 65537 (ids far apart, close together, in descending
/// order, beyond 8/12/16/24 bits). Index = (id map, history).
pub struct IdTree {
    pub label: String,
    pub alpha: Vec<Action>,
    pub depth: usize,
    pub maps: Vec<[u32; 3]>,
}

pub fn id_maps() -> Vec<[u32; 3]> {
    vec![[300, 100, 200], [100, 300, 7], [70_000, 3, 4], [u32::MAX, 0, 1], [256, 0, 512], [4096, 4095, 1], [65_536, 65_537, 1 << 24], [0x0100_0001, 1, 0x0001_0001]]
}

fn rename(a: &Action, m: &[u32; 3]) -> Action {
    let f = |id: u32| if (1..=3).contains(&id) { m[(id - 1) as usize] } else { id };
    match *a {
        Action::Prepare { id, n, ok } => Action::Prepare { id: f(id), n, ok },
        Action::Exec { id, bind, null_first, shim_ignores } => Action::Exec { id: f(id), bind, null_first, shim_ignores },
        Action::Long { id, param, chunk } => Action::Long { id: f(id), param, chunk },
        Action::Close { id } => Action::Close { id: f(id) },
    }
}

impl IdTree {
    fn hist(&self, idx: u64) -> Vec<Action> {
        let per = (self.alpha.len() as u64).pow(self.depth as u32);
        let m = &self.maps[(idx / per) as usize];
        let d = digits(idx % per, &vec![self.alpha.len() as u64; self.depth]);
        d.iter().map(|i| rename(&self.alpha[*i as usize], m)).collect()
    }
}

impl Family for IdTree {
    fn ambient(&self, idx: u64) -> u64 {
        crate::engine::rot(idx)
    }
    fn name(&self) -> String {
        format!("{}-tree-depth-{}-with-renamed-ids", self.label, self.depth)
    }
    fn len(&self) -> u64 {
        (self.alpha.len() as u64).pow(self.depth as u32) * self.maps.len() as u64
    }
    fn run(&self, idx: u64, st: &mut Stats) -> Result<(), Violation> {
        let h = self.hist(idx);
        let mut reg = Registry::default();
        for (step, a) in h.iter().enumerate() {
            let p = encode(&reg, a, step);
            let r = reg.route(&p);
            if (r == Routed::Fatal || r == Routed::Refused) && step + 1 < h.len() {
                st.skipped += 1;
                return Ok(());
            }
        }
        st.nontrivial += 1;
        st.bump("histories_with_renamed_ids");
        run_history(&h, st).map(|_| ())
    }
    fn describe(&self, idx: u64) -> J {
        hist_json(&self.hist(idx))
    }
}

fn classify(h: &[Action], st: &mut Stats) {
    let mut seen_exec_bind: HashMap<u32, bool> = HashMap::new();
    let mut pending_long: HashMap<u32, bool> = HashMap::new();
    let mut closed: HashMap<u32, bool> = HashMap::new();
    for a in h {
        match a {
            Action::Exec { id, bind, .. } => {
                if *bind == Bind::Reuse && seen_exec_bind.get(id) == Some(&true) {
                    st.bump("reuse_after_bind");
                }
                if *bind != Bind::Reuse {
                    seen_exec_bind.insert(*id, true);
                }
                if pending_long.get(id) == Some(&true) {
                    st.bump("execute_with_pending_long_data");
                }
                if closed.get(id) == Some(&true) {
                    st.bump("execute_after_close");
                }
                pending_long.insert(*id, false);
            }
            Action::Long { id, .. } => {
                pending_long.insert(*id, true);
            }
            Action::Close { id } => {
                closed.insert(*id, true);
                seen_exec_bind.insert(*id, false);
                pending_long.insert(*id, false);
            }
            Action::Prepare { id, ok, .. } => {
                if *ok {
                    if seen_exec_bind.contains_key(id) || closed.contains_key(id) {
                        st.bump("re_prepare");
                    }
                    closed.insert(*id, false);
                    seen_exec_bind.insert(*id, false);
                    pending_long.insert(*id, false);
                }
            }
        }
    }
}

fn canon(reg: &Registry) -> String {
    format!("{:?}", reg.stmts)
}

/// BFS over reference-model states. Every transition (state, action) is validated by re-running
/// the implementation on witness(state)+action; every state keeps two witnesses.
pub struct Bfs {
    pub label: String,
    pub prefix: Vec<Action>,
    pub alpha: Vec<Action>,
    pub max_depth: usize,
    pub max_long: usize,
    pub max_states: usize,
}

impl Family for Bfs {
    fn name(&self) -> String {
        format!("{}-bfs", self.label)
    }
    fn len(&self) -> u64 {
        1
    }
    fn run(&self, _idx: u64, st: &mut Stats) -> Result<(), Violation> {
        // state -> (witness 1, optional witness 2)
        let mut seen: HashMap<String, (Vec<Action>, Option<Vec<Action>>)> = HashMap::new();
        let mut init = Stats::default();
        let start = run_history(&self.prefix, &mut init)?.expect("prefix must be accepted");
        seen.insert(canon(&start), (self.prefix.clone(), None));
        let mut frontier: Vec<String> = vec![canon(&start)];
        let mut transitions = 0u64;
        let mut depth = 0;
        let mut capped = false;
        while !frontier.is_empty() && depth < self.max_depth {
            depth += 1;
            // expand every frontier state from both witnesses, in parallel
            let work: Vec<(Vec<Action>, bool)> = frontier
                .iter()
                .flat_map(|k| {
                    let (w1, w2) = &seen[k];
                    let mut v = vec![(w1.clone(), true)];
                    if let Some(w2) = w2 {
                        v.push((w2.clone(), false));
                    }
                    v
                })
                .collect();
            let results: Vec<Result<(Stats, Vec<(String, Vec<Action>)>), Violation>> = work
                .par_iter()
                .map(|(w, primary)| {
                    let mut ls = Stats::default();
                    let mut next = Vec::new();
                    for a in &self.alpha {
                        // cap pending long data so the state space stays finite
                        if let Action::Long { id, param, chunk } = a {
                            let mut reg = Registry::default();
                            for (s, x) in w.iter().enumerate() {
                                let p = encode(&reg, x, s);
                                reg.route(&p);
                            }
                            let cur = reg.stmts.get(id).and_then(|s| s.long.get(param)).map(|d| d.len()).unwrap_or(0);
                            if cur + chunk_bytes(*chunk).len() > self.max_long {
                                continue;
                            }
                        }
                        let mut h = w.clone();
                        h.push(*a);
                        ls.evals += 1;
                        match run_history(&h, &mut ls) {
                            Ok(Some(reg)) => {
                                if *primary {
                                    next.push((canon(&reg), h));
                                }
                            }
                            Ok(None) => {}
                            Err(mut v) => {
                                v.msg = format!("history {:?}: {}", h.iter().map(|a| a.short()).collect::<Vec<_>>(), v.msg);
                                v.detail = hist_json(&h);
                                return Err(v);
                            }
                        }
                    }
                    Ok((ls, next))
                })
                .collect();
            let mut new_frontier = Vec::new();
            for r in results {
                let (ls, next) = r?;
                transitions += ls.evals;
                st.transitions += ls.transitions;
                for (k, v) in ls.counters {
                    st.add(k, v);
                }
                for (k, h) in next {
                    match seen.get_mut(&k) {
                        None => {
                            if seen.len() >= self.max_states {
                                capped = true;
                                continue;
                            }
                            seen.insert(k.clone(), (h, None));
                            new_frontier.push(k);
                        }
                        Some((w1, w2)) => {
                            // remember a second, different way of reaching the state
                            if *w1 != h && w2.is_none() {
                                *w2 = Some(h);
                                st.bump("states_with_two_witnesses");
                            }
                        }
                    }
                }
            }
            frontier = new_frontier;
        }
        st.add("bfs_states", seen.len() as u64);
        st.add("bfs_transitions_validated", transitions);
        st.add("bfs_depth", depth as u64);
        if capped {
            st.bump("bfs_state_cap_hit");
        }
        st.nontrivial += transitions;
        st.evals += transitions;
        Ok(())
    }
    fn describe(&self, _idx: u64) -> J {
        json!({"bfs_from": hist_json(&self.prefix), "alphabet": self.alpha.iter().map(|a| a.short()).collect::<Vec<_>>(), "max_depth": self.max_depth, "max_pending_long_bytes_per_param": self.max_long})
    }
}

/// explicit (long) histories: state that must survive hundreds of commands or statements
pub struct Histories {
    pub label: String,
    pub hists: Vec<(String, Vec<Action>)>,
}

impl Family for Histories {
    fn ambient(&self, idx: u64) -> u64 {
        crate::engine::rot(idx)
    }
    fn name(&self) -> String {
        format!("{}-long-histories", self.label)
    }
    fn len(&self) -> u64 {
        self.hists.len() as u64
    }
    fn run(&self, idx: u64, st: &mut Stats) -> Result<(), Violation> {
        let (label, h) = &self.hists[idx as usize];
        st.nontrivial += 1;
        st.bump("long_histories");
        run_history(h, st).map(|_| ()).map_err(|mut v| {
            v.msg = format!("{}: {}", label, v.msg);
            v
        })
    }
    fn describe(&self, idx: u64) -> J {
        let (label, h) = &self.hists[idx as usize];
        json!({"history": label, "commands": h.len(), "first": hist_json(&h[..h.len().min(6)]), "last": hist_json(&h[h.len().saturating_sub(4)..])})
    }
}

fn ex(id: u32, bind: Bind) -> Action {
    Action::Exec { id, bind, null_first: false, shim_ignores: 0 }
}

/// many open statements; many prepare/close cycles next to a long-lived statement
pub fn scale_lifecycle() -> Vec<(String, Vec<Action>)> {
    let mut v = Vec::new();
    for n in [8u32, 255, 256, 257, 300, 1000] {
        let mut h: Vec<Action> = (1..=n).map(|id| Action::Prepare { id, n: 1, ok: true }).collect();
        h.push(ex(1, Bind::A));
        h.push(ex(n, Bind::C));
        h.push(ex(n / 2 + 1, Bind::B));
        h.push(ex(1, Bind::Reuse));
        h.push(Action::Close { id: 2 });
        h.push(ex(n, Bind::Reuse));
        h.push(ex(2, Bind::A)); // closed: must end the connection
        v.push((format!("{} open statements, then execute the oldest, the newest and a closed one", n), h));
    }
    for k in [6usize, 255, 256, 257, 600] {
        let mut h = vec![Action::Prepare { id: 1, n: 1, ok: true }, ex(1, Bind::D)];
        for _ in 0..k {
            h.push(Action::Prepare { id: 2, n: 2, ok: true });
            h.push(ex(2, Bind::A));
            h.push(Action::Close { id: 2 });
        }
        h.push(ex(1, Bind::Reuse));
        h.push(Action::Long { id: 2, param: 0, chunk: 1 }); // closed: must end the connection
        v.push((format!("one long-lived statement next to {} prepare/execute/close cycles", k), h));
    }
    // statements with many parameters: close, re-prepare (same or another id, fewer or more
    // parameters) and an execution that tries to reuse types that were never bound
    for (n1, n2) in [(9usize, 9usize), (10, 10), (12, 2), (12, 12), (40, 41), (300, 10)] {
        for same_id in [true, false] {
            let id2 = if same_id { 1 } else { 2 };
            let mut h = vec![Action::Prepare { id: 1, n: n1, ok: true }, ex(1, Bind::A), ex(1, Bind::Reuse), Action::Close { id: 1 }];
            h.push(Action::Prepare { id: id2, n: n2, ok: true });
            h.push(ex(id2, Bind::Reuse)); // nothing bound since the prepare: must not reach the shim
            v.push((format!("a statement of {} parameters bound, closed; {} re-prepared with {} parameters and executed without types", n1, if same_id { "the same id" } else { "another id" }, n2), h));
            let mut h = vec![Action::Prepare { id: 1, n: n1, ok: true }, ex(1, Bind::A), Action::Close { id: 1 }];
            h.push(Action::Prepare { id: id2, n: n2, ok: true });
            h.push(ex(id2, Bind::C));
            h.push(ex(id2, Bind::Reuse));
            v.push((format!("a statement of {} parameters bound, closed; {} re-prepared with {} parameters, bound with other types, reused", n1, if same_id { "the same id" } else { "another id" }, n2), h));
        }
    }
    v
}

/// a large volume of long data that is discarded by re-preparing the still-open id (never
/// executed, never closed), then ordinary use: nothing may have been counted against the client
pub fn scale_volume() -> Vec<(String, Vec<Action>)> {
    let mut v = Vec::new();
    for rounds in [8usize] {
        let mut h = vec![Action::Prepare { id: 1, n: 1, ok: true }, Action::Prepare { id: 2, n: 2, ok: true }];
        for _ in 0..rounds {
            h.push(Action::Long { id: 1, param: 0, chunk: 6 });
            h.push(Action::Prepare { id: 1, n: 1, ok: true });
        }
        h.push(Action::Long { id: 2, param: 1, chunk: 1 });
        h.push(ex(2, Bind::C));
        h.push(Action::Long { id: 1, param: 0, chunk: 2 });
        h.push(ex(1, Bind::C));
        h.push(Action::Close { id: 1 });
        v.push((format!("{} x 15 MB of long data discarded by re-preparing the open id, then small long data and executions", rounds), h));
    }
    v
}

/// many statements each with its own type table; long rebind/reuse histories
pub fn scale_types() -> Vec<(String, Vec<Action>)> {
    let binds = [Bind::A, Bind::B, Bind::C, Bind::D, Bind::E];
    let mut v = Vec::new();
    for n in [4u32, 256, 257, 300] {
        let mut h: Vec<Action> = (1..=n).map(|id| Action::Prepare { id, n: 2, ok: true }).collect();
        for id in 1..=n {
            h.push(ex(id, binds[(id % 5) as usize]));
        }
        for id in 1..=n {
            h.push(ex(id, Bind::Reuse));
        }
        h.push(ex(1, Bind::Reuse));
        v.push((format!("{} statements bound with different type tables, then every one reused", n), h));
    }
    for len in [160usize, 700, 3000] {
        let mut h: Vec<Action> = (1..=4).map(|id| Action::Prepare { id, n: 2, ok: true }).collect();
        for id in 1..=4 {
            h.push(ex(id, binds[id as usize]));
        }
        for i in 0..len {
            let id = 1 + ((i * 7 + i / 5) % 4) as u32;
            let bind = if i % 5 == 0 { binds[(i / 5) % 5] } else { Bind::Reuse };
            h.push(Action::Exec { id, bind, null_first: i % 11 == 0, shim_ignores: (i % 13 == 0) as u8 });
        }
        v.push((format!("4 statements, {} executions mixing rebinds and reuses", len), h));
    }
    v
}

/// counts at which 16-bit counters wrap (and one beyond); thorough adds the neighbours and multiples
fn wrap_counts(quick: bool) -> Vec<usize> {
    if quick {
        vec![65_536, 65_537]
    } else {
        vec![65_535, 65_536, 65_537, 70_000, 131_072, 196_608]
    }
}

/// one unit repeated 2^16 times and more on one statement, then the observation that a wrapped
/// counter would spoil: executions after a delivery of long data; chunks before one execution
pub fn wraps_long_data(quick: bool) -> Vec<(String, Vec<Action>)> {
    let mut v = Vec::new();
    for e in wrap_counts(quick) {
        let mut h = vec![Action::Prepare { id: 1, n: 2, ok: true }, Action::Prepare { id: 2, n: 2, ok: true }];
        h.push(Action::Long { id: 1, param: 0, chunk: 1 });
        h.push(ex(1, Bind::C));
        for _ in 0..e {
            h.push(ex(1, Bind::Reuse));
        }
        h.push(ex(2, Bind::C));
        h.push(Action::Long { id: 1, param: 1, chunk: 2 });
        h.push(ex(1, Bind::Reuse));
        h.push(ex(1, Bind::C));
        v.push((format!("long data delivered once, then {} inline executions of the same statement, then long data again", e), h));
    }
    for n in wrap_counts(quick) {
        for np in [1usize, 2] {
            let mut h = vec![Action::Prepare { id: 1, n: np, ok: true }];
            for i in 0..n {
                h.push(Action::Long { id: 1, param: (i % np) as u16, chunk: if i % 3 == 0 { 0 } else { 2 } });
            }
            h.push(ex(1, Bind::C));
            h.push(ex(1, Bind::Reuse));
            h.push(Action::Long { id: 1, param: 0, chunk: 1 });
            h.push(ex(1, Bind::Reuse));
            v.push((format!("{} empty and one-byte chunks for {} parameter(s) of one statement, then executions", n, np), h));
        }
    }
    v
}

/// 2^16 executions (reuses with an occasional rebind) of one statement next to another, and
/// 2^16 rebinds
pub fn wraps_types(quick: bool) -> Vec<(String, Vec<Action>)> {
    let binds = [Bind::A, Bind::B, Bind::C, Bind::D, Bind::E];
    let mut v = Vec::new();
    for e in wrap_counts(quick) {
        let mut h = vec![Action::Prepare { id: 1, n: 2, ok: true }, Action::Prepare { id: 2, n: 2, ok: true }, ex(1, Bind::E), ex(2, Bind::B)];
        for _ in 0..e {
            h.push(ex(1, Bind::Reuse));
        }
        h.push(ex(2, Bind::Reuse));
        h.push(ex(1, Bind::Reuse));
        h.push(ex(1, Bind::D));
        h.push(ex(1, Bind::Reuse));
        v.push((format!("two statements bound differently, {} reuses of the first, then both reused and the first rebound", e), h));
        let mut h = vec![Action::Prepare { id: 1, n: 2, ok: true }, Action::Prepare { id: 2, n: 2, ok: true }, ex(2, Bind::B)];
        for i in 0..e {
            h.push(ex(1, binds[i % 5]));
        }
        h.push(ex(1, Bind::Reuse));
        h.push(ex(2, Bind::Reuse));
        v.push((format!("{} rebinds of one statement cycling through five type tables, then reuses", e), h));
    }
    v
}

/// 2^16 statements opened / prepare-close cycles / closes of unknown ids, then the lifetime rules
pub fn wraps_lifecycle(quick: bool) -> Vec<(String, Vec<Action>)> {
    let mut v = Vec::new();
    for k in wrap_counts(quick) {
        let mut h = vec![Action::Prepare { id: 1, n: 1, ok: true }, ex(1, Bind::D)];
        for i in 0..k {
            let id = 2 + (i % 3) as u32;
            h.push(Action::Prepare { id, n: 1 + i % 2, ok: true });
            h.push(Action::Close { id });
        }
        h.push(ex(1, Bind::Reuse));
        h.push(Action::Prepare { id: 2, n: 2, ok: true });
        h.push(ex(2, Bind::A));
        h.push(Action::Close { id: 2 });
        h.push(ex(2, Bind::A)); // closed: must end the connection
        v.push((format!("one long-lived statement next to {} prepare/close cycles", k), h));
    }
    let n = if quick { 65_537u32 } else { 70_000 };
    let mut h: Vec<Action> = (1..=n).map(|id| Action::Prepare { id, n: 1, ok: true }).collect();
    h.push(ex(1, Bind::A));
    h.push(ex(n, Bind::C));
    h.push(ex(65_536, Bind::B));
    h.push(Action::Close { id: 1 });
    h.push(ex(65_537, Bind::A));
    h.push(ex(1, Bind::A)); // closed: must end the connection
    v.push((format!("{} open statements, then the first, the last, number 65536 and 65537, and a closed one", n), h));
    v
}

/// long data followed by hundreds of inline executions
pub fn scale_long_data() -> Vec<(String, Vec<Action>)> {
    let mut v = Vec::new();
    for e in [8usize, 255, 256, 257, 600] {
        let mut h = vec![Action::Prepare { id: 1, n: 2, ok: true }, Action::Prepare { id: 2, n: 2, ok: true }];
        h.push(Action::Long { id: 1, param: 0, chunk: 1 });
        h.push(ex(1, Bind::C));
        for i in 0..e {
            h.push(ex(1, if i % 50 == 49 { Bind::A } else { Bind::Reuse }));
            if i % 97 == 96 {
                h.push(ex(2, Bind::C));
            }
        }
        h.push(Action::Long { id: 1, param: 1, chunk: 2 });
        h.push(Action::Long { id: 1, param: 1, chunk: 1 });
        h.push(ex(1, Bind::C));
        h.push(ex(1, Bind::Reuse));
        v.push((format!("long data, then {} inline executions of the same statement, then long data again", e), h));
    }
    // many chunks streamed alternately to several parameters of one statement
    for (np, n) in [(2usize, 2usize), (2, 31), (2, 32), (2, 33), (2, 34), (2, 40), (2, 64), (3, 33), (3, 100), (2, 300), (3, 1000)] {
        let mut h = vec![Action::Prepare { id: 1, n: np, ok: true }, Action::Prepare { id: 2, n: 2, ok: true }];
        for i in 0..n {
            h.push(Action::Long { id: 1, param: (i % np) as u16, chunk: 1 + (i % 2) as u8 });
        }
        h.push(ex(1, Bind::C));
        h.push(ex(1, Bind::Reuse));
        v.push((format!("{} chunks streamed round-robin to {} parameters, then execute twice", n, np), h));
    }
    // statement ids that agree in their low 8 / 16 / 24 bits (or differ only in the top bit): long
    // data for one, the other executed / closed / re-prepared first
    for (a, b) in [(1u32, 257u32), (1, 65537), (0, 65536), (5, 5 + (1 << 24)), (1, 1 + (1 << 31)), (0xffff, 0x1ffff), (u32::MAX, u32::MAX - (1 << 16))] {
        for variant in 0..3 {
            let mut h = vec![Action::Prepare { id: a, n: 2, ok: true }, Action::Prepare { id: b, n: 2, ok: true }];
            h.push(Action::Long { id: a, param: 0, chunk: 1 });
            h.push(Action::Long { id: b, param: 1, chunk: 2 });
            match variant {
                0 => h.push(ex(b, Bind::C)),
                1 => {
                    h.push(Action::Close { id: b });
                    h.push(Action::Prepare { id: b, n: 2, ok: true });
                    h.push(ex(b, Bind::C));
                }
                _ => {
                    h.push(Action::Prepare { id: b, n: 2, ok: true });
                    h.push(ex(b, Bind::A));
                }
            }
            h.push(ex(a, Bind::C));
            h.push(ex(a, Bind::Reuse));
            h.push(ex(b, Bind::Reuse));
            v.push((format!("statements {} and {}: long data for both, then {} the second first", a, b, ["execute", "close, re-prepare and execute", "re-prepare and execute"][variant]), h));
        }
    }
    // buffers of some size abandoned by CLOSE / emptied by EXECUTE, then small data again
    for big in [3u8, 4, 5] {
        let size = chunk_bytes(big).len();
        let mut h = vec![Action::Prepare { id: 1, n: 2, ok: true }, Action::Long { id: 1, param: 0, chunk: big }, Action::Close { id: 1 }];
        h.push(Action::Prepare { id: 2, n: 2, ok: true });
        h.push(Action::Long { id: 2, param: 1, chunk: 1 });
        h.push(ex(2, Bind::C));
        h.push(Action::Prepare { id: 1, n: 2, ok: true });
        h.push(Action::Long { id: 1, param: 0, chunk: 2 });
        h.push(ex(1, Bind::C));
        v.push((format!("{} bytes of long data abandoned by CLOSE, then small long data for a new and for the re-prepared statement", size), h));
        let mut h = vec![Action::Prepare { id: 1, n: 2, ok: true }, Action::Prepare { id: 2, n: 2, ok: true }, Action::Long { id: 1, param: 0, chunk: big }, ex(1, Bind::C)];
        h.push(ex(1, Bind::C));
        h.push(ex(1, Bind::Reuse));
        h.push(Action::Long { id: 1, param: 1, chunk: big });
        h.push(Action::Long { id: 2, param: 1, chunk: 2 });
        h.push(ex(1, Bind::Reuse));
        h.push(ex(2, Bind::C));
        h.push(ex(1, Bind::C));
        v.push((format!("{} bytes of long data delivered, then inline executions of the same statement, then long data for the other parameter", size), h));
    }
    v
}
