//! C01 — inbound reassembly under every chunking.
//! Schedules = sets of cut positions in the client byte stream (a read never crosses a cut).

use super::common::*;
use crate::conv::*;
use crate::engine::*;
use crate::refwire::*;
use crate::shim::*;
use serde_json::{json, Value as J};
use std::sync::Arc;

pub struct Scen {
    pub label: String,
    pub conv: Conv,
    pub stream: Arc<Vec<u8>>,
    pub ends: Vec<usize>,
    pub headers: Vec<usize>,
    pub last_seq: Vec<u8>,
    pub expected: Vec<Cb>,
    /// candidate cut positions
    pub cands: Vec<usize>,
    /// None = all subsets of cands (bitmask); Some(list) = explicit list of cut sets
    pub sets: Option<Vec<Vec<usize>>>,
    /// every read returns at most this many bytes
    pub uniform: usize,
    /// Some(k): the cut sets are all subsets of `cands` with at most k elements (enumerated by
    /// unranking, nothing is materialised)
    pub upto: Option<usize>,
}

fn binom(n: u64, k: u64) -> u64 {
    if k > n {
        return 0;
    }
    let mut r = 1u64;
    for i in 0..k {
        r = r * (n - i) / (i + 1);
    }
    r
}

/// the `rank`-th subset (sizes ascending, lexicographic within a size) of {0..n} with <= k elements
fn unrank_subset(n: u64, k: usize, mut rank: u64) -> Vec<usize> {
    let mut size = 0u64;
    while rank >= binom(n, size) {
        rank -= binom(n, size);
        size += 1;
        assert!(size as usize <= k);
    }
    let mut out = Vec::with_capacity(size as usize);
    let mut from = 0u64;
    let mut left = size;
    while left > 0 {
        // choose the smallest element e >= from such that rank falls into the block starting with e
        let mut e = from;
        loop {
            let block = binom(n - e - 1, left - 1);
            if rank < block {
                break;
            }
            rank -= block;
            e += 1;
        }
        out.push(e as usize);
        from = e + 1;
        left -= 1;
    }
    out
}

impl Scen {
    pub fn new(label: String, conv: Conv, expected: Vec<Cb>) -> Self {
        let s = conv.stream();
        Scen {
            label,
            conv,
            stream: Arc::new(s.bytes),
            ends: s.ends,
            headers: s.headers,
            last_seq: s.last_seq,
            expected,
            cands: Vec::new(),
            sets: None,
            uniform: usize::MAX,
            upto: None,
        }
    }
    pub fn count(&self) -> u64 {
        if let Some(k) = self.upto {
            return (0..=k as u64).map(|j| binom(self.cands.len() as u64, j)).sum();
        }
        match &self.sets {
            Some(l) => l.len() as u64,
            None => 1u64 << self.cands.len(),
        }
    }
    pub fn cuts(&self, k: u64) -> Vec<usize> {
        if let Some(m) = self.upto {
            return unrank_subset(self.cands.len() as u64, m, k).into_iter().map(|i| self.cands[i]).collect();
        }
        match &self.sets {
            Some(l) => l[k as usize].clone(),
            None => self
                .cands
                .iter()
                .enumerate()
                .filter(|(i, _)| k & (1u64 << i) != 0)
                .map(|(_, p)| *p)
                .collect(),
        }
    }
}

pub struct ChunkFamily {
    pub name: String,
    pub scens: Vec<Scen>,
    pub offsets: Vec<u64>,
    pub threads: Option<usize>,
}

impl ChunkFamily {
    pub fn new(name: &str, scens: Vec<Scen>) -> Self {
        let mut offsets = Vec::with_capacity(scens.len() + 1);
        let mut acc = 0u64;
        for s in &scens {
            offsets.push(acc);
            acc += s.count();
        }
        offsets.push(acc);
        ChunkFamily {
            name: name.to_string(),
            scens,
            offsets,
            threads: None,
        }
    }
    fn locate(&self, idx: u64) -> (&Scen, u64) {
        let i = match self.offsets.binary_search(&idx) {
            Ok(i) => {
                // skip empty scenarios sharing the same offset
                let mut i = i;
                while self.offsets[i + 1] == self.offsets[i] {
                    i += 1;
                }
                i
            }
            Err(i) => i - 1,
        };
        (&self.scens[i], idx - self.offsets[i])
    }
}

impl Family for ChunkFamily {
    fn name(&self) -> String {
        self.name.clone()
    }
    fn len(&self) -> u64 {
        *self.offsets.last().unwrap()
    }
    fn max_threads(&self) -> Option<usize> {
        self.threads
    }
    fn run(&self, idx: u64, st: &mut Stats) -> Result<(), Violation> {
        let (sc, k) = self.locate(idx);
        let cuts = sc.cuts(k);
        let (in_hdr, spans) = chunking_nontrivial(&cuts, &sc.headers, &sc.ends);
        if in_hdr {
            st.bump("reads_ending_inside_a_header");
        }
        if spans {
            st.bump("reads_spanning_two_messages");
        }
        if in_hdr || spans {
            st.nontrivial += 1;
        }
        let mut sim = sim_for(&sc.stream, cuts);
        sim.log_ops = false;
        sim.uniform_read = sc.uniform;
        if sc.uniform != usize::MAX {
            st.bump("uniform_read_sizes");
            st.nontrivial += 1;
        }
        let o = run_conn(sim, ConnCfg::new(std_behave()));
        st.transitions += (o.sim.n_reads + o.sim.n_writes + o.sim.n_flushes) as u64;
        if o.sim.n_reads > 3 {
            st.bump("executions_with_more_than_3_reads");
        }
        check_exact(&o, &sc.conv, &sc.last_seq, &sc.expected).map(|_| ())
    }
    fn describe(&self, idx: u64) -> J {
        let (sc, k) = self.locate(idx);
        json!({
            "conversation": sc.label,
            "stream_len": sc.stream.len(),
            "message_ends": sc.ends,
            "cuts": sc.cuts(k),
            "stream_hex": hex(&sc.stream[..sc.stream.len().min(256)]),
        })
    }
}

const KINDS: [u8; 3] = [COM_QUERY, COM_STMT_PREPARE, COM_INIT_DB];

fn small_cmd(kind: u8, text: &[u8]) -> (ClientCmd, Cb) {
    let t = String::from_utf8(text.to_vec()).unwrap();
    let cb = match kind {
        COM_QUERY => Cb::Query(t),
        COM_STMT_PREPARE => Cb::Prepare(t),
        _ => Cb::Init(t),
    };
    (ClientCmd::new(with_byte(kind, text)), cb)
}

/// all sequences of 1..=3 commands whose payload lengths are in {1,2,3}; kinds rotate
fn small_sequences(max_n: usize, max_len: usize) -> Vec<Scen> {
    let mut v = Vec::new();
    let mut serial = 0usize;
    for ncmd in 1..=3usize {
        let combos = max_len.pow(ncmd as u32);
        for c in 0..combos {
            let mut lens = Vec::new();
            let mut x = c;
            for _ in 0..ncmd {
                lens.push(1 + x % max_len);
                x /= max_len;
            }
            let n: usize = lens.iter().map(|l| 4 + l).sum();
            if n > max_n {
                continue;
            }
            let mut cmds = Vec::new();
            let mut exp = vec![auth_cb()];
            let mut letter = b'a';
            for (j, l) in lens.iter().enumerate() {
                let kind = KINDS[(serial + j) % 3];
                let text: Vec<u8> = (0..l - 1)
                    .map(|_| {
                        letter += 1;
                        letter
                    })
                    .collect();
                let (cmd, cb) = small_cmd(kind, &text);
                cmds.push(cmd);
                exp.push(cb);
            }
            serial += 1;
            let conv = Conv::new(cmds);
            let mut sc = Scen::new(format!("H + {} small commands, payload lengths {:?}", ncmd, lens), conv, exp);
            let hs = sc.ends[0];
            sc.cands = (hs..sc.stream.len()).collect();
            v.push(sc);
        }
    }
    v
}

fn phase_boundary(quick: bool) -> Vec<Scen> {
    let mut v = Vec::new();
    // all compositions of the last 12 (quick: 9) handshake bytes plus the first command
    let (cmd, cb) = small_cmd(COM_QUERY, b"xy");
    let conv = Conv::new(vec![cmd]);
    let mut sc = Scen::new("tail of H + first command, all compositions".into(), conv, vec![auth_cb(), cb]);
    let hs = sc.ends[0];
    let back = if quick { 9 } else { 12 };
    sc.cands = (hs - back..sc.stream.len()).collect();
    v.push(sc);
    // every schedule with <= 3 cuts anywhere in H + 3 commands
    let mut cmds = Vec::new();
    let mut exp = vec![auth_cb()];
    for (i, t) in [&b"SELECT a"[..], &b"pq"[..], &b"db"[..]].iter().enumerate() {
        let (c, cb) = small_cmd(KINDS[i], t);
        cmds.push(c);
        exp.push(cb);
    }
    let conv = Conv::new(cmds);
    let mut sc = Scen::new("H + 3 commands, every schedule with <= 3 cuts".into(), conv, exp);
    let all: Vec<usize> = (1..sc.stream.len()).collect();
    sc.sets = Some(subsets_upto(&all, if quick { 2 } else { 3 }));
    v.push(sc);
    v
}

fn ascii_pattern(n: usize, salt: usize) -> Vec<u8> {
    (0..n).map(|i| b'a' + ((i * 7 + i / 251 + salt) % 26) as u8).collect()
}

/// payload sizes that put the buffer-growth thresholds (4096, 8192) next to message boundaries
fn thresholds(quick: bool) -> Vec<Scen> {
    let mut v = Vec::new();
    let hs_len = default_handshake().len();
    let mut sizes = Vec::new();
    for base in [4096usize, 8192] {
        // framed command A ends at hs_len + 4 + size
        let lo = base - hs_len - 4;
        let span: i64 = if quick { 2 } else { 8 };
        for d in -span..=span {
            sizes.push((lo as i64 + d) as usize);
        }
    }
    if !quick {
        for d in 0..17 {
            sizes.push(2040 + d);
        }
    }
    for s in sizes {
        let a = ascii_pattern(s - 1, 1);
        let (c1, cb1) = small_cmd(COM_QUERY, &a);
        let (c2, cb2) = small_cmd(COM_STMT_PREPARE, b"k");
        let (c3, cb3) = small_cmd(COM_QUERY, b"zz");
        let conv = Conv::new(vec![c1, c2, c3]);
        let mut sc = Scen::new(format!("H + query of {} payload bytes + 2 small commands, <=2 cuts near thresholds", s), conv, vec![auth_cb(), cb1, cb2, cb3]);
        let mut cands: Vec<usize> = Vec::new();
        for h in sc.headers.clone() {
            for d in -1i64..=5 {
                let p = h as i64 + d;
                if p > 0 && (p as usize) < sc.stream.len() {
                    cands.push(p as usize);
                }
            }
        }
        for t in [4096usize, 8192] {
            for d in -1i64..=1 {
                let p = (t as i64 + d) as usize;
                if p < sc.stream.len() {
                    cands.push(p);
                }
            }
        }
        cands.sort();
        cands.dedup();
        sc.sets = Some(subsets_upto(&cands, 2));
        v.push(sc);
    }
    v
}

/// text beyond ASCII (2-, 3- and 4-byte UTF-8 sequences) in every command that carries text, behind
/// each kind of client handshake (layouts, capability sets, character-set bytes incl. latin1), under
/// every single cut: the bytes the shim sees are the bytes the client sent, whatever the client
/// said about itself
fn texts_behind_handshakes() -> Vec<Scen> {
    let mut v = Vec::new();
    for k in 0..N_HANDSHAKE_VARIANTS {
        let (hs, what) = handshake_variant(k);
        let mut cmds = Vec::new();
        let mut exp = vec![auth_cb()];
        for (i, t) in ["SELECT 'caf\u{e9}'", "\u{65e5}\u{672c}\u{8a9e} \u{20ac}", "db_\u{fc}ber", "x\u{1F600}y"].iter().enumerate() {
            let (c, cb) = small_cmd(KINDS[i % 3], t.as_bytes());
            cmds.push(c);
            exp.push(cb);
        }
        let mut conv = Conv::new(cmds);
        conv.handshake = hs;
        let mut sc = Scen::new(format!("{} + four commands with text beyond ASCII, one cut", what), conv, exp);
        let all: Vec<usize> = (1..sc.stream.len()).collect();
        sc.sets = Some(subsets_upto(&all, 1));
        v.push(sc);
    }
    v
}

/// multi-packet payloads around k*(2^24-1)
fn fragmented(quick: bool) -> Vec<Scen> {
    let mut v = Vec::new();
    let sizes: Vec<usize> = if quick {
        vec![MAXP, 2 * MAXP + 9, 4 * MAXP + 1]
    } else {
        vec![MAXP - 1, MAXP, MAXP + 1, 2 * MAXP - 1, 2 * MAXP, 2 * MAXP + 1, 2 * MAXP + 9, 3 * MAXP, 4 * MAXP, 4 * MAXP + 4]
    };
    for (vi, size) in sizes.iter().enumerate() {
        for variant in 0..3 {
            if quick && variant == 1 && vi == 1 {
                continue;
            }
            // requests of five packets (the advertised 64 MiB limit): one variant, few cuts
            if *size > 3 * MAXP && variant != 0 {
                continue;
            }
            let (conv, exp, label) = if variant == 2 {
                // the large command is the last thing the client sends: nothing behind it can
                // make up for bytes the reader believes are still missing
                let text = ascii_pattern(size - 1, 4);
                let (c1, cb1) = small_cmd(COM_QUERY, &text);
                (Conv::new(vec![c1]), vec![auth_cb(), cb1], format!("query payload of {} bytes, then end of stream", size))
            } else if variant == 0 {
                // one query whose text fills the payload
                let text = ascii_pattern(size - 1, 3);
                let (c1, cb1) = small_cmd(COM_QUERY, &text);
                let (c2, cb2) = small_cmd(COM_QUERY, b"after");
                (Conv::new(vec![c1, c2]), vec![auth_cb(), cb1, cb2], format!("query payload of {} bytes, then a small query", size))
            } else {
                // long data of 0xFF bytes (forged headers everywhere), surfaced by an execute
                let (p, cbp) = small_cmd(COM_STMT_PREPARE, b"id=1 p=1");
                let data = vec![0xffu8; size - 7];
                let long = ClientCmd::new(cmd_long(1, 0, &data));
                let ex = ClientCmd::new(cmd_execute(
                    1,
                    0,
                    1,
                    &exec_block(
                        &[ExecParam {
                            ty: 0xfc,
                            unsigned: false,
                            wire: None,
                            long: true,
                        }],
                        true,
                    ),
                ));
                let cbx = Cb::Execute {
                    id: 1,
                    params: vec![(0xfc, PVal::Bytes(data))],
                };
                (
                    Conv::new(vec![p, long, ex]),
                    vec![auth_cb(), cbp, cbx],
                    format!("long-data payload of {} bytes of 0xFF, then execute", size),
                )
            };
            let mut sc = Scen::new(label, conv, exp);
            let mut cands: Vec<usize> = Vec::new();
            // the headers of the big message and of the message after it
            for h in sc.headers.clone() {
                if h < sc.ends[0] {
                    continue;
                }
                for d in -1i64..=5 {
                    let p = h as i64 + d;
                    if p > 0 && (p as usize) < sc.stream.len() {
                        cands.push(p as usize);
                    }
                }
            }
            if variant == 2 {
                let end = sc.stream.len();
                for d in 1..=6 {
                    cands.push(end - d);
                }
            }
            cands.sort();
            cands.dedup();
            if *size > 3 * MAXP {
                let big: Vec<usize> = cands.iter().copied().filter(|p| *p > 3 * MAXP).step_by(3).collect();
                sc.sets = Some(subsets_upto(&big, if quick { 0 } else { 1 }));
            } else if quick {
                // keep the positions around the continuation headers only
                let big: Vec<usize> = cands.iter().copied().filter(|p| *p > MAXP / 2).collect();
                sc.sets = Some(subsets_upto(&big, 1));
            } else {
                let big: Vec<usize> = cands.iter().copied().filter(|p| *p > MAXP / 2).collect();
                sc.sets = Some(subsets_upto(&big, 2));
            }
            v.push(sc);
        }
    }
    // the fragments' sequence ids wrap inside the request (255, 0 and 254, 255, 0): the legal
    // successor of 255 is 0, under every single cut around the continuation headers
    for (size, first_id) in if quick { vec![(MAXP + 9, 255u8), (2 * MAXP + 9, 254)] } else { vec![(MAXP, 255u8), (MAXP + 9, 255), (2 * MAXP + 9, 254), (2 * MAXP + 9, 255), (3 * MAXP, 253)] } {
        let text = ascii_pattern(size - 1, 6);
        let (c1, cb1) = small_cmd(COM_QUERY, &text);
        let (c2, cb2) = small_cmd(COM_QUERY, b"after");
        let mut sc = Scen::new(format!("query payload of {} bytes whose first fragment carries sequence id {}, then a small query", size, first_id), Conv::new(vec![c1.seq(first_id), c2]), vec![auth_cb(), cb1, cb2]);
        let mut cands: Vec<usize> = Vec::new();
        for h in sc.headers.clone() {
            if h < sc.ends[0] {
                continue;
            }
            for d in -1i64..=5 {
                let p = h as i64 + d;
                if p > 0 && (p as usize) < sc.stream.len() {
                    cands.push(p as usize);
                }
            }
        }
        cands.sort();
        cands.dedup();
        let big: Vec<usize> = cands.iter().copied().filter(|p| *p > MAXP / 2).collect();
        sc.sets = Some(subsets_upto(&big, 1));
        v.push(sc);
    }
    if !quick {
        // a command of 65 maximal packets and a tail (1.09 GB; beyond the 2^30 bytes a MySQL
        // server would accept, but the framing rules know no such limit), whole and with one cut
        // inside the last packets
        let size = 65 * MAXP + 10;
        let text = ascii_pattern(size - 1, 9);
        let (c1, cb1) = small_cmd(COM_QUERY, &text);
        let (c2, cb2) = small_cmd(COM_QUERY, b"after");
        let mut sc = Scen::new(format!("query payload of {} bytes (66 packets), then a small query", size), Conv::new(vec![c1, c2]), vec![auth_cb(), cb1, cb2]);
        let end = sc.ends[1];
        sc.sets = Some(vec![vec![], vec![end - 9]]);
        v.push(sc);
    }
    v
}

/// trains of long-data chunks of mixed sizes for one parameter (the one command kind that gets no
/// reply, so a client sends several back to back), then the execute that surfaces them and a
/// query: every triple of sizes from a ladder, coalesced and with one cut around every command
/// boundary; and two chunks that are each fragmented (one of them a payload of exactly 2^24-1
/// bytes), with one cut around every packet header and message end
fn chunk_trains(quick: bool) -> Vec<Scen> {
    let blk = exec_block(&[ExecParam { ty: 0xfc, unsigned: false, wire: None, long: true }], true);
    let mk = |sizes: &[usize], salt: u8| -> (Conv, Vec<Cb>) {
        let (p, cbp) = small_cmd(COM_STMT_PREPARE, b"id=1 p=1");
        let mut cmds = vec![p];
        let mut all = Vec::new();
        for (i, n) in sizes.iter().enumerate() {
            let data: Vec<u8> = (0..*n).map(|k| (k % 251) as u8 ^ salt ^ (i as u8)).collect();
            cmds.push(ClientCmd::new(cmd_long(1, 0, &data)));
            all.extend(data);
        }
        cmds.push(ClientCmd::new(cmd_execute(1, 0, 1, &blk)));
        let (t, cbt) = small_cmd(COM_QUERY, b"tail");
        cmds.push(t);
        (Conv::new(cmds), vec![auth_cb(), cbp, Cb::Execute { id: 1, params: vec![(0xfc, PVal::Bytes(all))] }, cbt])
    };
    let mut v = Vec::new();
    let ladder: Vec<usize> = if quick { vec![10, 4090, 65_536] } else { vec![0, 10, 3000, 4090, 8192, 65_536, 200_000] };
    for a in &ladder {
        for b in &ladder {
            for c in &ladder {
                let (conv, exp) = mk(&[*a, *b, *c], 0);
                let mut sc = Scen::new(format!("PREPARE + long-data chunks of {}, {} and {} bytes + EXECUTE + query", a, b, c), conv, exp);
                let mut cands = Vec::new();
                for e in sc.ends.clone().into_iter().skip(1) {
                    for d in [-1i64, 0, 1, 4] {
                        let p = e as i64 + d;
                        if p > 0 && (p as usize) < sc.stream.len() {
                            cands.push(p as usize);
                        }
                    }
                }
                cands.sort();
                cands.dedup();
                sc.sets = Some(subsets_upto(&cands, 1));
                v.push(sc);
            }
        }
    }
    let big: Vec<[usize; 2]> = if quick { vec![[MAXP + 3, MAXP - 7]] } else { vec![[MAXP + 3, MAXP - 7], [MAXP - 7, MAXP + 3], [MAXP - 8, 2 * MAXP - 7], [100, MAXP + 100]] };
    for pair in big {
        let (conv, exp) = mk(&pair, 0x5a);
        let mut sc = Scen::new(format!("PREPARE + two long-data chunks of {} and {} data bytes (7 more in each payload) + EXECUTE + query", pair[0], pair[1]), conv, exp);
        let mut cands = Vec::new();
        for h in sc.headers.clone().into_iter().chain(sc.ends.clone()) {
            if h <= sc.ends[1] {
                continue;
            }
            for d in -2i64..=5 {
                let p = h as i64 + d;
                if p > 0 && (p as usize) < sc.stream.len() {
                    cands.push(p as usize);
                }
            }
        }
        cands.sort();
        cands.dedup();
        sc.sets = Some(subsets_upto(&cands, 1));
        v.push(sc);
    }
    v
}

/// a multi-packet request *after* an earlier one on the same connection (the reader's buffer has
/// been large once), with a small command in front of it in the same read: bookkeeping that is
/// only right while the pending message starts at the front of the buffer shows here
fn large_after_large(quick: bool) -> Vec<Scen> {
    let mut v = Vec::new();
    for (s1, s2) in if quick { vec![(MAXP + 10, MAXP + 20)] } else { vec![(MAXP + 10, MAXP + 20), (2 * MAXP + 3, MAXP), (MAXP - 1, 2 * MAXP + 9)] } {
        let (c1, cb1) = small_cmd(COM_QUERY, &ascii_pattern(s1 - 1, 3));
        let (c2, cb2) = small_cmd(COM_QUERY, b"between");
        let (c3, cb3) = small_cmd(COM_QUERY, &ascii_pattern(s2 - 1, 11));
        let (c4, cb4) = small_cmd(COM_QUERY, b"after");
        let conv = Conv::new(vec![c1, c2, c3, c4]);
        let mut sc = Scen::new(format!("H + query of {} payload bytes + small query + query of {} payload bytes + small query", s1, s2), conv, vec![auth_cb(), cb1, cb2, cb3, cb4]);
        let e = sc.ends.clone();
        // everything in one read; the first large request in reads of its own and the rest in one;
        // additionally the tail in a read of its own; the small command alone
        sc.sets = Some(vec![vec![], vec![e[1]], vec![e[0], e[1]], vec![e[1], e[3]], vec![e[1], e[2]]]);
        v.push(sc);
    }
    v
}

/// single-packet payloads around 2^15, 2^16, 2^17, 2^20 and a few millions
fn size_classes(quick: bool) -> Vec<Scen> {
    let mut sizes: Vec<usize> = Vec::new();
    for c in [1usize << 15, 1 << 16, 1 << 20] {
        for d in -4i64..=4 {
            sizes.push((c as i64 + d) as usize);
        }
    }
    sizes.extend([12_345, 100_000, (1 << 17) - 1, 1 << 17, 500_000, 3_000_000]);
    if quick {
        sizes.retain(|s| [(1usize << 15) - 3, 1 << 15, (1 << 16) - 1, 1 << 16, (1 << 16) + 1, 100_000, 1 << 20, (1 << 20) + 1, 3_000_000].contains(s));
    }
    let mut v = Vec::new();
    for s in sizes {
        let a = ascii_pattern(s - 1, 5);
        let (c1, cb1) = small_cmd(COM_QUERY, &a);
        let (c2, cb2) = small_cmd(COM_STMT_PREPARE, b"k");
        let (c3, cb3) = small_cmd(COM_QUERY, b"zz");
        let conv = Conv::new(vec![c1, c2, c3]);
        let mut sc = Scen::new(format!("H + query of {} payload bytes + 2 small commands", s), conv, vec![auth_cb(), cb1, cb2, cb3]);
        let mut cands: Vec<usize> = Vec::new();
        for h in sc.headers.clone() {
            for d in [-1i64, 0, 1, 3, 4, 5] {
                let p = h as i64 + d;
                if p > 0 && (p as usize) < sc.stream.len() {
                    cands.push(p as usize);
                }
            }
        }
        for t in [4096usize, 32768, 65536] {
            if t < sc.stream.len() {
                cands.push(t);
            }
        }
        cands.sort();
        cands.dedup();
        sc.sets = Some(subsets_upto(&cands, if quick { 1 } else { 2 }));
        v.push(sc);
    }
    v
}

/// hundreds of commands delivered in few reads
fn deep_pipeline(quick: bool) -> Vec<Scen> {
    let n = if quick { 300 } else { 1200 };
    let mut cmds = Vec::new();
    let mut exp = vec![auth_cb()];
    for i in 0..n {
        let kind = KINDS[i % 3];
        let text = format!("c{}-{}", i, "x".repeat(i % 23));
        let (c, cb) = small_cmd(kind, text.as_bytes());
        cmds.push(c);
        exp.push(cb);
    }
    let conv = Conv::new(cmds);
    let mut v = Vec::new();
    // one cut at (almost) every position
    let mut sc = Scen::new(format!("H + {} pipelined small commands, one cut", n), conv.clone(), exp.clone());
    let step = if quick { 5 } else { 1 };
    let singles: Vec<Vec<usize>> = std::iter::once(vec![]).chain((1..sc.stream.len()).step_by(step).map(|p| vec![p])).collect();
    sc.sets = Some(singles);
    v.push(sc);
    // uniform read sizes
    for u in [1usize, 2, 3, 5, 7, 64, 1000, 4095, 4096, 4097] {
        let mut sc = Scen::new(format!("H + {} pipelined small commands, reads of at most {} bytes", n, u), conv.clone(), exp.clone());
        sc.sets = Some(vec![vec![]]);
        sc.uniform = u;
        v.push(sc);
    }
    // commands of one uniform framed size s, for every s in 5..=96: however many whole commands
    // a buffer fill of the implementation holds (256 of 16 bytes in 4096, 128 of 64 in 8192, ...),
    // some s makes that number hit a power of two exactly; in one giant read, and with the first
    // read ending 3 bytes into a command
    let m = if quick { 700 } else { 3000 };
    for size in 5usize..=96 {
        let mut cmds = Vec::new();
        let mut exp = vec![auth_cb()];
        for i in 0..m {
            let mut text = format!("{:05}", i % 100_000).into_bytes();
            text.resize(size - 5, b'0' + (i % 10) as u8);
            text.truncate(size - 5);
            let (c, cb) = small_cmd(KINDS[i % 3], &text);
            cmds.push(c);
            exp.push(cb);
        }
        let mut sc = Scen::new(format!("H + {} pipelined commands of {} framed bytes each, whole or with one cut 3 bytes into a command", m, size), Conv::new(cmds), exp);
        let hs = sc.ends[0];
        sc.sets = Some(vec![vec![], vec![hs], vec![hs + 3], vec![hs + size * 256 + 3], vec![hs, hs + size * 257 + 3]]);
        v.push(sc);
    }
    v
}


/// a large command followed by many small ones in the same burst: whatever the reader does to its
/// buffer after the large one (shrinking, compacting, releasing) must not lose what is behind it
fn large_then_many(quick: bool) -> Vec<Scen> {
    let sizes: Vec<usize> = if quick { vec![70_000, 150_000, 600_000, 1_100_000] } else { vec![5_000, 20_000, 70_000, 100_001, 150_000, 300_000, 600_000, 1_100_000, 3_000_000, 9_000_000] };
    let mut v = Vec::new();
    for size in sizes {
        for n in [40usize, 1000] {
            for pre in [false, true] {
                let mut cmds = Vec::new();
                let mut exp = vec![auth_cb()];
                if pre {
                    // something small first, so that the large command does not start the buffer
                    let (c, cb) = small_cmd(COM_STMT_PREPARE, b"pre");
                    cmds.push(c);
                    exp.push(cb);
                }
                let (c, cb) = small_cmd(COM_QUERY, &ascii_pattern(size - 1, 9));
                cmds.push(c);
                exp.push(cb);
                for i in 0..n {
                    let text = format!("f{}-{}", i, "y".repeat(i % 29));
                    let (c, cb) = small_cmd(KINDS[i % 3], text.as_bytes());
                    cmds.push(c);
                    exp.push(cb);
                }
                let conv = Conv::new(cmds);
                let mut sc = Scen::new(format!("{}query of {} payload bytes + {} small commands in one burst", if pre { "a small command + " } else { "" }, size, n), conv, exp);
                let big_idx = if pre { 1 } else { 0 };
                let big_end = sc.ends[big_idx + 1];
                let mut cands: Vec<usize> = vec![big_end - 5, big_end - 1, big_end, big_end + 1, big_end + 3, big_end + 4, big_end + 5];
                for h in sc.headers.iter().filter(|h| **h > big_end).take(3) {
                    cands.extend([*h, *h + 2, *h + 4, *h + 6]);
                }
                for t in [big_end + 4096, big_end + 10_000, sc.stream.len() - 7] {
                    if t < sc.stream.len() {
                        cands.push(t);
                    }
                }
                cands.retain(|c| *c > 0 && *c < sc.stream.len());
                cands.sort();
                cands.dedup();
                let mut sets: Vec<Vec<usize>> = vec![vec![]];
                sets.extend(cands.iter().map(|c| vec![*c]));
                if !quick {
                    for (i, a) in cands.iter().enumerate() {
                        for b in cands.iter().skip(i + 1) {
                            sets.push(vec![*a, *b]);
                        }
                    }
                }
                sc.sets = Some(sets);
                v.push(sc);
            }
        }
    }
    v
}


/// a transient `Interrupted` on one read, under every single cut of a short pipelined stream:
/// the connection may end there (it is an error report) or go on, but whatever reaches the shim
/// must still be the client's commands, in order, byte for byte - never padding or stale bytes
pub struct InterruptedReads {
    scen: Scen,
    max_reads: usize,
}
impl InterruptedReads {
    fn new() -> Self {
        let mut cmds = Vec::new();
        let mut exp = vec![auth_cb()];
        for (i, t) in [&b"SELECT id, name FROM customers WHERE id = 7"[..], &b"prepare me"[..], &b"db"[..], &b"tail"[..]].iter().enumerate() {
            let (c, cb) = small_cmd(KINDS[i % 3], t);
            cmds.push(c);
            exp.push(cb);
        }
        let conv = Conv::new(cmds);
        let scen = Scen::new("H + 4 commands, one cut, Interrupted once at one read".into(), conv, exp);
        InterruptedReads { scen, max_reads: 6 }
    }
}
impl Family for InterruptedReads {
    fn name(&self) -> String {
        "interrupted-once-at-a-read".into()
    }
    fn len(&self) -> u64 {
        (self.scen.stream.len() * self.max_reads) as u64
    }
    fn run(&self, idx: u64, st: &mut Stats) -> Result<(), Violation> {
        let cut = (idx as usize) / self.max_reads;
        let k = (idx as usize) % self.max_reads;
        let cuts = if cut == 0 { vec![] } else { vec![cut] };
        // absolute op index of the k-th read of the undisturbed run under this cut
        let mut sim = sim_for(&self.scen.stream, cuts.clone());
        let base = run_conn(sim, ConnCfg::new(std_behave()));
        let at = match base.sim.ops.iter().enumerate().filter(|(_, o)| o.kind == crate::sim::OpKind::Read).map(|x| x.0).nth(k) {
            Some(a) => a,
            None => {
                st.skipped += 1;
                return Ok(());
            }
        };
        st.nontrivial += 1;
        st.bump("interrupted_reads");
        sim = sim_for(&self.scen.stream, cuts.clone());
        sim.fault = Some(crate::sim::Fault { at_op: at, kind: crate::sim::FaultKind::Error(std::io::ErrorKind::Interrupted), persistent: false });
        let o = run_conn(sim, ConnCfg::new(std_behave()));
        st.transitions += o.sim.n_reads as u64;
        let what = format!("cut {:?}, Interrupted once at read #{} (operation {})", cuts, k, at);
        if let ConnResult::Panic(l, m) = &o.res {
            return Err(Violation::new(panic_key(l, m), format!("{}: run_on panicked at {}: {}", what, l, m)));
        }
        let got: Vec<&Cb> = o.log.iter().map(|x| &x.1).collect();
        for (i, g) in got.iter().enumerate() {
            if self.scen.expected.get(i) != Some(*g) {
                return Err(Violation::new("foreign-bytes-reached-the-shim", format!("{}: callback {} is {}, the client sent {}", what, i, cb_short(g), self.scen.expected.get(i).map(cb_short).unwrap_or_else(|| "nothing more".into()))));
            }
        }
        if o.res.is_ok() && got.len() != self.scen.expected.len() {
            return Err(Violation::new("callback-missing", format!("{}: run_on returned Ok after {} of {} callbacks", what, got.len(), self.scen.expected.len())));
        }
        Ok(())
    }
    fn describe(&self, idx: u64) -> J {
        json!({"conversation": self.scen.label, "cut": idx as usize / self.max_reads, "interrupted_read": idx as usize % self.max_reads})
    }
}

/// Conversations of every command kind: all histories of `depth` commands over PREPARE, long data,
/// EXECUTE (with the long data or inline), CLOSE, two queries of different length and PING, as a
/// well-behaved client encodes them, each under every set of <= `max_cuts` cut positions behind the
/// handshake. What the shim sees must not depend on where the reads end, whatever the commands
/// are and whatever came before them.
/// walk number `idx` of `depth` commands: (names, commands incl. a final query, expected callbacks
/// incl. authentication); None if the history would end the connection (C10's subject)
pub fn kind_walk(depth: usize, idx: u64) -> Option<(Vec<String>, Vec<ClientCmd>, Vec<Cb>)> {
    use super::model::{Registry, Routed};
    use super::registry::{encode, Action, Bind};
    #[derive(Clone)]
    enum W {
        A(Action),
        Raw(&'static str, Vec<u8>),
    }
    let alpha = vec![
        W::A(Action::Prepare { id: 1, n: 1, ok: true }),
        W::A(Action::Long { id: 1, param: 0, chunk: 1 }),
        W::A(Action::Exec { id: 1, bind: Bind::C, null_first: false, shim_ignores: 0 }),
        W::A(Action::Close { id: 1 }),
        W::Raw("query", with_byte(COM_QUERY, b"SELECT 42")),
        W::Raw("long query", with_byte(COM_QUERY, b"SELECT a, b, c FROM t WHERE d = 'e' LIMIT 9")),
        W::Raw("ping", vec![COM_PING]),
    ];
    let n = alpha.len() as u64;
    if idx >= n.pow(depth as u32) {
        return None;
    }
    let d = digits(idx, &vec![n; depth]);
    let mut reg = Registry::default();
    let mut cmds = Vec::new();
    let mut exp = vec![auth_cb()];
    let mut names = Vec::new();
    for (step, i) in d.iter().enumerate() {
        let (name, p) = match &alpha[*i as usize] {
            W::A(a) => (a.short(), encode(&reg, a, step)),
            W::Raw(nm, p) => (nm.to_string(), p.clone()),
        };
        match reg.route(&p) {
            Routed::Cb(cb) => exp.push(cb),
            Routed::NoCb => {}
            _ => return None,
        }
        names.push(name);
        cmds.push(ClientCmd::new(p));
    }
    // the last command must be one the shim sees, so that a mis-framed tail is visible
    let (c, cb) = small_cmd(COM_QUERY, b"tail");
    cmds.push(c);
    exp.push(cb);
    Some((names, cmds, exp))
}
pub const KIND_WALK_ALPHABET: u64 = 7;

fn kind_walks(depth: usize, max_cuts: usize) -> Vec<Scen> {
    let mut v = Vec::new();
    for idx in 0..KIND_WALK_ALPHABET.pow(depth as u32) {
        let (names, cmds, exp) = match kind_walk(depth, idx) {
            Some(x) => x,
            None => continue,
        };
        let mut sc = Scen::new(format!("H + {:?} + query, every set of <= {} cuts", names, max_cuts), Conv::new(cmds), exp);
        sc.cands = (sc.ends[0] + 1..sc.stream.len()).collect();
        sc.upto = Some(max_cuts);
        v.push(sc);
    }
    v
}

pub fn build(quick: bool) -> Check {
    let small = ChunkFamily::new("small-all-compositions", small_sequences(if quick { 17 } else { 23 }, if quick { 3 } else { 4 }));
    let phase = ChunkFamily::new("handshake-phase-boundary", phase_boundary(quick));
    let thr = ChunkFamily::new("buffer-thresholds", thresholds(quick));
    let mut frag = ChunkFamily::new("fragmented-payloads", fragmented(quick));
    frag.threads = Some(8);
    let sizes = ChunkFamily::new("payload-size-classes", size_classes(quick));
    let mut trains = ChunkFamily::new("long-data-chunk-trains", chunk_trains(quick));
    trains.threads = Some(8);
    let deep = ChunkFamily::new("deep-pipeline", deep_pipeline(quick));
    let ltm = ChunkFamily::new("large-then-many", large_then_many(quick));
    let mut lal = ChunkFamily::new("large-request-after-large-request", large_after_large(quick));
    lal.threads = Some(4);
    let texts = ChunkFamily::new("texts-beyond-ascii-behind-every-handshake", texts_behind_handshakes());
    let mut walks: Vec<Box<dyn Family>> = Vec::new();
    // long sessions of every command kind under small and odd read sizes
    {
        use super::registry::RunOpts;
        let reads = |n: usize| RunOpts { uniform_read: n, ..RunOpts::default() };
        walks.push(Box::new(super::soak::Soak {
            label: "read-sizes",
            lens: super::soak::lens(quick),
            mixes: super::soak::MIXES.to_vec(),
            opts: vec![("reads of 1 byte", reads(1)), ("reads of at most 5 bytes", reads(5)), ("reads of at most 61 bytes", reads(61)), ("reads of at most 4093 bytes", reads(4093)), ("whole reads", reads(usize::MAX)), ("lock-step client, every 97th command split behind its header", RunOpts { lockstep: true, cut_every: 97, ..RunOpts::default() }), ("lock-step client, every 5th command split behind its header", RunOpts { lockstep: true, cut_every: 5, ..RunOpts::default() }), ("lock-step client, one early long command split behind its header, everything else whole", RunOpts { lockstep: true, cut_once: true, ..RunOpts::default() })],
            big: vec![(70_001, super::soak::Mix::Even, 3), (66_000, super::soak::Mix::Text, 2), (70_001, super::soak::Mix::Text, 5), (70_001, super::soak::Mix::Even, 5), (66_000, super::soak::Mix::Text, 6), (70_001, super::soak::Mix::Text, 7), (66_100, super::soak::Mix::Text, 7), (70_001, super::soak::Mix::Even, 7)],
        }));
    }
    for (d, c) in if quick { vec![(5, 1), (3, 2)] } else { vec![(6, 1), (4, 2), (3, 3)] } {
        walks.push(Box::new(ChunkFamily::new(&format!("command-kind-walks-depth-{}-cuts-{}", d, c), kind_walks(d, c))));
    }
    Check {
        id: "C01",
        level: "model_checking",
        rule: "every execution is one complete run of the real run_on over a scripted transport; schedules are sets of cut positions no read() may cross (all 2^n sets for streams of <= 17 (quick) / 23 (thorough) command bytes; all sets of <= 2-3 cuts for longer streams; <= 1-2 cuts around fragment headers for 16-32 MiB payloads; single-packet payloads around 2^15, 2^16, 2^17, 2^20 and up to 3 MB with <= 1-2 cuts; trains of three long-data chunks of every combination of sizes from a ladder (10..65536, thorough 0..200000) for one parameter, then EXECUTE and a query, coalesced and with one cut around every command boundary, and two chunks that are each fragmented (one payload of exactly 2^24-1 bytes) with one cut around every packet header and message end; 300/1200 pipelined commands with a cut at (every fifth /) every position and under uniform read sizes 1..4097; a multi-packet request behind an earlier multi-packet request and a small command on the same connection, coalesced in five ways; a command of 70 KB..1.1 MB (thorough 5 KB..9 MB) followed by 40 / 1000 small commands in the same burst with <= 1 (thorough 2) cuts around the end of the large command and the next headers; every single cut of H + 4 commands with ErrorKind::Interrupted returned once by each read (what reaches the shim must stay a byte-exact prefix); every history of 5 (thorough: 6) commands over PREPARE / long data / EXECUTE / CLOSE / two queries / PING as a well-behaved client encodes it, followed by a query, under every single cut behind the handshake, histories of 3 (4) under every pair of cuts (thorough: of 3 under every triple). Long scripted sessions: 130..4099 (thorough: up to 131101) ordinary commands of every kind on one connection in up to six mixes (even, prepare/close churn with growing ids, executions, long-data chunks, unanswered commands, text and library-answered commands) under several client/transport behaviours (pipelined, request ids advancing by 7, lock-step, 1..4093-byte reads, 7/11-byte writes), generated by a fixed rule, kept valid with the registry model and judged on the complete trace (callbacks with arguments, result, strict decode of every reply with its sequence ids). Non-trivial = some read ends strictly inside a packet header or one read spans two messages.".into(),
        assumptions: vec![
            "1-byte reads over multi-megabyte payloads are not run (the implementation re-parses per read); they are covered exhaustively at small sizes".into(),
            "the oracle is the shim's callback log plus a strict client-side decode of all replies".into(),
        ],
        bounds: json!({"small_max_command_bytes": if quick {17} else {23}, "phase_max_cuts": if quick {2} else {3}, "threshold_max_cuts": 2, "fragment_max_cuts": if quick {1} else {2}}),
        exhaustive: true,
        caps_hit: vec![],
        families: {
            let mut f: Vec<Box<dyn Family>> = vec![Box::new(small), Box::new(phase), Box::new(thr), Box::new(frag), Box::new(sizes), Box::new(trains), Box::new(deep), Box::new(ltm), Box::new(lal), Box::new(texts), Box::new(InterruptedReads::new())];
            f.extend(walks);
            f
        },
        required: vec!["soak_sessions", "interrupted_reads", "reads_ending_inside_a_header", "reads_spanning_two_messages", "executions_with_more_than_3_reads", "uniform_read_sizes"],
    }
}

#[cfg(test)]
mod tests {
    use super::*;
    #[test]
    fn unranking_enumerates_every_small_subset_once() {
        for n in 0..9u64 {
            for k in 0..4usize {
                let total: u64 = (0..=k as u64).map(|j| binom(n, j)).sum();
                let mut seen = std::collections::BTreeSet::new();
                for r in 0..total {
                    let s = unrank_subset(n, k, r);
                    assert!(s.len() <= k && s.windows(2).all(|w| w[0] < w[1]) && s.iter().all(|e| (*e as u64) < n));
                    assert!(seen.insert(s));
                }
                assert_eq!(seen.len() as u64, total);
            }
        }
    }
}
