//! "Aftermath" histories, shared by the result-side properties (C06, C07, C09, C13, C14, C15):
//! a command in which a write was refused (or a writer was abandoned half-way) must leave nothing
//! behind. Step 1 dirties whatever per-connection state an implementation may keep (row staging
//! buffers, NULL bitmaps, counters); the steps after it are ordinary exchanges of every reply
//! kind, each decoded strictly and compared with what the shim declared / wrote / reported.
//!
//! The wave-6 seeded changes showed that this is where "allocation reuse" refactors go wrong: the
//! refused first cell of a binary row leaves its bitmap bytes staged, and the next resultset,
//! column definition or ERR packet inherits them.

use super::common::*;
use crate::conv::*;
use crate::engine::*;
use crate::refwire::*;
use crate::shim::*;
use msql_srv::{Column, ColumnFlags, ColumnType, ErrorKind};
use serde_json::{json, Value as J};
use std::sync::Arc;

pub struct Aftermath {
    pub prop: &'static str,
}

const N1: [usize; 4] = [1, 3, 7, 9];
const CLOSES: [&str; 6] = ["replacement value, rest of the row, finish", "finish", "finish_error", "drop", "finish_one + completed", "finish_one + a zero-column resultset of 3 rows"];
const BADS: [&str; 3] = ["NULL into NOT NULL", "string into an integer column", "integer beyond the column"];
const FOLLOW: [&str; 7] = [
    "binary resultset of 2/8/16 columns with a NULL",
    "text resultset",
    "error",
    "zero-column resultset of 2 rows, then one of 1 row",
    "PREPARE reply with 2 parameters and 2 columns",
    "completed(7,9)",
    "binary zero-column resultset of 4 rows",
];

fn bad_val(k: usize) -> Val {
    match k {
        0 => Val::Null,
        1 => Val::Str("text".into()),
        _ => Val::I64(i64::MAX),
    }
}

fn int_cols(n: usize, not_null: bool) -> Arc<Vec<Column>> {
    Arc::new((0..n).map(|i| col(&format!("n{}", i), ColumnType::MYSQL_TYPE_LONG, if not_null { ColumnFlags::NOT_NULL_FLAG } else { ColumnFlags::empty() })).collect())
}

struct Case {
    text_mode: bool,
    n1: usize,
    pre_rows: usize,
    pos: usize,
    bad: usize,
    close: usize,
    rot: usize,
    n2: usize,
}

impl Aftermath {
    fn radices() -> Vec<u64> {
        vec![2, N1.len() as u64, 2, 3, BADS.len() as u64, CLOSES.len() as u64, FOLLOW.len() as u64, 3]
    }
    fn case(idx: u64) -> Case {
        let d = digits(idx, &Self::radices());
        let n1 = N1[d[1] as usize];
        let pos = match d[3] {
            0 => 0,
            1 => 1.min(n1 - 1),
            _ => n1 - 1,
        };
        Case {
            text_mode: d[0] == 1,
            n1,
            pre_rows: d[2] as usize,
            pos,
            bad: d[4] as usize,
            close: d[5] as usize,
            rot: d[6] as usize,
            n2: [2usize, 8, 16][d[7] as usize],
        }
    }
}

impl Family for Aftermath {
    fn name(&self) -> String {
        "aftermath-of-a-refused-write".into()
    }
    fn len(&self) -> u64 {
        Self::radices().iter().product()
    }
    fn ambient(&self, idx: u64) -> u64 {
        rot(idx)
    }
    fn run(&self, idx: u64, st: &mut Stats) -> Result<(), Violation> {
        let c = Self::case(idx);
        // closing without a replacement is only meaningful while the row is still empty
        if c.close != 0 && c.pos != 0 {
            st.skipped += 1;
            return Ok(());
        }
        st.nontrivial += 1;
        st.bump("aftermath_histories");
        let cols1 = int_cols(c.n1, true);
        // text mode has no typed columns: what can be refused there is a generic value that does
        // not denote a date / time of day (refused before or after part of it was formatted)
        let bad = if c.text_mode {
            Val::Myc(match c.bad {
                0 => mysql_common::value::Value::Date(2021, 13, 1, 0, 0, 0, 0),
                1 => mysql_common::value::Value::Date(2024, 2, 29, 24, 0, 0, 0),
                _ => mysql_common::value::Value::Date(2016, 12, 31, 23, 59, 60, 7),
            })
        } else {
            bad_val(c.bad)
        };
        // --- step 1: the dirtying command -------------------------------------------------
        let mut p1 = vec![WOp::Start(cols1.clone())];
        for r in 0..c.pre_rows {
            p1.push(WOp::WriteRow((0..c.n1).map(|i| Val::I32(100 * (r as i32 + 1) + i as i32)).collect()));
        }
        for i in 0..c.pos {
            p1.push(WOp::WriteCol(Val::I32(10 + i as i32)));
        }
        p1.push(WOp::WriteColOr(bad, Val::I32(-7)));
        let c0: Arc<Vec<Column>> = Arc::new(Vec::new());
        match c.close {
            0 => {
                for i in c.pos + 1..c.n1 {
                    p1.push(WOp::WriteCol(Val::I32(10 + i as i32)));
                }
                p1.push(WOp::EndRow);
                p1.push(WOp::Finish);
            }
            1 => p1.push(WOp::Finish),
            2 => p1.push(WOp::FinishError(ErrorKind::ER_LOCK_DEADLOCK, b"deadlock found".to_vec())),
            3 => p1.push(WOp::Drop),
            4 => {
                p1.push(WOp::FinishOne);
                p1.push(WOp::Completed(3, 4));
            }
            _ => {
                p1.push(WOp::FinishOne);
                p1.push(WOp::Start(c0.clone()));
                p1.extend([WOp::EndRow, WOp::EndRow, WOp::EndRow, WOp::Finish]);
            }
        }
        // with close != 0 the WriteColOr's replacement must not be written: model that by a
        // program whose "or" value is only used for close == 0
        if c.close != 0 {
            let k = 1 + c.pre_rows + c.pos;
            if let WOp::WriteColOr(a, _) = p1[k].clone() {
                p1[k] = WOp::WriteColRefused(a);
            }
        }
        // --- the exchanges after it -------------------------------------------------------
        let cols2 = int_cols(c.n2, false);
        let tcols = Arc::new(vec![col("s", ColumnType::MYSQL_TYPE_VAR_STRING, ColumnFlags::empty()), col("i", ColumnType::MYSQL_TYPE_LONG, ColumnFlags::empty())]);
        let pcols = Arc::new(vec![
            Column { table: "t".into(), column: "a".into(), coltype: ColumnType::MYSQL_TYPE_LONG, colflags: ColumnFlags::empty() },
            Column { table: "t".into(), column: "b".into(), coltype: ColumnType::MYSQL_TYPE_VAR_STRING, colflags: ColumnFlags::NOT_NULL_FLAG },
        ]);
        let pparams = param_cols(2);
        let row_a1: Vec<Val> = (0..c.n2).map(|i| if i == 1 { Val::Null } else { Val::I32(1000 + i as i32) }).collect();
        let row_a2: Vec<Val> = (0..c.n2).map(|i| Val::I32(-(i as i32) - 1)).collect();
        let mut cmds = vec![ClientCmd::new(with_byte(COM_STMT_PREPARE, b"first"))];
        let mut behaviours: Vec<Behavior> = vec![Behavior::PrepReply { id: 1, params: param_cols(0), cols: param_cols(0) }];
        let exec = || ClientCmd::new(cmd_execute(1, 0, 1, &[]));
        if c.text_mode {
            cmds.push(q(b"dirty"));
        } else {
            cmds.push(exec());
        }
        behaviours.push(Behavior::Prog(Arc::new(p1.clone())));
        let mut kinds: Vec<(usize, usize)> = Vec::new();
        for j in 0..FOLLOW.len() {
            let f = (j + c.rot) % FOLLOW.len();
            match f {
                0 => {
                    cmds.push(exec());
                    behaviours.push(Behavior::Prog(Arc::new(vec![WOp::Start(cols2.clone()), WOp::WriteRow(row_a1.clone()), WOp::WriteRow(row_a2.clone()), WOp::Finish])));
                    kinds.push((0, f));
                }
                1 => {
                    cmds.push(q(b"text"));
                    behaviours.push(Behavior::Prog(Arc::new(vec![WOp::Start(tcols.clone()), WOp::WriteRow(vec![Val::Str("h\u{e9}llo".into()), Val::I32(-5)]), WOp::Finish])));
                    kinds.push((1, f));
                }
                2 => {
                    cmds.push(q(b"err"));
                    behaviours.push(Behavior::Prog(Arc::new(vec![WOp::Error(ErrorKind::ER_BAD_TABLE_ERROR, b"Unknown table 't'".to_vec())])));
                    kinds.push((2, f));
                }
                3 => {
                    cmds.push(q(b"z2"));
                    behaviours.push(Behavior::Prog(Arc::new(vec![WOp::Start(c0.clone()), WOp::EndRow, WOp::EndRow, WOp::Finish])));
                    kinds.push((3, f));
                    cmds.push(q(b"z1"));
                    behaviours.push(Behavior::Prog(Arc::new(vec![WOp::Start(c0.clone()), WOp::EndRow, WOp::Finish])));
                    kinds.push((4, f));
                }
                4 => {
                    cmds.push(ClientCmd::new(with_byte(COM_STMT_PREPARE, b"second")));
                    behaviours.push(Behavior::PrepReply { id: 5, params: pparams.clone(), cols: pcols.clone() });
                    kinds.push((5, f));
                }
                5 => {
                    cmds.push(q(b"done"));
                    behaviours.push(Behavior::Prog(Arc::new(vec![WOp::Completed(7, 9)])));
                    kinds.push((6, f));
                }
                _ => {
                    cmds.push(exec());
                    behaviours.push(Behavior::Prog(Arc::new(vec![WOp::Start(c0.clone()), WOp::EndRow, WOp::EndRow, WOp::EndRow, WOp::EndRow, WOp::Finish])));
                    kinds.push((7, f));
                }
            }
        }
        cmds.push(ping());
        let conv = Conv::new(cmds);
        let s = conv.stream();
        let stream = Arc::new(s.bytes);
        let mut sim = sim_for(&stream, vec![]);
        sim.log_ops = false;
        let mut k = 0usize;
        let bh = behaviours;
        let o = run_conn(
            sim,
            ConnCfg::new(Box::new(move |_, cb| match cb {
                Cb::Prepare(_) | Cb::Query(_) | Cb::Execute { .. } => {
                    let b = bh[k].clone();
                    k += 1;
                    b
                }
                _ => Behavior::Silent,
            })),
        );
        st.transitions += conv.cmds.len() as u64;
        let what = format!(
            "{} dirtying command with {} column(s), {} complete row(s), {} refused at column {}, then {}; follow-ups starting with '{}' ({} columns)",
            if c.text_mode { "text" } else { "binary" },
            c.n1,
            c.pre_rows,
            if c.text_mode { ["generic date with month 13", "generic datetime with hour 24", "generic datetime with second 60"][c.bad] } else { BADS[c.bad] },
            c.pos,
            CLOSES[c.close],
            FOLLOW[c.rot],
            c.n2
        );
        let key = |k: &str| format!("aftermath:{}", k);
        if let ConnResult::Panic(l, m) = &o.res {
            return Err(Violation::new(panic_key(l, m), format!("{}: run_on panicked at {}: {}", what, l, m)));
        }
        // the dirtying command: the bad value must have been refused; if the implementation then
        // refuses to go on (any other writer call fails) the history ends there, which is allowed
        let dirty_cb = 2;
        let calls: Vec<&CallRes> = o.calls.iter().filter(|x| x.cb == dirty_cb).collect();
        let refused = calls.iter().any(|x| x.res.as_ref().err().map(|e| e == "first alternative refused" || e == "refused as expected").unwrap_or(false));
        if !refused {
            // accepting the value is the business of the value properties, not of this family
            st.bump("aftermath_value_accepted");
            return Ok(());
        }
        let hard = calls.iter().any(|x| x.res.as_ref().err().map(|e| e != "first alternative refused" && e != "refused as expected").unwrap_or(false));
        if hard {
            st.bump("aftermath_recovery_not_supported");
            if o.res.is_ok() {
                return Err(Violation::new(key("writer-error-swallowed"), format!("{}: a writer call failed, the shim returned the error, run_on returned Ok", what)));
            }
            return match decode_all(delivered(&o), &conv, &s.last_seq, 1, true) {
                Ok(_) => Ok(()),
                Err(e) if e.contains("server output ends where") => Ok(()),
                Err(e) => Err(Violation::new(key("refused-but-emitted"), format!("{}: {}", what, e))),
            };
        }
        st.bump("aftermath_recovered");
        if !o.res.is_ok() {
            return Err(Violation::new(key("result-not-ok"), format!("{}: every writer call after the refusal succeeded, yet run_on returned {}", what, o.res.short())));
        }
        let d = decode_all(delivered(&o), &conv, &s.last_seq, conv.cmds.len(), false).map_err(|e| Violation::new(key("reply-decode"), format!("{}: {}", what, e)))?;
        // reply to the dirtying command
        let cell = |v: i32| if c.text_mode { Cell::Text(v.to_string().into_bytes()) } else { Cell::Bin(BinVal::Int(v as i64)) };
        let mut want_rows: Vec<Vec<Cell>> = (0..c.pre_rows).map(|r| (0..c.n1).map(|i| cell(100 * (r as i32 + 1) + i as i32)).collect()).collect();
        if c.close == 0 {
            want_rows.push((0..c.n1).map(|i| if i == c.pos { cell(-7) } else { cell(10 + i as i32) }).collect());
        }
        let r1 = &d.replies[1];
        let rows_ok = |u: &Unit, more: bool, err: Option<u16>| -> bool {
            match u {
                Unit::ResultSet { cols, rows, end } => {
                    cols.len() == c.n1
                        && *rows == want_rows
                        && match (end, err) {
                            (Ok(stt), None) => (stt & STATUS_MORE_RESULTS != 0) == more,
                            (Err(e), Some(code)) => e.code == code,
                            _ => false,
                        }
                }
                _ => false,
            }
        };
        let ok1 = match c.close {
            0 | 1 | 3 => r1.len() == 1 && rows_ok(&r1[0], false, None),
            2 => r1.len() == 1 && rows_ok(&r1[0], false, Some(ErrorKind::ER_LOCK_DEADLOCK as u16)),
            4 => r1.len() == 2 && rows_ok(&r1[0], true, None) && matches!(&r1[1], Unit::Ok { rows: 3, id: 4, .. }),
            _ => r1.len() == 2 && rows_ok(&r1[0], true, None) && matches!(&r1[1], Unit::Ok { rows: 3, id: 0, .. }),
        };
        if !ok1 {
            return Err(Violation::new(key("dirtying-reply"), format!("{}: its own reply is {:?}", what, r1.iter().map(|u| format!("{:?}", u).chars().take(160).collect::<String>()).collect::<Vec<_>>())));
        }
        // the exchanges after it
        for (j, (kind, f)) in kinds.iter().enumerate() {
            let r = &d.replies[2 + j];
            let bin = |v: &Val| match v {
                Val::Null => Cell::Null,
                Val::I32(x) => Cell::Bin(BinVal::Int(*x as i64)),
                _ => unreachable!(),
            };
            let (ok, field): (bool, &str) = match kind {
                0 => (
                    match &r[..] {
                        [Unit::ResultSet { cols, rows, end: Ok(_) }] => cols.len() == c.n2 && cols.iter().enumerate().all(|(i, cd)| cd.name == format!("n{}", i).as_bytes() && cd.ty == 0x03) && rows.len() == 2 && rows[0] == row_a1.iter().map(bin).collect::<Vec<_>>() && rows[1] == row_a2.iter().map(bin).collect::<Vec<_>>(),
                        _ => false,
                    },
                    "binary-rows",
                ),
                1 => (
                    match &r[..] {
                        [Unit::ResultSet { cols, rows, end: Ok(_) }] => cols.len() == 2 && cols[0].name == b"s" && cols[1].name == b"i" && *rows == vec![vec![Cell::Text("h\u{e9}llo".as_bytes().to_vec()), Cell::Text(b"-5".to_vec())]],
                        _ => false,
                    },
                    "text-rows",
                ),
                2 => (
                    match &r[..] {
                        [Unit::Err(e)] => e.code == ErrorKind::ER_BAD_TABLE_ERROR as u16 && e.state == ErrorKind::ER_BAD_TABLE_ERROR.sqlstate().to_vec() && e.msg == b"Unknown table 't'",
                        _ => false,
                    },
                    "error-packet",
                ),
                3 => (matches!(&r[..], [Unit::Ok { rows: 2, id: 0, .. }]), "zero-column-count"),
                4 => (matches!(&r[..], [Unit::Ok { rows: 1, id: 0, .. }]), "zero-column-count"),
                5 => (
                    match &r[..] {
                        [Unit::PrepareOk { id: 5, params, cols, .. }] => {
                            params.len() == 2 && cols.len() == 2 && cols[0].table == b"t" && cols[0].name == b"a" && cols[0].ty == 0x03 && cols[1].name == b"b" && cols[1].ty == 0xfd && cols[1].flags == ColumnFlags::NOT_NULL_FLAG.bits() && params.iter().enumerate().all(|(i, p)| p.name == format!("p{}", i).as_bytes())
                        }
                        _ => false,
                    },
                    "prepare-metadata",
                ),
                6 => (matches!(&r[..], [Unit::Ok { rows: 7, id: 9, .. }]), "completion-count"),
                _ => (matches!(&r[..], [Unit::Ok { rows: 4, id: 0, .. }]), "zero-column-count"),
            };
            if !ok {
                return Err(Violation::new(
                    key(field),
                    format!("{}: exchange {} after it ('{}') arrives as {:?}", what, j, FOLLOW[*f].chars().take(40).collect::<String>(), r.iter().map(|u| format!("{:?}", u).chars().take(200).collect::<String>()).collect::<Vec<_>>()),
                ));
            }
        }
        let _ = self.prop;
        Ok(())
    }
    fn describe(&self, idx: u64) -> J {
        let c = Self::case(idx);
        json!({
            "dirtying_command": if c.text_mode { "COM_QUERY" } else { "COM_STMT_EXECUTE" },
            "columns": c.n1, "complete_rows_before": c.pre_rows, "refused_value": if c.text_mode { "invalid generic date" } else { BADS[c.bad] }, "at_column": c.pos,
            "then": CLOSES[c.close], "follow_ups_start_with": FOLLOW[c.rot], "binary_follow_up_columns": c.n2,
        })
    }
}
