//! C16 — bound parameter types persist per statement across executions.

use super::registry::*;
use crate::engine::*;
use serde_json::json;

fn alphabet() -> Vec<Action> {
    let mut a = Vec::new();
    for id in [1u32, 2] {
        for bind in [Bind::Reuse, Bind::A, Bind::B, Bind::C, Bind::D, Bind::E, Bind::N] {
            for null_first in [false, true] {
                a.push(Action::Exec { id, bind, null_first, shim_ignores: 0 });
            }
        }
        a.push(Action::Exec { id, bind: Bind::B, null_first: false, shim_ignores: 1 });
        a.push(Action::Exec { id, bind: Bind::C, null_first: false, shim_ignores: 1 });
        // a shim that stops after the first parameter (e.g. it answers with an error as soon as
        // it sees a value it does not like)
        a.push(Action::Exec { id, bind: Bind::D, null_first: false, shim_ignores: 2 });
        a.push(Action::Exec { id, bind: Bind::Reuse, null_first: false, shim_ignores: 2 });
        a.push(Action::Prepare { id, n: 2, ok: true });
        // pending long data must not disturb what an execution binds or what later ones reuse
        a.push(Action::Long { id, param: 1, chunk: 1 });
        // a closed statement's table must die with it: nothing of it may reach a statement prepared
        // afterwards (under the same or another id) or shift what the surviving statement reuses
        a.push(Action::Close { id });
    }
    a
}

pub fn build(quick: bool) -> Check {
    let alpha = alphabet();
    let prefix = vec![Action::Prepare { id: 1, n: 2, ok: true }, Action::Prepare { id: 2, n: 2, ok: true }];
    let mut families: Vec<Box<dyn Family>> = Vec::new();
    for d in 1..=(if quick { 4 } else { 5 }) {
        families.push(Box::new(Tree { label: "bind-reuse".into(), prefix: prefix.clone(), alpha: alpha.clone(), depth: d }));
    }
    if !quick {
        // one level deeper over a core of the alphabet: statement 1 in full, statement 2 with
        // three actions that can interfere (bind, reuse, re-prepare)
        let core: Vec<Action> = alpha
            .iter()
            .copied()
            .filter(|a| match a {
                Action::Exec { id: 1, null_first, .. } => !*null_first,
                Action::Exec { id: 2, bind, null_first: false, shim_ignores: 0 } => matches!(bind, Bind::B | Bind::Reuse),
                Action::Prepare { .. } => true,
                Action::Long { id: 1, .. } => true,
                Action::Close { .. } => true,
                _ => false,
            })
            .collect();
        families.push(Box::new(Tree { label: "bind-reuse-core".into(), prefix: prefix.clone(), alpha: core, depth: 6 }));
    }
    families.push(Box::new(Bfs {
        label: "bind-reuse".into(),
        prefix: prefix.clone(),
        alpha: alpha.clone(),
        max_depth: if quick { 5 } else { 10 },
        max_long: 4,
        max_states: if quick { 2000 } else { 100_000 },
    }));
    families.push(Box::new(Histories { label: "bind-reuse".into(), hists: scale_types() }));
    Check {
        id: "C16",
        level: "model_checking",
        rule: format!("two prepared statements of 2 parameters; histories over {} actions: EXECUTE(id 1|2, reuse | bind LONG | TINY UNSIGNED | VAR_STRING | BIGINT UNSIGNED | LONG UNSIGNED (same type code, other signedness; values have the top bit set) | MYSQL_TYPE_NULL, first parameter NULL or not), executions whose parameters the shim does not look at or of which it reads only the first, long data pending for the second parameter, CLOSE, re-PREPARE. Values are position- and step-dependent so that decoding with another statement's or an older type table, or from a shifted offset, gives a different value. Full tree to depth {} (thorough: depth 6 over a 17-action core) plus BFS over model states with two witnesses. Plus 4..300 statements each with its own table, all reused afterwards, and 4 statements under 160..3000 mixed executions. Oracle: types and values seen by the shim equal the model's (last table bound for that statement).", alpha.len(), if quick {4} else {5}),
        assumptions: vec!["reusing types when none were ever bound ends the history (protocol violation by the client)".into()],
        bounds: json!({"tree_depth": if quick {4} else {5}, "core_tree_depth": if quick {0} else {6}, "alphabet": alpha.len()}),
        exhaustive: true,
        caps_hit: vec![],
        families,
        required: vec!["reuse_after_bind", "re_prepare", "bfs_states", "long_histories"],
    }
}
