//! C16 — bound parameter types persist per statement across executions.

use super::registry::*;
use crate::engine::*;
use serde_json::json;

fn alphabet() -> Vec<Action> {
    let mut a = Vec::new();
    for id in [1u32, 2] {
        for bind in [Bind::Reuse, Bind::A, Bind::B, Bind::C, Bind::D, Bind::E, Bind::N] {
            for null_first in [false, true] {
                a.push(Action::Exec { id, bind, null_first, shim_ignores: 0 });
            }
        }
        a.push(Action::Exec { id, bind: Bind::B, null_first: false, shim_ignores: 1 });
        a.push(Action::Exec { id, bind: Bind::C, null_first: false, shim_ignores: 1 });
        // a shim that stops after the first parameter (e.g. it answers with an error as soon as
        // it sees a value it does not like)
        a.push(Action::Exec { id, bind: Bind::D, null_first: false, shim_ignores: 2 });
        a.push(Action::Exec { id, bind: Bind::Reuse, null_first: false, shim_ignores: 2 });
        a.push(Action::Prepare { id, n: 2, ok: true });
        // pending long data must not disturb what an execution binds or what later ones reuse
        a.push(Action::Long { id, param: 1, chunk: 1 });
        // a closed statement's table must die with it: nothing of it may reach a statement prepared
        // afterwards (under the same or another id) or shift what the surviving statement reuses
        a.push(Action::Close { id });
    }
    a
}

/// More distinct type tables on one connection than a 16-bit handle can number: one statement of
/// five integer parameters, n executions each binding a table never sent before (tables are the
/// base-12 digits of the execution number over six integer codes x signedness), a reuse after every
/// 1000th, and at the end the first tables bound again, each followed by a reuse.
struct DistinctTables {
    ns: Vec<usize>,
}
const TABLE_TYPES: [u8; 6] = [0x01, 0x02, 0x03, 0x08, 0x09, 0x0d];
impl DistinctTables {
    fn width(ty: u8) -> usize {
        match ty {
            0x01 => 1,
            0x02 | 0x0d => 2,
            0x03 | 0x09 => 4,
            _ => 8,
        }
    }
    fn table(k: usize) -> Vec<(u8, bool)> {
        crate::engine::digits(k as u64, &[12; 5]).iter().map(|d| (TABLE_TYPES[(*d / 2) as usize], d % 2 == 1)).collect()
    }
    fn exec(k: usize, step: usize, bind: bool) -> Vec<u8> {
        use crate::refwire::*;
        let ps: Vec<ExecParam> = Self::table(k)
            .iter()
            .enumerate()
            .map(|(i, (ty, u))| ExecParam { ty: *ty, unsigned: *u, wire: Some((0..Self::width(*ty)).map(|b| (0x81 + step * 7 + i * 13 + b * 3) as u8).collect()), long: false })
            .collect();
        cmd_execute(1, 0, 1, &exec_block(&ps, bind))
    }
}
impl Family for DistinctTables {
    fn name(&self) -> String {
        "more-distinct-type-tables-than-a-16-bit-handle".into()
    }
    fn len(&self) -> u64 {
        self.ns.len() as u64
    }
    fn run(&self, idx: u64, st: &mut Stats) -> Result<(), Violation> {
        use crate::refwire::*;
        let n = self.ns[idx as usize];
        st.nontrivial += 1;
        st.bump("distinct_type_tables");
        let mut payloads = vec![with_byte(COM_STMT_PREPARE, b"id=1 p=5")];
        let mut step = 0usize;
        for k in 0..n {
            payloads.push(Self::exec(k, step, true));
            step += 1;
            if k % 1000 == 999 {
                payloads.push(Self::exec(k, step, false));
                step += 1;
            }
        }
        for k in [0usize, 1, 2, n - 1, 65_535 % n, 3] {
            payloads.push(Self::exec(k, step, true));
            payloads.push(Self::exec(k, step + 1, false));
            step += 2;
        }
        run_payloads(&payloads, &[], st).map(|_| ()).map_err(|mut v| {
            v.msg = format!("{} distinct type tables bound by one statement: {}", n, v.msg);
            v
        })
    }
    fn describe(&self, idx: u64) -> serde_json::Value {
        json!({"distinct_type_tables": self.ns[idx as usize], "parameters": 5})
    }
}

/// Every number k of prepare/close cycles of other ids between an early CLOSE of one id and its
/// late re-PREPARE (k = 0..max): the re-prepared statement and a neighbour bound in between must
/// each keep their own table. For slot generations, free lists and handle caches whose counters
/// wrap at some k.
pub struct CycleCounts {
    pub max_k: usize,
}
impl Family for CycleCounts {
    fn name(&self) -> String {
        "every-number-of-prepare-close-cycles-between-close-and-re-prepare".into()
    }
    fn len(&self) -> u64 {
        2 * (self.max_k as u64 + 1)
    }
    fn run(&self, idx: u64, st: &mut Stats) -> Result<(), Violation> {
        let k = (idx / 2) as usize;
        let execute_in_cycles = idx % 2 == 1;
        st.nontrivial += 1;
        st.bump("cycle_counts");
        let ex = |id: u32, bind: Bind| Action::Exec { id, bind, null_first: false, shim_ignores: 0 };
        let mut h = vec![Action::Prepare { id: 8, n: 2, ok: true }, ex(8, Bind::D), Action::Close { id: 8 }];
        for i in 0..k {
            let id = 20 + (i % 5) as u32;
            h.push(Action::Prepare { id, n: 2, ok: true });
            if execute_in_cycles {
                h.push(ex(id, Bind::A));
            }
            h.push(Action::Close { id });
        }
        h.push(Action::Prepare { id: 1, n: 2, ok: true });
        h.push(ex(1, Bind::B));
        h.push(Action::Prepare { id: 8, n: 2, ok: true });
        h.push(ex(8, Bind::C));
        h.push(ex(1, Bind::Reuse));
        h.push(ex(8, Bind::Reuse));
        h.push(Action::Close { id: 1 });
        h.push(ex(8, Bind::Reuse));
        run_history(&h, st).map(|_| ()).map_err(|mut v| {
            v.msg = format!("{} prepare{}/close cycles between CLOSE 8 and its re-PREPARE: {}", k, if execute_in_cycles { "/execute" } else { "" }, v.msg);
            v
        })
    }
    fn describe(&self, idx: u64) -> serde_json::Value {
        json!({"cycles_between_close_and_re_prepare": idx / 2, "cycles_execute": idx % 2 == 1})
    }
}

/// statements wider than any inline capacity (15..300 parameters): bind one table, rebind another
/// (all positions, or only the last / the 17th / every other position changed), reuse; then a
/// second statement of another width. Every position must be decoded with the table of the last
/// bind - a stale entry at position 16+ is as wrong as one at position 0.
struct WideRebinds;
const WIDTHS: [usize; 9] = [3, 15, 16, 17, 18, 33, 64, 65, 300];
impl WideRebinds {
    fn table(n: usize, base: usize, change: usize) -> Vec<(u8, bool)> {
        // base table: types cycle with the position; `change` decides which positions get the other table
        (0..n)
            .map(|i| {
                let changed = match change {
                    0 => false,
                    1 => true,
                    2 => i == n - 1,
                    3 => i == 16.min(n - 1),
                    _ => i % 2 == 1,
                };
                let k = if changed { base + 3 } else { base };
                [(0x03u8, false), (0x01, true), (0x08, true), (0x02, false), (0x03, true), (0x09, false)][(i + k) % 6]
            })
            .collect()
    }
    fn exec(id: u32, table: &[(u8, bool)], step: usize, bind: bool) -> Vec<u8> {
        use crate::refwire::*;
        let ps: Vec<ExecParam> = table
            .iter()
            .enumerate()
            .map(|(i, (ty, u))| ExecParam { ty: *ty, unsigned: *u, wire: Some((0..DistinctTables::width(*ty)).map(|b| (0x81 + step * 5 + i * 11 + b * 3) as u8).collect()), long: false })
            .collect();
        cmd_execute(id, 0, 1, &exec_block(&ps, bind))
    }
}
impl Family for WideRebinds {
    fn name(&self) -> String {
        "rebinds-of-wide-statements".into()
    }
    fn len(&self) -> u64 {
        (WIDTHS.len() * 5) as u64
    }
    fn run(&self, idx: u64, st: &mut Stats) -> Result<(), Violation> {
        use crate::refwire::*;
        let n = WIDTHS[(idx / 5) as usize];
        let change = (idx % 5) as usize;
        st.nontrivial += 1;
        st.bump("wide_rebinds");
        let (t1, t2) = (Self::table(n, 0, 0), Self::table(n, 0, change));
        let m = if n == 3 { 20 } else { 3 };
        let t3 = Self::table(m, 1, 0);
        let payloads = vec![
            with_byte(COM_STMT_PREPARE, format!("id=1 p={}", n).as_bytes()),
            with_byte(COM_STMT_PREPARE, format!("id=2 p={}", m).as_bytes()),
            Self::exec(1, &t1, 0, true),
            Self::exec(1, &t1, 1, false),
            Self::exec(2, &t3, 2, true),
            Self::exec(1, &t2, 3, true),
            Self::exec(1, &t2, 4, false),
            Self::exec(2, &t3, 5, false),
            Self::exec(1, &t1, 6, true),
            Self::exec(1, &t1, 7, false),
        ];
        run_payloads(&payloads, &[], st).map(|_| ()).map_err(|mut v| {
            v.msg = format!("statement of {} parameters, rebind variant {}: {}", n, change, v.msg);
            v
        })
    }
    fn describe(&self, idx: u64) -> serde_json::Value {
        let n = WIDTHS[(idx / 5) as usize];
        let v = ["the same table", "every position changed", "only the last position changed", "only position 16 changed", "every other position changed"][(idx % 5) as usize];
        json!({"parameters": n, "second_table": v})
    }
}

pub fn build(quick: bool) -> Check {
    let alpha = alphabet();
    let prefix = vec![Action::Prepare { id: 1, n: 2, ok: true }, Action::Prepare { id: 2, n: 2, ok: true }];
    let mut families: Vec<Box<dyn Family>> = Vec::new();
    for d in 1..=(if quick { 4 } else { 5 }) {
        families.push(Box::new(Tree { label: "bind-reuse".into(), prefix: prefix.clone(), alpha: alpha.clone(), depth: d }));
    }
    if !quick {
        // one level deeper over a core of the alphabet: statement 1 in full, statement 2 with
        // three actions that can interfere (bind, reuse, re-prepare)
        let core: Vec<Action> = alpha
            .iter()
            .copied()
            .filter(|a| match a {
                Action::Exec { id: 1, null_first, .. } => !*null_first,
                Action::Exec { id: 2, bind, null_first: false, shim_ignores: 0 } => matches!(bind, Bind::B | Bind::Reuse),
                Action::Prepare { .. } => true,
                Action::Long { id: 1, .. } => true,
                Action::Close { .. } => true,
                _ => false,
            })
            .collect();
        families.push(Box::new(Tree { label: "bind-reuse-core".into(), prefix: prefix.clone(), alpha: core, depth: 6 }));
    }
    families.push(Box::new(Bfs {
        label: "bind-reuse".into(),
        prefix: prefix.clone(),
        alpha: alpha.clone(),
        max_depth: if quick { 5 } else { 10 },
        max_long: 4,
        max_states: if quick { 2000 } else { 100_000 },
    }));
    families.push(Box::new(Histories { label: "bind-reuse".into(), hists: scale_types() }));
    families.push(Box::new(Histories { label: "bind-reuse-counter-wraps".into(), hists: wraps_types(quick) }));
    families.push(Box::new(DistinctTables { ns: if quick { vec![300, 65_540] } else { vec![300, 65_535, 65_536, 65_540, 131_080, 200_000] } }));
    families.push(Box::new(WideRebinds));
    families.push(Box::new(CycleCounts { max_k: if quick { 600 } else { 1300 } }));
    families.push(Box::new(super::soak::Soak { label: "executions-and-churn", lens: super::soak::lens(quick), mixes: vec![super::soak::Mix::Executions, super::soak::Mix::Churn, super::soak::Mix::Even], opts: super::soak::opts_all(), big: vec![] }));
    Check {
        id: "C16",
        level: "model_checking",
        rule: format!("two prepared statements of 2 parameters; histories over {} actions: EXECUTE(id 1|2, reuse | bind LONG | TINY UNSIGNED | VAR_STRING | BIGINT UNSIGNED | LONG UNSIGNED (same type code, other signedness; values have the top bit set) | MYSQL_TYPE_NULL, first parameter NULL or not), executions whose parameters the shim does not look at or of which it reads only the first, long data pending for the second parameter, CLOSE, re-PREPARE; 65540 (thorough: 200000) distinct type tables bound by one statement; statements of 3..300 parameters rebound with a table that differs everywhere / only at the last / only at position 16 / at every other position, next to a second statement of another width; every number k <= 600 (1300) of prepare/close cycles of other ids between a CLOSE and the re-PREPARE of the same id; 65536+ reuses / rebinds of one statement. Values are position- and step-dependent so that decoding with another statement's or an older type table, or from a shifted offset, gives a different value. Full tree to depth {} (thorough: depth 6 over a 17-action core) plus BFS over model states with two witnesses. Plus 4..300 statements each with its own table, all reused afterwards, and 4 statements under 160..3000 mixed executions. Long scripted sessions: 130..4099 (thorough: up to 131101) ordinary commands of every kind on one connection in up to six mixes (even, prepare/close churn with growing ids, executions, long-data chunks, unanswered commands, text and library-answered commands) under several client/transport behaviours (pipelined, request ids advancing by 7, lock-step, 1..4093-byte reads, 7/11-byte writes), generated by a fixed rule, kept valid with the registry model and judged on the complete trace (callbacks with arguments, result, strict decode of every reply with its sequence ids). Oracle: types and values seen by the shim equal the model's (last table bound for that statement).", alpha.len(), if quick {4} else {5}),
        assumptions: vec!["reusing types when none were ever bound ends the history (protocol violation by the client)".into()],
        bounds: json!({"tree_depth": if quick {4} else {5}, "core_tree_depth": if quick {0} else {6}, "alphabet": alpha.len()}),
        exhaustive: true,
        caps_hit: vec![],
        families,
        required: vec!["soak_sessions", "distinct_type_tables", "wide_rebinds", "cycle_counts", "reuse_after_bind", "re_prepare", "bfs_states", "long_histories"],
    }
}
