//! C12 — the server never waits for input while it owes a flushed reply.
//! Arrival schedules = batchings (which message boundaries the client waits at) x cut sets;
//! the invariant is evaluated at every read() call of every execution.

use super::common::*;
use crate::conv::*;
use crate::engine::*;
use crate::refwire::*;
use crate::shim::*;
use crate::sim::*;
use msql_srv::{ColumnFlags, ColumnType};
use serde_json::{json, Value as J};
use std::sync::Arc;

fn behave() -> Box<dyn FnMut(usize, &Cb) -> Behavior> {
    let cols = Arc::new(vec![col("c", ColumnType::MYSQL_TYPE_LONG, ColumnFlags::empty())]);
    let rs = Arc::new(vec![
        WOp::Start(cols.clone()),
        WOp::WriteRow(vec![Val::I32(1)]),
        WOp::WriteRow(vec![Val::I32(2)]),
        WOp::Finish,
    ]);
    let done = Arc::new(vec![WOp::Completed(0, 0)]);
    let mut many = vec![WOp::Start(cols.clone())];
    for i in 0..300 {
        many.push(WOp::WriteRow(vec![Val::I32(i)]));
    }
    many.push(WOp::Finish);
    let many = Arc::new(many);
    let two = Arc::new(vec![
        WOp::Start(cols.clone()),
        WOp::WriteRow(vec![Val::I32(1)]),
        WOp::FinishOne,
        WOp::Start(cols.clone()),
        WOp::Finish,
    ]);
    let err = Arc::new(vec![WOp::Error(msql_srv::ErrorKind::ER_NO_SUCH_TABLE, b"no such table".to_vec())]);
    let late_err = Arc::new(vec![
        WOp::Start(cols.clone()),
        WOp::WriteRow(vec![Val::I32(1)]),
        WOp::FinishError(msql_srv::ErrorKind::ER_QUERY_INTERRUPTED, b"interrupted".to_vec()),
    ]);
    Box::new(move |_, cb| match cb {
        Cb::Query(t) if t == "many" => Behavior::Prog(many.clone()),
        Cb::Query(t) if t == "two" => Behavior::Prog(two.clone()),
        Cb::Query(t) if t == "err" => Behavior::Prog(err.clone()),
        Cb::Query(t) if t == "late" => Behavior::Prog(late_err.clone()),
        Cb::Prepare(t) if t == "bad" => Behavior::PrepError(msql_srv::ErrorKind::ER_PARSE_ERROR, b"no".to_vec()),
        Cb::Init(t) if t == "nodb" => Behavior::InitErr(msql_srv::ErrorKind::ER_BAD_DB_ERROR, b"unknown".to_vec()),
        Cb::Query(t) if t.starts_with('r') => Behavior::Prog(rs.clone()),
        Cb::Query(_) => Behavior::Prog(done.clone()),
        Cb::Execute { .. } => Behavior::Prog(rs.clone()),
        Cb::Prepare(t) => {
            let (id, p, c, _) = parse_prep(t);
            Behavior::PrepReply {
                id,
                params: param_cols(p),
                cols: param_cols(c),
            }
        }
        Cb::Init(_) => Behavior::InitOk,
        _ => Behavior::Silent,
    })
}

fn alphabet() -> Vec<(ClientCmd, &'static str)> {
    let exec_block = exec_block(
        &[ExecParam {
            ty: 0xfd,
            unsigned: false,
            wire: Some(vec![1, b'v']),
            long: false,
        }],
        true,
    );
    vec![
        (q(b"a"), "query->OK"),
        (q(b"rs"), "query->resultset"),
        (ClientCmd::new(with_byte(COM_STMT_PREPARE, b"id=2 p=0 c=1")), "prepare"),
        (ClientCmd::new(cmd_execute(1, 0, 1, &exec_block)), "execute"),
        (ClientCmd::new(cmd_long(1, 0, b"xy")), "long-data"),
        (ClientCmd::new(cmd_close(2)), "close"),
        (ping(), "ping"),
        (ClientCmd::new(with_byte(COM_INIT_DB, b"db")), "init-db"),
        (ClientCmd::new(with_byte(COM_FIELD_LIST, b"t\0")), "field-list"),
    ]
}

/// the nine kinds above plus replies of other shapes: errors from the shim (at once and after
/// rows), chained resultsets, a reply of 300 packets, refusals of PREPARE and INIT_DB, and the
/// commands the library answers by itself
fn wide_alphabet() -> Vec<(ClientCmd, &'static str)> {
    let mut a = alphabet();
    a.extend(vec![
        (q(b"many"), "query->300 rows"),
        (q(b"two"), "query->two resultsets"),
        (q(b"err"), "query->ERR"),
        (q(b"late"), "query->rows then ERR"),
        (ClientCmd::new(with_byte(COM_STMT_PREPARE, b"bad")), "prepare refused"),
        (ClientCmd::new(with_byte(COM_INIT_DB, b"nodb")), "init-db refused"),
        (q(b"USE db"), "USE query"),
        (q(b"SELECT @@max_allowed_packet"), "SELECT @@ probe"),
        (ClientCmd::new(cmd_close(9)), "close of an unknown id"),
    ]);
    a
}

/// run one conversation under one arrival schedule and evaluate the invariant at every read
fn run_sched(conv: &Conv, s: &Stream, stream: &Arc<Vec<u8>>, wait_at: &[usize], cuts: Vec<usize>, st: &mut Stats) -> Result<(), Violation> {
    let mut sim = sim_for(stream, cuts);
    sim.log_ops = false;
    // number of complete replies the client must have seen once the first k messages are sent
    // (greeting counts as 1 and is owed before anything is sent)
    let mut owed_after = vec![1usize]; // owed before the handshake is fully delivered
    let mut acc = 2; // greeting + auth reply once the handshake is delivered
    owed_after.push(acc);
    for c in &conv.cmds {
        if c.resp != RespKind::None {
            acc += 1;
        }
        owed_after.push(acc);
    }
    // gates: the client does not send bytes beyond a waiting point before it has every reply
    // owed for what it sent so far; it never sends anything before the greeting
    let mut gates = vec![Gate { pos: 0, need: 1 }];
    for w in wait_at {
        let k = s.ends.iter().position(|e| e == w).unwrap();
        gates.push(Gate {
            pos: *w,
            need: owed_after[k + 1],
        });
    }
    sim.gates = gates;
    let c1 = conv.clone();
    sim.gate_fn = Some(Box::new(move |flushed| complete_replies(flushed, &c1)));
    let c2 = conv.clone();
    let ends = s.ends.clone();
    let owed = owed_after.clone();
    sim.read_hook = Some(Box::new(move |stt: &SimState| {
        let delivered = ends.iter().filter(|e| stt.pos >= **e).count();
        let need = owed[delivered];
        let have = complete_replies(&stt.out[..stt.flushed], &c2);
        if have < need {
            Some(format!(
                "read() issued after {} of {} client bytes ({} messages complete): the client has been sent {} complete replies but is owed {}; {} bytes written, {} flushed",
                stt.pos,
                stt.input.len(),
                delivered,
                have,
                need,
                stt.out.len(),
                stt.flushed
            ))
        } else {
            None
        }
    }));
    let o = run_conn(sim, ConnCfg::new(behave()));
    st.transitions += o.sim.n_reads as u64;
    if let ConnResult::Panic(l, m) = &o.res {
        return Err(Violation::new(panic_key(l, m), format!("run_on panicked at {}: {}", l, m)));
    }
    if let Some(v) = &o.sim.hook_violation {
        let key = if o.sim.flushed < o.sim.out.len() { "reads-while-owing-unflushed-reply" } else { "reads-while-owing-reply" };
        return Err(Violation::new(key, v.clone()));
    }
    if o.sim.hang {
        return Err(Violation::new("hang", "the server read while the lock-step client was still waiting for a reply"));
    }
    if !o.res.is_ok() {
        return Err(Violation::new("result-not-ok", format!("run_on returned {}", o.res.short())));
    }
    decode_all(&o.sim.out[..o.sim.flushed], conv, &s.last_seq, conv.cmds.len(), false).map_err(|e| Violation::new("reply-decode", e))?;
    Ok(())
}

struct Batchings {
    alpha: Vec<(ClientCmd, &'static str)>,
    /// true: only the fully pipelined batching (the client never waits)
    pipelined_only: bool,
    len: usize,
    /// extra cuts: all sets of <= this many cut positions
    max_cuts: usize,
}

struct Decoded {
    conv: Conv,
    names: Vec<&'static str>,
    waits: Vec<usize>,
    cut_idx: u64,
}

impl Batchings {
    fn n_lists(&self) -> u64 {
        (self.alpha.len() as u64).pow(self.len as u32)
    }
    fn n_batch(&self) -> u64 {
        if self.pipelined_only {
            return 1;
        }
        // boundaries after H, after the fixed PREPARE, and after each command but the last
        1 << (self.len + 1)
    }
    fn cut_sets(&self, stream_len: usize) -> u64 {
        let n = (stream_len - 1) as u64;
        match self.max_cuts {
            0 => 1,
            1 => 1 + n,
            _ => 1 + n + n * (n - 1) / 2,
        }
    }
    fn max_stream(&self) -> usize {
        let mut m = 0;
        for (c, _) in &self.alpha {
            m = m.max(c.payload.len() + 4);
        }
        default_handshake().len() + 4 + 9 + m * self.len
    }
    fn decode(&self, idx: u64) -> Decoded {
        let per_list = self.n_batch() * self.cut_sets(self.max_stream());
        let li = idx / per_list;
        let rem = idx % per_list;
        let bi = rem % self.n_batch();
        let cut_idx = rem / self.n_batch();
        let d = digits(li, &vec![self.alpha.len() as u64; self.len]);
        let mut cmds = vec![ClientCmd::new(with_byte(COM_STMT_PREPARE, b"id=1 p=1"))];
        let mut names = vec!["prepare(1)"];
        for i in d {
            cmds.push(self.alpha[i as usize].0.clone());
            names.push(self.alpha[i as usize].1);
        }
        let conv = Conv::new(cmds);
        let s = conv.stream();
        let mut waits = Vec::new();
        for k in 0..=self.len {
            if bi & (1 << k) != 0 {
                waits.push(s.ends[k]);
            }
        }
        Decoded { conv, names, waits, cut_idx }
    }
}

fn cuts_from_index(ci: u64, n: usize) -> Option<Vec<usize>> {
    // 0 => no cut; 1..=n-1 => one cut; then pairs
    let m = (n - 1) as u64;
    if ci == 0 {
        return Some(vec![]);
    }
    if ci <= m {
        return Some(vec![ci as usize]);
    }
    let mut k = ci - m - 1;
    // pair (a<b) enumeration
    let mut a = 1u64;
    loop {
        let cnt = m - a;
        if a >= m {
            return None;
        }
        if k < cnt {
            return Some(vec![a as usize, (a + 1 + k) as usize]);
        }
        k -= cnt;
        a += 1;
    }
}

impl Family for Batchings {
    fn name(&self) -> String {
        if self.pipelined_only {
            return format!("pipelined-{}-kinds-len-{}-cuts-{}", self.alpha.len(), self.len, self.max_cuts);
        }
        if self.alpha.len() > 9 {
            return format!("batchings-{}-kinds-len-{}-cuts-{}", self.alpha.len(), self.len, self.max_cuts);
        }
        format!("batchings-len-{}-cuts-{}", self.len, self.max_cuts)
    }
    fn len(&self) -> u64 {
        self.n_lists() * self.n_batch() * self.cut_sets(self.max_stream())
    }
    fn run(&self, idx: u64, st: &mut Stats) -> Result<(), Violation> {
        let d = self.decode(idx);
        let s = d.conv.stream();
        let cuts = match cuts_from_index(d.cut_idx, s.bytes.len()) {
            Some(c) => c,
            None => {
                st.skipped += 1; // index beyond this stream's positions
                return Ok(());
            }
        };
        if cuts.iter().any(|c| *c >= s.bytes.len()) {
            st.skipped += 1;
            return Ok(());
        }
        if !d.waits.is_empty() && d.waits.len() < self.len + 1 {
            st.bump("mixed_pipelining");
        }
        if d.waits.is_empty() {
            st.bump("fully_pipelined");
        }
        if d.waits.len() == self.len + 1 {
            st.bump("lock_step");
        }
        st.nontrivial += 1;
        let stream = Arc::new(s.bytes.clone());
        run_sched(&d.conv, &s, &stream, &d.waits, cuts, st)
    }
    fn describe(&self, idx: u64) -> J {
        let d = self.decode(idx);
        let s = d.conv.stream();
        json!({"commands": d.names, "client_waits_for_replies_at_offsets": d.waits, "cuts": cuts_from_index(d.cut_idx, s.bytes.len()), "message_ends": s.ends})
    }
}

/// all compositions of small pipelined streams (no waiting points), invariant at every read
struct SmallComps {
    scens: Vec<(Conv, usize)>,
    offsets: Vec<u64>,
}

impl SmallComps {
    fn new(max_n: usize) -> Self {
        let texts: [&[u8]; 3] = [b"", b"r", b"ab"];
        let mut scens = Vec::new();
        for a in 0..3 {
            for b in 0..3 {
                for kind in 0..3 {
                    let c1 = q(texts[a]);
                    let c2 = match kind {
                        0 => q(texts[b]),
                        1 => ping(),
                        _ => ClientCmd::new(with_byte(COM_INIT_DB, texts[b])),
                    };
                    let conv = Conv::new(vec![c1, c2]);
                    let s = conv.stream();
                    let n = s.bytes.len() - s.ends[0];
                    if n <= max_n {
                        scens.push((conv, n));
                    }
                }
            }
        }
        let mut offsets = vec![0u64];
        for (_, n) in &scens {
            offsets.push(offsets.last().unwrap() + (1u64 << n));
        }
        SmallComps { scens, offsets }
    }
    fn locate(&self, idx: u64) -> (&Conv, usize, u64) {
        let i = match self.offsets.binary_search(&idx) {
            Ok(i) => i,
            Err(i) => i - 1,
        };
        (&self.scens[i].0, self.scens[i].1, idx - self.offsets[i])
    }
}

impl Family for SmallComps {
    fn name(&self) -> String {
        "small-all-compositions".into()
    }
    fn len(&self) -> u64 {
        *self.offsets.last().unwrap()
    }
    fn run(&self, idx: u64, st: &mut Stats) -> Result<(), Violation> {
        let (conv, n, mask) = self.locate(idx);
        let s = conv.stream();
        let hs = s.ends[0];
        let cuts: Vec<usize> = (0..n).filter(|i| mask & (1 << i) != 0).map(|i| hs + i).collect();
        st.nontrivial += 1;
        st.bump("small_compositions");
        let stream = Arc::new(s.bytes.clone());
        run_sched(conv, &s, &stream, &[], cuts, st)
    }
    fn describe(&self, idx: u64) -> J {
        let (conv, n, mask) = self.locate(idx);
        let s = conv.stream();
        let hs = s.ends[0];
        json!({"stream_hex": hex(&s.bytes[hs..]), "cuts": (0..n).filter(|i| mask & (1 << i) != 0).map(|i| hs + i).collect::<Vec<_>>()})
    }
}

/// lock-step client, one query whose reply has every total size in a range: one text cell of
/// every width, and r rows of a fixed cell width for every r (several widths, so that replies
/// approach any output-side buffering threshold in different strides): the reply must be flushed
/// whatever its size and packet structure is
struct ReplySizes {
    cases: Vec<(usize, usize)>, // (cell width, rows); rows == usize::MAX: one row of one cell of that width
}
impl ReplySizes {
    fn new(max_total: usize) -> Self {
        let mut cases = Vec::new();
        for w in 0..=max_total {
            cases.push((w, usize::MAX));
        }
        for cw in [0usize, 1, 2, 5, 9, 16, 37, 100, 255, 1000, 1455, 1456, 1459, 1460, 4000] {
            let per = 4 + if cw < 251 { 1 } else { 3 } + cw;
            for r in 0..=(max_total / per) {
                cases.push((cw, r));
            }
        }
        // replies whose *last* packet is the large one: an ERR with a message of w bytes, at once
        // (rows = MAX-1) and behind two rows (rows = MAX-2)
        let mut errs: Vec<usize> = (0..=2000).collect();
        for c in [4096usize, 16_384, 65_536, 131_072, 262_144, 1 << 20] {
            errs.extend(c - 12..=c + 12);
        }
        errs.extend([70_000, 200_000, 3_000_000]);
        for w in errs {
            if w <= max_total.max(200_000) * 20 {
                cases.push((w, usize::MAX - 1));
                if w % 7 == 0 || w > 2000 {
                    cases.push((w, usize::MAX - 2));
                }
            }
        }
        ReplySizes { cases }
    }
}
impl Family for ReplySizes {
    fn name(&self) -> String {
        "reply-sizes-lock-step".into()
    }
    fn len(&self) -> u64 {
        self.cases.len() as u64
    }
    fn run(&self, idx: u64, st: &mut Stats) -> Result<(), Violation> {
        let (w, r) = self.cases[idx as usize];
        let by_rows = r < usize::MAX - 2;
        let err_kind = if r == usize::MAX - 1 { 1 } else if r == usize::MAX - 2 { 2 } else { 0 };
        st.nontrivial += 1;
        st.bump("reply_sizes");
        let cols = Arc::new(vec![col("c", ColumnType::MYSQL_TYPE_BLOB, ColumnFlags::empty())]);
        let mut prog = vec![WOp::Start(cols)];
        if err_kind == 1 {
            prog = vec![WOp::Error(msql_srv::ErrorKind::ER_NO, vec![b'e'; w])];
        } else if err_kind == 2 {
            prog.push(WOp::WriteRow(vec![Val::Bytes(vec![b'a'; 3])]));
            prog.push(WOp::WriteRow(vec![Val::Bytes(vec![b'b'; 3])]));
            prog.push(WOp::FinishError(msql_srv::ErrorKind::ER_NO, vec![b'e'; w]));
        } else if by_rows {
            for _ in 0..r {
                prog.push(WOp::WriteRow(vec![Val::Bytes(vec![b'r'; w])]));
            }
            prog.push(WOp::Finish);
        } else {
            prog.push(WOp::WriteRow(vec![Val::Bytes(vec![b'w'; w])]));
            prog.push(WOp::Finish);
        }
        let prog = Arc::new(prog);
        let conv = Conv::new(vec![q(b"size"), ping()]);
        let s = conv.stream();
        let stream = Arc::new(s.bytes.clone());
        let mut sim = sim_for(&stream, vec![]);
        sim.log_ops = false;
        // strict lock-step: wait at every boundary
        let mut gates = vec![Gate { pos: 0, need: 1 }];
        gates.push(Gate { pos: s.ends[0], need: 2 });
        gates.push(Gate { pos: s.ends[1], need: 3 });
        sim.gates = gates;
        let c1 = conv.clone();
        sim.gate_fn = Some(Box::new(move |flushed| complete_replies(flushed, &c1)));
        let o = run_conn(sim, ConnCfg::new(Box::new(move |_, cb| match cb {
            Cb::Query(_) => Behavior::Prog(prog.clone()),
            _ => Behavior::Silent,
        })));
        st.transitions += o.sim.n_reads as u64;
        let shape = match err_kind {
            1 => format!("an ERR packet with a message of {} bytes", w),
            2 => format!("two rows and then an ERR packet with a message of {} bytes", w),
            _ if by_rows => format!("{} rows of one {}-byte cell", r, w),
            _ => format!("one row of one {}-byte cell", w),
        };
        if let ConnResult::Panic(l, m) = &o.res {
            return Err(Violation::new(panic_key(l, m), format!("run_on panicked at {}: {}", l, m)));
        }
        if o.sim.hang {
            return Err(Violation::new(
                "hang",
                format!("reply of {}: the server read again while {} of {} written bytes were not flushed; the lock-step client waits forever", shape, o.sim.out.len() - o.sim.flushed, o.sim.out.len()),
            ));
        }
        if !o.res.is_ok() {
            return Err(Violation::new("result-not-ok", format!("reply of {}: run_on returned {}", shape, o.res.short())));
        }
        decode_all(&o.sim.out[..o.sim.flushed], &conv, &s.last_seq, 2, false).map_err(|e| Violation::new("reply-decode", format!("reply of {}: {}", shape, e)))?;
        Ok(())
    }
    fn describe(&self, idx: u64) -> J {
        let (w, r) = self.cases[idx as usize];
        let reply = if r == usize::MAX - 1 {
            format!("an ERR packet with a message of {} bytes", w)
        } else if r == usize::MAX - 2 {
            format!("two rows, then an ERR packet with a message of {} bytes", w)
        } else if r != usize::MAX {
            format!("{} rows of one {}-byte cell", r, w)
        } else {
            format!("one row with one cell of {} bytes", w)
        };
        json!({"reply": reply, "client": "strict lock-step"})
    }
}

/// lock-step client whose request is large (multi-packet, in particular an exact multiple of
/// 2^24-1 bytes with its empty closing packet): whatever read ends wherever near the request's
/// packet headers or its last bytes, the request must be served once its last byte is delivered —
/// the client sends nothing more until it has the reply.
/// payload sizes whose framed length (4 + payload) is 2^k - 2 .. 2^k + 2: a read can then fill
/// the server's buffer exactly at the end of the request
fn pow2_sizes(ks: std::ops::RangeInclusive<u32>) -> Vec<usize> {
    let mut v = Vec::new();
    for k in ks {
        for d in -2i64..=2 {
            v.push(((1i64 << k) - 4 + d) as usize);
        }
    }
    v
}

struct LargeRequests {
    cases: Vec<(usize, Vec<usize>)>,
}
impl LargeRequests {
    fn conv(size: usize) -> Conv {
        let text: Vec<u8> = (0..size - 1).map(|i| b'a' + ((i * 5 + i / 253) % 26) as u8).collect();
        Conv::new(vec![q(&text), ping()])
    }
    fn new(sizes: &[usize], max_cuts: usize) -> Self {
        let mut cases = Vec::new();
        for &size in sizes {
            let s = Self::conv(size).stream();
            let end = s.ends[1];
            let mut cands: Vec<usize> = Vec::new();
            for h in s.headers.iter().filter(|h| **h >= s.ends[0] && **h < end) {
                for d in -1i64..=5 {
                    let p = *h as i64 + d;
                    if p > s.ends[0] as i64 && (p as usize) < end {
                        cands.push(p as usize);
                    }
                }
            }
            for d in 1..=6 {
                if end - d > s.ends[0] {
                    cands.push(end - d);
                }
            }
            cands.sort();
            cands.dedup();
            for set in subsets_upto(&cands, max_cuts) {
                cases.push((size, set));
            }
        }
        LargeRequests { cases }
    }
}
impl Family for LargeRequests {
    fn name(&self) -> String {
        format!("large-requests-lock-step-{}-sizes", self.cases.iter().map(|c| c.0).collect::<std::collections::BTreeSet<_>>().len())
    }
    fn len(&self) -> u64 {
        self.cases.len() as u64
    }
    fn max_threads(&self) -> Option<usize> {
        Some(8)
    }
    fn run(&self, idx: u64, st: &mut Stats) -> Result<(), Violation> {
        let (size, cuts) = &self.cases[idx as usize];
        st.nontrivial += 1;
        st.bump("large_requests_lock_step");
        let conv = Self::conv(*size);
        let s = conv.stream();
        let stream = Arc::new(s.bytes.clone());
        let waits = s.ends.clone();
        run_sched(&conv, &s, &stream, &waits[..waits.len() - 1], cuts.clone(), st).map_err(|mut v| {
            v.msg = format!("request of {} payload bytes, cuts {:?}: {}", size, cuts, v.msg);
            v
        })
    }
    fn describe(&self, idx: u64) -> J {
        let (size, cuts) = &self.cases[idx as usize];
        json!({"request_payload_bytes": size, "cuts": cuts, "client": "strict lock-step, then a PING"})
    }
}


/// two multi-packet requests back to back, pipelined, with a read boundary around every packet
/// header of the second: the reply to the first is owed as soon as the first is complete, even
/// while the second is only partly there
struct TwoLargeRequests {
    /// (payload bytes of the first and the second large request, cuts, a short query in between)
    cases: Vec<(usize, usize, Vec<usize>, bool)>,
}
impl TwoLargeRequests {
    fn conv(a: usize, b: usize, mid: bool) -> Conv {
        let ta: Vec<u8> = (0..a - 1).map(|i| b'a' + ((i * 3 + i / 251) % 26) as u8).collect();
        let tb: Vec<u8> = (0..b - 1).map(|i| b'A' + ((i * 7 + i / 249) % 26) as u8).collect();
        if mid {
            return Conv::new(vec![q(&ta), q(b"a short one in between"), q(&tb), ping()]);
        }
        Conv::new(vec![q(&ta), q(&tb), ping()])
    }
    fn new(pairs: &[(usize, usize)]) -> Self {
        let mut cases = Vec::new();
        for &(a, b) in pairs {
            for mid in [false, true] {
                let s = Self::conv(a, b, mid).stream();
                // the second large request is the last command but one
                let (from, to) = (s.ends[s.ends.len() - 3], s.ends[s.ends.len() - 2]);
                let mut cands: Vec<usize> = Vec::new();
                for h in s.headers.iter().filter(|h| **h >= from && **h < to) {
                    for d in [-1i64, 0, 1, 3, 4, 5] {
                        let p = *h as i64 + d;
                        if p > s.ends[0] as i64 && (p as usize) < to {
                            cands.push(p as usize);
                        }
                    }
                }
                // ... and somewhere inside each of its packets
                cands.push(from + 4 + 1000);
                cands.push(to - 20);
                cands.sort();
                cands.dedup();
                cases.push((a, b, vec![], mid));
                for c in cands {
                    cases.push((a, b, vec![c], mid));
                }
            }
        }
        TwoLargeRequests { cases }
    }
}
impl Family for TwoLargeRequests {
    fn name(&self) -> String {
        "two-large-requests-pipelined".into()
    }
    fn len(&self) -> u64 {
        self.cases.len() as u64
    }
    fn max_threads(&self) -> Option<usize> {
        Some(6)
    }
    fn run(&self, idx: u64, st: &mut Stats) -> Result<(), Violation> {
        let (a, b, cuts, mid) = &self.cases[idx as usize];
        st.nontrivial += 1;
        st.bump("two_large_requests");
        let conv = Self::conv(*a, *b, *mid);
        let s = conv.stream();
        let stream = Arc::new(s.bytes.clone());
        run_sched(&conv, &s, &stream, &[], cuts.clone(), st).map_err(|mut v| {
            v.msg = format!("requests of {} and {} payload bytes{}, cuts {:?}: {}", a, b, if *mid { " with a short query in between" } else { "" }, cuts, v.msg);
            v
        })
    }
    fn describe(&self, idx: u64) -> J {
        let (a, b, cuts, mid) = &self.cases[idx as usize];
        json!({"request_payload_bytes": [a, b], "short_query_in_between": mid, "cuts": cuts, "client": "pipelined"})
    }
}

pub fn build(quick: bool) -> Check {
    let mut families: Vec<Box<dyn Family>> = Vec::new();
    let a = alphabet();
    if quick {
        families.push(Box::new(Batchings { pipelined_only: false, alpha: a.clone(), len: 4, max_cuts: 0 }));
        families.push(Box::new(Batchings { pipelined_only: false, alpha: a.clone(), len: 1, max_cuts: 2 }));
        families.push(Box::new(Batchings { pipelined_only: false, alpha: wide_alphabet(), len: 3, max_cuts: 0 }));
        families.push(Box::new(Batchings { pipelined_only: true, alpha: a.clone(), len: 3, max_cuts: 1 }));
        families.push(Box::new(Batchings { pipelined_only: true, alpha: a.clone(), len: 4, max_cuts: 1 }));
        families.push(Box::new(Batchings { pipelined_only: false, alpha: a.clone(), len: 2, max_cuts: 1 }));
        families.push(Box::new(Batchings { pipelined_only: true, alpha: wide_alphabet(), len: 2, max_cuts: 1 }));
        families.push(Box::new(Batchings { pipelined_only: true, alpha: wide_alphabet(), len: 3, max_cuts: 1 }));
        families.push(Box::new(SmallComps::new(14)));
        families.push(Box::new(ReplySizes::new(30_000)));
        families.push(Box::new(LargeRequests::new(&[70_000, MAXP - 1, MAXP, 2 * MAXP], 1)));
        families.push(Box::new(LargeRequests::new(&pow2_sizes(12..=17), 0)));
        families.push(Box::new(TwoLargeRequests::new(&[(MAXP + 10, MAXP + 10)])));
    } else {
        families.push(Box::new(Batchings { pipelined_only: false, alpha: a.clone(), len: 5, max_cuts: 0 }));
        families.push(Box::new(Batchings { pipelined_only: false, alpha: a.clone(), len: 2, max_cuts: 2 }));
        families.push(Box::new(Batchings { pipelined_only: false, alpha: wide_alphabet(), len: 4, max_cuts: 0 }));
        families.push(Box::new(Batchings { pipelined_only: true, alpha: a.clone(), len: 5, max_cuts: 1 }));
        families.push(Box::new(Batchings { pipelined_only: true, alpha: a.clone(), len: 3, max_cuts: 2 }));
        families.push(Box::new(Batchings { pipelined_only: false, alpha: a.clone(), len: 4, max_cuts: 1 }));
        families.push(Box::new(Batchings { pipelined_only: true, alpha: wide_alphabet(), len: 2, max_cuts: 2 }));
        families.push(Box::new(Batchings { pipelined_only: true, alpha: wide_alphabet(), len: 3, max_cuts: 1 }));
        families.push(Box::new(Batchings { pipelined_only: true, alpha: wide_alphabet(), len: 4, max_cuts: 1 }));
        families.push(Box::new(SmallComps::new(15)));
        families.push(Box::new(ReplySizes::new(200_000)));
        families.push(Box::new(LargeRequests::new(&[4092, 70_000, MAXP - 1, MAXP, MAXP + 1, 2 * MAXP - 1, 2 * MAXP, 2 * MAXP + 1], 2)));
        families.push(Box::new(LargeRequests::new(&pow2_sizes(10..=23), 1)));
        families.push(Box::new(TwoLargeRequests::new(&[(MAXP + 10, MAXP + 10), (MAXP, MAXP), (70_000, 2 * MAXP + 3), (2 * MAXP + 3, MAXP + 1)])));
    }
    // commands pipelined inside a TLS session: a TLS layer has buffers of its own on both sides
    families.push(Box::new(super::c18::TlsWalks { depth: 3, lockstep: false }));
    families.push(Box::new(super::c18::TlsWalks { depth: 3, lockstep: true }));
    if !quick {
        families.push(Box::new(super::c18::TlsWalks { depth: 4, lockstep: false }));
        families.push(Box::new(super::c18::TlsWalks { depth: 4, lockstep: true }));
    }
    {
        use super::registry::RunOpts;
        families.push(Box::new(super::soak::Soak {
            label: "lock-step",
            lens: super::soak::lens(quick),
            mixes: super::soak::MIXES.to_vec(),
            opts: vec![("lock-step client", RunOpts { lockstep: true, ..RunOpts::default() }), ("lock-step client, reads of at most 3 bytes, writes of at most 7", RunOpts { lockstep: true, uniform_read: 3, write_cap: 7, ..RunOpts::default() }), ("lock-step client, every 97th command split behind its header, resultsets of varying shape", RunOpts { lockstep: true, cut_every: 97, rich: true, ..RunOpts::default() }), ("lock-step client, one early long command split behind its header, everything else whole", RunOpts { lockstep: true, cut_once: true, ..RunOpts::default() })],
            big: vec![(70_001, super::soak::Mix::Even, 0), (66_000, super::soak::Mix::Silent, 1), (70_001, super::soak::Mix::Text, 2), (70_001, super::soak::Mix::Even, 2), (70_001, super::soak::Mix::Text, 3), (66_100, super::soak::Mix::Text, 3)],
        }));
    }
    Check {
        id: "C12",
        level: "model_checking",
        rule: "every list of 3 (thorough: 4) commands of every kind (silent ones among them) inside a TLS session under whole, 7- and 61-byte reads, pipelined and from a lock-step client that sends a command only after it has decrypted every reply owed so far (commands without a reply release the next at once) - the server must never wait on the transport while it owes a reply; command lists over {query->OK, query->resultset, prepare, execute, long data, close, ping, init db, field list} (after a fixed PREPARE; lists of 3 (thorough: 4) also over nine more kinds: a 300-packet reply, chained resultsets, ERR at once and after rows, refused PREPARE / INIT_DB, USE, a SELECT @@ probe, close of an unknown id) x all batchings (lists of 3-4 (thorough: 5) commands fully pipelined also under every single cut, of 3 under every pair of cuts) (the client waits for all owed replies at any subset of message boundaries, from lock-step to fully pipelined; it never sends before the greeting) x cut sets of <= 2 positions; plus all 2^n compositions of small pipelined streams; plus a strict lock-step client receiving replies of every size 0..30000 (200000 in thorough) bytes as one cell, and as r rows for every r up to that total with cells of 0, 1, 2, 5, 9, 16, 37, 100, 255, 1000, 1455, 1456, 1459, 1460 and 4000 bytes (output-side buffering thresholds are approached in many strides); plus a strict lock-step client whose request is 70 KB .. 2*(2^24-1) bytes (exact multiples with their empty closing packet included) under <= 1 (thorough: 2) cuts around every packet header and the last six bytes of the request, and requests whose framed length is 2^k-2..2^k+2 for k = 12..17 (thorough 10..23); two multi-packet requests back to back, pipelined, with a cut around every packet header of the second. Invariant at every read(): the flushed output holds a complete reply (strictly decoded) for every message fully delivered so far. A read while the waiting client holds back its bytes is a hang.".into(),
        assumptions: vec!["bytes written but not flushed are invisible to the simulated client".into()],
        bounds: json!({"max_commands": if quick {4} else {5}, "max_cuts": 2}),
        exhaustive: true,
        caps_hit: vec![],
        families,
        required: vec!["tls_walks", "tls_walks_lock_step", "soak_sessions", "mixed_pipelining", "fully_pipelined", "lock_step", "small_compositions", "reply_sizes", "large_requests_lock_step", "two_large_requests"],
    }
}
