//! C17 — long data is concatenated in order, delivered once, and never leaks.

use super::model::*;
use super::registry::*;
use crate::engine::*;
use crate::refwire::*;
use serde_json::{json, Value as J};

fn alphabet() -> Vec<Action> {
    let mut a = Vec::new();
    for id in [1u32, 2] {
        for param in [0u16, 1] {
            for chunk in 0..3u8 {
                a.push(Action::Long { id, param, chunk });
            }
        }
        for bind in [Bind::A, Bind::C, Bind::N, Bind::Reuse] {
            a.push(Action::Exec { id, bind, null_first: false, shim_ignores: 0 });
        }
    }
    // chunks large enough to make an implementation's buffers grow (2000 / 12000 bytes)
    a.push(Action::Long { id: 1, param: 0, chunk: 3 });
    a.push(Action::Long { id: 1, param: 1, chunk: 4 });
    a.push(Action::Long { id: 2, param: 0, chunk: 4 });
    a.push(Action::Long { id: 1, param: 5, chunk: 2 });
    a.push(Action::Exec { id: 1, bind: Bind::C, null_first: true, shim_ignores: 0 });
    a.push(Action::Close { id: 1 });
    a.push(Action::Prepare { id: 1, n: 2, ok: true });
    a
}

/// one chunk larger than two maximal packets, followed by a short one, then an execute
struct BigChunk;
impl Family for BigChunk {
    fn name(&self) -> String {
        "multi-packet-chunk".into()
    }
    fn len(&self) -> u64 {
        2
    }
    fn max_threads(&self) -> Option<usize> {
        Some(2)
    }
    fn run(&self, idx: u64, st: &mut Stats) -> Result<(), Violation> {
        st.nontrivial += 1;
        st.bump("multi_packet_chunks");
        let size = if idx == 0 { 2 * MAXP + 5 } else { MAXP - 7 + 1 };
        let big: Vec<u8> = (0..size).map(|i| (i % 251) as u8).collect();
        let blk = exec_block(
            &[
                ExecParam { ty: 0x03, unsigned: false, wire: Some(vec![9, 8, 7, 6]), long: false },
                ExecParam { ty: 0xfc, unsigned: false, wire: None, long: true },
            ],
            true,
        );
        let payloads = vec![
            with_byte(COM_STMT_PREPARE, b"id=1 p=2"),
            cmd_long(1, 1, &big),
            cmd_long(1, 1, b"tail"),
            cmd_execute(1, 0, 1, &blk),
            cmd_execute(1, 0, 1, &exec_block(
                &[
                    ExecParam { ty: 0x03, unsigned: false, wire: Some(vec![1, 2, 3, 4]), long: false },
                    ExecParam { ty: 0xfc, unsigned: false, wire: Some(vec![1, b'q']), long: false },
                ],
                false,
            )),
        ];
        let _ = Registry::default();
        run_payloads(&payloads, &[], st).map(|_| ())
    }
    fn describe(&self, idx: u64) -> J {
        json!({"chunk_bytes": if idx == 0 { 2 * MAXP + 5 } else { MAXP - 6 }, "then": "a 4-byte chunk, an execute binding types, an execute reusing them without long data"})
    }
}

/// more long data for one parameter than any single command may carry: five chunks of 14 MiB for
/// parameter 0 and a short one for parameter 1, then the execution (70 MiB delivered), then an
/// inline one. There is no limit on accumulated long data in the protocol or in the property.
struct ManyLargeChunks;
impl Family for ManyLargeChunks {
    fn name(&self) -> String {
        "many-large-chunks-for-one-parameter".into()
    }
    fn len(&self) -> u64 {
        1
    }
    fn run(&self, _idx: u64, st: &mut Stats) -> Result<(), Violation> {
        st.nontrivial += 1;
        st.bump("many_large_chunks");
        let chunk: Vec<u8> = (0..14 * 1024 * 1024).map(|i| (i % 247) as u8).collect();
        let blk = exec_block(
            &[
                ExecParam { ty: 0xfc, unsigned: false, wire: None, long: true },
                ExecParam { ty: 0xfc, unsigned: false, wire: None, long: true },
            ],
            true,
        );
        let mut payloads = vec![with_byte(COM_STMT_PREPARE, b"id=1 p=2")];
        for _ in 0..5 {
            payloads.push(cmd_long(1, 0, &chunk));
        }
        payloads.push(cmd_long(1, 1, b"side"));
        payloads.push(cmd_execute(1, 0, 1, &blk));
        payloads.push(cmd_execute(
            1,
            0,
            1,
            &exec_block(
                &[
                    ExecParam { ty: 0xfc, unsigned: false, wire: Some(vec![1, b'a']), long: false },
                    ExecParam { ty: 0xfc, unsigned: false, wire: Some(vec![1, b'b']), long: false },
                ],
                false,
            ),
        ));
        run_payloads(&payloads, &[], st).map(|_| ())
    }
    fn describe(&self, _idx: u64) -> J {
        json!({"chunks": 5, "chunk_bytes": 14 * 1024 * 1024, "then": "a short chunk for the other parameter, execute, execute inline"})
    }
}

/// long data for parameters far from the front of a wide statement (indices 15..17, 255..257, the
/// last one) - a parameter index is 16 bits on the wire - interleaved, next to inline values and
/// NULLs, followed by an execution without long data
struct WideLongData;
impl Family for WideLongData {
    fn name(&self) -> String {
        "long-data-for-late-parameters-of-a-wide-statement".into()
    }
    fn len(&self) -> u64 {
        4
    }
    fn run(&self, idx: u64, st: &mut Stats) -> Result<(), Violation> {
        st.nontrivial += 1;
        st.bump("wide_long_data");
        let n = [18usize, 300, 300, 1000][idx as usize];
        let targets: Vec<u16> = match idx {
            0 => vec![0, 15, 16, 17],
            1 => vec![0, 15, 16, 17, 255, 256, 257, 299],
            2 => vec![299, 256, 255, 16, 256, 299, 255],
            _ => vec![999, 512, 511, 256, 255, 65, 64, 63, 1],
        };
        let mut payloads = vec![with_byte(COM_STMT_PREPARE, format!("id=1 p={}", n).as_bytes())];
        for (k, t) in targets.iter().enumerate() {
            payloads.push(cmd_long(1, *t, format!("<p{}#{}>", t, k).as_bytes()));
        }
        let block = |with_long: bool| {
            let ps: Vec<ExecParam> = (0..n)
                .map(|i| {
                    let long = with_long && targets.contains(&(i as u16));
                    ExecParam {
                        ty: 0xfd,
                        unsigned: false,
                        wire: if long || i % 7 == 3 { None } else { Some({ let mut v = Vec::new(); put_lenenc_str(&mut v, format!("i{}", i).as_bytes()); v }) },
                        long,
                    }
                })
                .collect();
            exec_block(&ps, true)
        };
        payloads.push(cmd_execute(1, 0, 1, &block(true)));
        payloads.push(cmd_execute(1, 0, 1, &block(false)));
        run_payloads(&payloads, &[], st).map(|_| ()).map_err(|mut v| {
            v.msg = format!("statement of {} parameters, long data for parameters {:?}: {}", n, targets, v.msg);
            v
        })
    }
    fn describe(&self, idx: u64) -> J {
        json!({"case": idx})
    }
}

/// Long data for a parameter whose NULL bit the client sets as well - contradictory, so for that
/// parameter either reading is accepted (NULL, or the data) - next to other parameters that are
/// supplied by long data or inline: those must arrive exactly, the next execution must see none of
/// it. Every statement of 2-4 parameters, every non-empty set of long-data parameters, every
/// non-empty subset of it marked NULL, chunks sent parameter by parameter or interleaved.
struct NullMarkedLongData {
    cases: Vec<(usize, u32, u32, bool)>,
}
impl NullMarkedLongData {
    fn new() -> Self {
        let mut cases = Vec::new();
        for n in 2..=4usize {
            for l in 1u32..(1 << n) {
                let mut z = l;
                while z > 0 {
                    cases.push((n, l, z, false));
                    cases.push((n, l, z, true));
                    z = (z - 1) & l;
                }
            }
        }
        NullMarkedLongData { cases }
    }
}
impl Family for NullMarkedLongData {
    fn name(&self) -> String {
        "long-data-for-parameters-also-marked-null".into()
    }
    fn len(&self) -> u64 {
        self.cases.len() as u64
    }
    fn run(&self, idx: u64, st: &mut Stats) -> Result<(), Violation> {
        use super::common::*;
        use crate::conv::*;
        use crate::shim::*;
        use std::sync::Arc;
        let (n, l, z, interleaved) = self.cases[idx as usize];
        st.nontrivial += 1;
        st.bump("null_marked_long_data");
        let data = |p: usize, part: usize| -> Vec<u8> { format!("<{}:{}>", p, part).into_bytes() };
        let inline = |p: usize, round: u8| -> Vec<u8> { vec![p as u8 + 1, round, 0, 0] };
        let mut cmds = vec![ClientCmd::new(with_byte(COM_STMT_PREPARE, format!("id=1 p={}", n).as_bytes()))];
        let longs: Vec<usize> = (0..n).filter(|p| l >> p & 1 == 1).collect();
        if interleaved {
            for part in 0..2 {
                for p in &longs {
                    cmds.push(ClientCmd::new(cmd_long(1, *p as u16, &data(*p, part))));
                }
            }
        } else {
            for p in &longs {
                for part in 0..2 {
                    cmds.push(ClientCmd::new(cmd_long(1, *p as u16, &data(*p, part))));
                }
            }
        }
        let ps: Vec<ExecParam> = (0..n).map(|p| if l >> p & 1 == 1 { ExecParam { ty: 0xfc, unsigned: false, wire: None, long: true } } else { ExecParam { ty: 0x03, unsigned: false, wire: Some(inline(p, 1)), long: false } }).collect();
        let mut blk = exec_block(&ps, true);
        for p in 0..n {
            if z >> p & 1 == 1 {
                blk[p / 8] |= 1 << (p % 8);
            }
        }
        cmds.push(ClientCmd::new(cmd_execute(1, 0, 1, &blk)));
        let ps2: Vec<ExecParam> = (0..n).map(|p| ExecParam { ty: 0x03, unsigned: false, wire: Some(inline(p, 2)), long: false }).collect();
        cmds.push(ClientCmd::new(cmd_execute(1, 0, 1, &exec_block(&ps2, true))));
        cmds.push(ping());
        let conv = Conv::new(cmds);
        let s = conv.stream();
        let stream = Arc::new(s.bytes);
        let mut sim = sim_for(&stream, vec![]);
        sim.log_ops = false;
        let o = run_conn(sim, ConnCfg::new(std_behave()));
        st.transitions += conv.cmds.len() as u64;
        let what = format!("{} parameters, long data for {:?}, of which the NULL bit is also set for {:?}, chunks {}", n, longs, (0..n).filter(|p| z >> p & 1 == 1).collect::<Vec<_>>(), if interleaved { "interleaved" } else { "parameter by parameter" });
        if let ConnResult::Panic(l, m) = &o.res {
            return Err(Violation::new(panic_key(l, m), format!("{}: run_on panicked at {}: {}", what, l, m)));
        }
        if !o.res.is_ok() {
            return Err(Violation::new("result-not-ok", format!("{}: run_on returned {}", what, o.res.short())));
        }
        let execs: Vec<&Vec<(u8, PVal)>> = o.log.iter().filter_map(|(_, c)| if let Cb::Execute { params, .. } = c { Some(params) } else { None }).collect();
        if execs.len() != 2 {
            return Err(Violation::new("executions-missing", format!("{}: {} of 2 executions reached the shim", what, execs.len())));
        }
        for p in 0..n {
            let got = execs[0].get(p).map(|x| &x.1);
            let full = PVal::Bytes([data(p, 0), data(p, 1)].concat());
            let ok = if z >> p & 1 == 1 {
                got == Some(&PVal::Null) || got == Some(&full)
            } else if l >> p & 1 == 1 {
                got == Some(&full)
            } else {
                got == Some(&PVal::Int(i32::from_le_bytes([p as u8 + 1, 1, 0, 0]) as i64))
            };
            if !ok {
                return Err(Violation::new("parameter-differs", format!("{}: the first execution saw parameter {} as {:?}", what, p, got)));
            }
            let got2 = execs[1].get(p).map(|x| &x.1);
            if got2 != Some(&PVal::Int(i32::from_le_bytes([p as u8 + 1, 2, 0, 0]) as i64)) {
                return Err(Violation::new("long-data-delivered-again", format!("{}: the second execution (all values inline) saw parameter {} as {:?}", what, p, got2)));
            }
        }
        if execs[0].len() != n || execs[1].len() != n {
            return Err(Violation::new("parameter-count", format!("{}: executions saw {} and {} parameters", what, execs[0].len(), execs[1].len())));
        }
        decode_all(delivered(&o), &conv, &s.last_seq, conv.cmds.len(), false).map_err(|e| Violation::new("reply-decode", format!("{}: {}", what, e)))?;
        Ok(())
    }
    fn describe(&self, idx: u64) -> J {
        let (n, l, z, i) = self.cases[idx as usize];
        json!({"parameters": n, "long_data_mask": l, "null_bit_mask": z, "interleaved": i})
    }
}

/// a chunk of every size 0..=2100 (and within 8 bytes of every power of two up to 2^17) followed by
/// a 4-byte chunk for the same parameter, an execute binding types and an execute reusing them
/// without long data: a private buffer size an implementation may introduce lies somewhere
struct ChunkSizesDense {
    sizes: Vec<usize>,
}
impl ChunkSizesDense {
    fn new() -> Self {
        let mut sizes: Vec<usize> = (0..=2100).collect();
        for k in 12..=17 {
            for d in -8i64..=8 {
                sizes.push(((1i64 << k) + d) as usize);
            }
        }
        ChunkSizesDense { sizes }
    }
}
impl Family for ChunkSizesDense {
    fn name(&self) -> String {
        "chunks-of-every-size".into()
    }
    fn len(&self) -> u64 {
        self.sizes.len() as u64 * 2
    }
    fn run(&self, idx: u64, st: &mut Stats) -> Result<(), Violation> {
        let n = self.sizes[(idx / 2) as usize];
        let second_param_too = idx % 2 == 1;
        st.nontrivial += 1;
        st.bump("chunks_of_every_size");
        let data: Vec<u8> = (0..n).map(|i| (i * 3 + n) as u8).collect();
        let blk = exec_block(
            &[
                if second_param_too { ExecParam { ty: 0xfc, unsigned: false, wire: None, long: true } } else { ExecParam { ty: 0x03, unsigned: false, wire: Some(vec![9, 8, 7, 6]), long: false } },
                ExecParam { ty: 0xfc, unsigned: false, wire: None, long: true },
            ],
            true,
        );
        let mut payloads = vec![with_byte(COM_STMT_PREPARE, b"id=1 p=2"), cmd_long(1, 1, &data)];
        if second_param_too {
            payloads.push(cmd_long(1, 0, b"other"));
        }
        payloads.push(cmd_long(1, 1, b"tail"));
        payloads.push(cmd_execute(1, 0, 1, &blk));
        payloads.push(cmd_execute(
            1,
            0,
            1,
            &exec_block(&[ExecParam { ty: if second_param_too { 0xfc } else { 0x03 }, unsigned: false, wire: Some(if second_param_too { vec![2, b'x', b'y'] } else { vec![1, 2, 3, 4] }), long: false }, ExecParam { ty: 0xfc, unsigned: false, wire: Some(vec![1, b'q']), long: false }], false),
        ));
        run_payloads(&payloads, &[], st).map(|_| ()).map_err(|mut v| {
            v.msg = format!("a chunk of {} bytes{}: {}", n, if second_param_too { ", a chunk for the other parameter in between" } else { "" }, v.msg);
            v
        })
    }
    fn describe(&self, idx: u64) -> J {
        json!({"chunk_bytes": self.sizes[(idx / 2) as usize], "chunk_for_the_other_parameter_in_between": idx % 2 == 1})
    }
}

pub fn build(quick: bool) -> Check {
    let alpha = alphabet();
    let prefix = vec![Action::Prepare { id: 1, n: 2, ok: true }, Action::Prepare { id: 2, n: 2, ok: true }];
    let mut families: Vec<Box<dyn Family>> = Vec::new();
    for d in 1..=(if quick { 4 } else { 5 }) {
        families.push(Box::new(Tree { label: "long-data".into(), prefix: prefix.clone(), alpha: alpha.clone(), depth: d }));
    }
    if !quick {
        // one level deeper without the large chunks and the out-of-range parameter
        let core: Vec<Action> = alpha.iter().copied().filter(|a| !matches!(a, Action::Long { chunk: 3..=9, .. } | Action::Long { param: 5, .. } | Action::Long { chunk: 0, id: 2, .. })).collect();
        families.push(Box::new(Tree { label: "long-data-core".into(), prefix: prefix.clone(), alpha: core, depth: 6 }));
    }
    // chunks for both parameters of both statements interleaved with executions of either: the
    // histories in which a buffer, cursor or index shared between statements/parameters goes stale
    let mut inter: Vec<Action> = Vec::new();
    for id in [1u32, 2] {
        inter.push(Action::Long { id, param: 0, chunk: 1 });
        inter.push(Action::Long { id, param: 1, chunk: 2 });
        inter.push(Action::Exec { id, bind: Bind::C, null_first: false, shim_ignores: 0 });
    }
    for d in if quick { 5..=7 } else { 5..=9 } {
        families.push(Box::new(Tree { label: "long-data-interleavings".into(), prefix: prefix.clone(), alpha: inter.clone(), depth: d }));
    }
    // ... and with the statements closed and prepared again in between
    let mut inter2 = inter.clone();
    inter2.push(Action::Close { id: 1 });
    inter2.push(Action::Prepare { id: 1, n: 2, ok: true });
    for d in if quick { 5..=6 } else { 5..=7 } {
        families.push(Box::new(Tree { label: "long-data-interleavings-close-prepare".into(), prefix: prefix.clone(), alpha: inter2.clone(), depth: d }));
    }
    families.push(Box::new(Bfs {
        label: "long-data".into(),
        prefix: prefix.clone(),
        alpha: alpha.clone(),
        max_depth: if quick { 5 } else { 9 },
        max_long: 4,
        max_states: if quick { 3000 } else { 300_000 },
    }));
    families.push(Box::new(NullMarkedLongData::new()));
    families.push(Box::new(ChunkSizesDense::new()));
    families.push(Box::new(BigChunk));
    families.push(Box::new(ManyLargeChunks));
    families.push(Box::new(WideLongData));
    families.push(Box::new(Histories { label: "long-data".into(), hists: scale_long_data() }));
    families.push(Box::new(Histories { label: "long-data-counter-wraps".into(), hists: wraps_long_data(quick) }));
    families.push(Box::new(super::soak::Soak { label: "chunks-and-silence", lens: super::soak::lens(quick), mixes: vec![super::soak::Mix::Chunks, super::soak::Mix::Silent, super::soak::Mix::Even], opts: super::soak::opts_all(), big: vec![] }));
    Check {
        id: "C17",
        level: "model_checking",
        rule: format!("a chunk of every size 0..2100 and around every power of two to 2^17 followed by a second chunk, with and without a chunk for the other parameter in between; statements of 2-4 parameters with long data for every non-empty set of parameters of which every non-empty subset is also marked NULL by the client (for those either reading is accepted; every other parameter must arrive exactly and nothing may reach the next execution); two prepared statements of 2 parameters; histories over {} actions: LONG_DATA(id 1|2, parameter 0|1|out of range, chunk \"\"|\"xy\"|\"z\"; 2000- and 12000-byte chunks), EXECUTE(bind LONG | VAR_STRING | MYSQL_TYPE_NULL | reuse; first parameter NULL), CLOSE, re-PREPARE; the client omits inline bytes for parameters with pending long data. Full tree to depth {} (thorough: depth 6 over the alphabet without the large chunks) plus BFS over model states (pending data capped at 4 bytes per parameter) with two witnesses; every interleaving of <= 7 (thorough: 9) actions over (chunk for parameter 0|1 of statement 1|2, EXECUTE 1|2) and of <= 6 (7) with CLOSE 1 / PREPARE 1 added; plus a chunk of 2*(2^24-1)+5 bytes; five chunks of 14 MiB for one parameter (70 MiB delivered); long data for parameters 15..17, 255..257, 511, 512, 999 of statements of 18..1000 parameters; plus long data followed by 8..600 inline executions of the same statement; 2..1000 chunks streamed round-robin to 2-3 parameters; 2000/12000/70000-byte buffers abandoned by CLOSE or emptied by EXECUTE followed by small long data; pairs of statement ids that agree in their low 8/16/24 bits or differ only in the top bit. Long scripted sessions: 130..4099 (thorough: up to 131101) ordinary commands of every kind on one connection in up to six mixes (even, prepare/close churn with growing ids, executions, long-data chunks, unanswered commands, text and library-answered commands) under several client/transport behaviours (pipelined, request ids advancing by 7, lock-step, 1..4093-byte reads, 7/11-byte writes), generated by a fixed rule, kept valid with the registry model and judged on the complete trace (callbacks with arguments, result, strict decode of every reply with its sequence ids). Oracle: the parameter is the in-order concatenation for that statement and parameter, the other parameters keep their inline values, delivery happens to exactly one execution and never to another statement.", alpha.len(), if quick {4} else {5}),
        assumptions: vec!["an empty chunk still marks the parameter as supplied by long data (MySQL semantics: the value is the empty string)".into()],
        bounds: json!({"tree_depth": if quick {4} else {5}, "core_tree_depth": if quick {0} else {6}, "alphabet": alpha.len()}),
        exhaustive: true,
        caps_hit: vec![],
        families,
        required: vec!["chunks_of_every_size", "null_marked_long_data", "soak_sessions", "execute_with_pending_long_data", "multi_packet_chunks", "many_large_chunks", "wide_long_data", "bfs_states", "long_histories"],
    }
}
