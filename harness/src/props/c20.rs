//! C20 — no client byte sequence can crash or wedge a connection: all short strings over a
//! reduced alphabet, all short framed payloads over all byte values, structured EXECUTE tails,
//! every single-byte mutation / truncation / deletion / duplication / sequence id of valid
//! conversations, malformed handshakes, out-of-order fragment ids.

use super::common::*;
use crate::conv::*;
use crate::engine::*;
use crate::refwire::*;
use crate::shim::*;
use msql_srv::{ColumnFlags, ColumnType};
use serde_json::{json, Value as J};
use std::sync::Arc;

fn behave() -> Box<dyn FnMut(usize, &Cb) -> Behavior> {
    let cols = Arc::new(vec![col("c", ColumnType::MYSQL_TYPE_LONG, ColumnFlags::empty())]);
    let rs = Arc::new(vec![WOp::Start(cols.clone()), WOp::WriteRow(vec![Val::I32(1)]), WOp::Finish]);
    let done = Arc::new(vec![WOp::Completed(0, 0)]);
    Box::new(move |_, cb| match cb {
        Cb::Query(t) if t.starts_with('r') => Behavior::Prog(rs.clone()),
        Cb::Query(_) => Behavior::Prog(done.clone()),
        Cb::Execute { .. } => Behavior::Prog(rs.clone()),
        Cb::Prepare(t) => {
            let (id, p, c, mode) = parse_prep(t);
            if mode == "err" {
                Behavior::PrepError(msql_srv::ErrorKind::ER_NO, b"no".to_vec())
            } else {
                Behavior::PrepReply {
                    id,
                    params: param_cols(p),
                    cols: param_cols(c),
                }
            }
        }
        Cb::Init(_) => Behavior::InitOk,
        _ => Behavior::Silent,
    })
}

/// the only oracle of this property: no panic, no wedge; Ok implies everything was flushed
fn judge(stream: Vec<u8>, what: &str, st: &mut Stats) -> Result<(), Violation> {
    judge_cuts(stream, vec![], what, st)
}

fn judge_cuts(stream: Vec<u8>, cuts: Vec<usize>, what: &str, st: &mut Stats) -> Result<(), Violation> {
    let stream = Arc::new(stream);
    let mut sim = sim_for(&stream, cuts);
    sim.log_ops = false;
    sim.max_ops = 200_000;
    let o = run_conn(sim, ConnCfg::new(behave()));
    st.transitions += (o.sim.n_reads + o.sim.n_writes) as u64;
    match &o.res {
        ConnResult::Panic(l, m) => return Err(Violation::new(panic_key(l, m), format!("{}: run_on panicked at {}: {}", what, l, m)).with(json!({"stream_hex": hex(&stream[..stream.len().min(600)])}))),
        ConnResult::Ok => {
            st.bump("outcome_ok");
            if o.sim.flushed != o.sim.out.len() {
                return Err(Violation::new("ok-with-unflushed-output", format!("{}: run_on returned Ok with unflushed bytes", what)));
            }
        }
        _ => st.bump("outcome_err"),
    }
    if o.sim.budget_exhausted {
        return Err(Violation::new("wedge", format!("{}: more than 200000 transport operations on a {}-byte input", what, stream.len())));
    }
    if o.log.iter().any(|(_, c)| matches!(c, Cb::Execute { .. })) {
        st.bump("executes_reaching_the_shim");
    }
    // whatever was flushed must at least be well-framed packets
    if let Err(e) = split_packets(&o.sim.out[..o.sim.flushed]) {
        return Err(Violation::new("ill-framed-output", format!("{}: {}", what, e)));
    }
    Ok(())
}

fn prefix(nparams: usize) -> Vec<u8> {
    let mut v = default_handshake();
    v.extend_from_slice(&frame(0, &with_byte(COM_STMT_PREPARE, format!("id=1 p={}", nparams).as_bytes())).0);
    v
}

const ALPHA13: [u8; 13] = [0x00, 0x01, 0x02, 0x03, 0x04, 0x05, 0x0e, 0x16, 0x17, 0x18, 0x19, 0xfe, 0xff];

/// all raw (unframed) strings up to a length over the 13-symbol alphabet, after handshake+prepare
struct RawStrings {
    len: usize,
    as_handshake: bool,
}
impl Family for RawStrings {
    fn name(&self) -> String {
        format!("raw-strings-len-{}{}", self.len, if self.as_handshake { "-as-handshake" } else { "" })
    }
    fn len(&self) -> u64 {
        13u64.pow(self.len as u32)
    }
    fn run(&self, idx: u64, st: &mut Stats) -> Result<(), Violation> {
        let d = digits(idx, &vec![13; self.len]);
        let raw: Vec<u8> = d.iter().map(|i| ALPHA13[*i as usize]).collect();
        st.nontrivial += 1;
        let mut s = if self.as_handshake { Vec::new() } else { prefix(1) };
        s.extend_from_slice(&raw);
        judge(s, &format!("raw bytes {}", hex(&raw)), st)
    }
    fn describe(&self, idx: u64) -> J {
        let d = digits(idx, &vec![13; self.len]);
        json!({"raw_bytes_hex": hex(&d.iter().map(|i| ALPHA13[*i as usize]).collect::<Vec<u8>>()), "after": if self.as_handshake {"greeting (as the handshake response)"} else {"handshake + PREPARE(1 param)"}})
    }
}

/// all framed payloads of exactly `len` bytes over all 256 values
struct FramedAll {
    len: usize,
    as_handshake: bool,
    nparams: usize,
}
impl Family for FramedAll {
    fn name(&self) -> String {
        format!("framed-payloads-len-{}{}-p{}", self.len, if self.as_handshake { "-as-handshake" } else { "" }, self.nparams)
    }
    fn len(&self) -> u64 {
        256u64.pow(self.len as u32)
    }
    fn run(&self, idx: u64, st: &mut Stats) -> Result<(), Violation> {
        let d = digits(idx, &vec![256; self.len]);
        // most significant digit = first byte so that neighbours share a command byte
        let payload: Vec<u8> = d.iter().rev().map(|x| *x as u8).collect();
        st.nontrivial += 1;
        let mut s = if self.as_handshake { Vec::new() } else { prefix(self.nparams) };
        s.extend_from_slice(&frame(if self.as_handshake { 1 } else { 0 }, &payload).0);
        s.extend_from_slice(&frame(0, &[COM_PING]).0);
        judge(s, &format!("framed payload {}", hex(&payload)), st)
    }
    fn describe(&self, idx: u64) -> J {
        let d = digits(idx, &vec![256; self.len]);
        json!({"payload_hex": hex(&d.iter().rev().map(|x| *x as u8).collect::<Vec<u8>>())})
    }
}

/// COM_STMT_EXECUTE parameter blocks: bitmap x flag x every type code x unsigned x short values
struct ExecTails {
    nparams: usize,
}
const VB: [u8; 6] = [0x00, 0x01, 0xfb, 0xfc, 0xfe, 0xff];
impl ExecTails {
    fn radices(&self) -> Vec<u64> {
        // bitmap choice, flag, type code, unsigned, value length 0..=3, value bytes (6^3)
        vec![4, 3, 256, 2, 4, 216]
    }
    fn block(&self, idx: u64) -> Vec<u8> {
        let d = digits(idx, &self.radices());
        let bm_len = (self.nparams + 7) / 8;
        let bmv = [0x00u8, 0x01, 0xaa, 0xff][d[0] as usize];
        let mut b = vec![bmv; bm_len];
        b.push([0u8, 1, 2][d[1] as usize]);
        for i in 0..self.nparams {
            // the enumerated type goes to the first parameter, LONG to the others
            if i == 0 {
                b.push(d[2] as u8);
                b.push(if d[3] == 1 { 0x80 } else { 0 });
            } else {
                b.push(0x03);
                b.push(0);
            }
        }
        let vl = d[4] as usize;
        let mut x = d[5];
        for _ in 0..vl {
            b.push(VB[(x % 6) as usize]);
            x /= 6;
        }
        b
    }
}
impl Family for ExecTails {
    fn name(&self) -> String {
        format!("execute-blocks-p{}", self.nparams)
    }
    fn len(&self) -> u64 {
        self.radices().iter().product()
    }
    fn run(&self, idx: u64, st: &mut Stats) -> Result<(), Violation> {
        let b = self.block(idx);
        st.nontrivial += 1;
        let mut s = prefix(self.nparams);
        // first a well-formed bind so that "reuse" blocks have types to reuse (half the cases)
        if idx % 2 == 0 {
            let good: Vec<ExecParam> = (0..self.nparams)
                .map(|_| ExecParam {
                    ty: 0x03,
                    unsigned: false,
                    wire: Some(vec![1, 0, 0, 0]),
                    long: false,
                })
                .collect();
            s.extend_from_slice(&frame(0, &cmd_execute(1, 0, 1, &exec_block(&good, true))).0);
        }
        s.extend_from_slice(&frame(0, &cmd_execute(1, 0, 1, &b)).0);
        s.extend_from_slice(&frame(0, &[COM_PING]).0);
        judge(s, &format!("execute block {}", hex(&b)), st)
    }
    fn describe(&self, idx: u64) -> J {
        json!({"declared_params": self.nparams, "parameter_block_hex": hex(&self.block(idx)), "preceded_by_valid_bind": idx % 2 == 0})
    }
}

/// every prefix of well-formed parameter blocks (bind and reuse forms, several NULL bitmaps,
/// with and without pending long data, with and without an earlier valid bind)
struct ExecPrefixes {
    nparams: usize,
}
impl ExecPrefixes {
    fn case(&self, idx: u64) -> (Vec<u8>, bool, bool, String) {
        let d = digits(idx, &[3, 2, 2, 2, 64]);
        let n = self.nparams;
        let nulls = |i: usize| match d[0] {
            0 => false,
            1 => true,
            _ => i % 2 == 0,
        };
        let bind = d[1] == 1;
        let long_pending = d[2] == 1;
        let earlier_bind = d[3] == 1;
        let ps: Vec<ExecParam> = (0..n)
            .map(|i| ExecParam {
                ty: if i % 2 == 0 { 0x03 } else { 0xfd },
                unsigned: false,
                wire: if nulls(i) || long_pending { None } else if i % 2 == 0 { Some(vec![1, 2, 3, 4]) } else { Some(vec![2, b'h', b'i']) },
                long: long_pending && !nulls(i),
            })
            .collect();
        let mut b = exec_block(&ps, bind);
        let cut = (d[4] as usize).min(b.len());
        b.truncate(cut);
        (b, long_pending, earlier_bind, format!("nulls={} bind={} long_data_pending={} earlier_bind={} prefix={}", d[0], bind, long_pending, earlier_bind, cut))
    }
}
impl Family for ExecPrefixes {
    fn name(&self) -> String {
        format!("execute-block-prefixes-p{}", self.nparams)
    }
    fn len(&self) -> u64 {
        3 * 2 * 2 * 2 * 64
    }
    fn run(&self, idx: u64, st: &mut Stats) -> Result<(), Violation> {
        let (b, long_pending, earlier_bind, what) = self.case(idx);
        st.nontrivial += 1;
        st.bump("block_prefixes");
        let n = self.nparams;
        let mut s = prefix(n);
        if earlier_bind {
            let good: Vec<ExecParam> = (0..n)
                .map(|i| ExecParam {
                    ty: if i % 2 == 0 { 0x03 } else { 0xfd },
                    unsigned: false,
                    wire: if i % 2 == 0 { Some(vec![9, 9, 9, 9]) } else { Some(vec![1, b'x']) },
                    long: false,
                })
                .collect();
            s.extend_from_slice(&frame(0, &cmd_execute(1, 0, 1, &exec_block(&good, true))).0);
        }
        if long_pending {
            for i in 0..n {
                s.extend_from_slice(&frame(0, &cmd_long(1, i as u16, b"L")).0);
            }
        }
        s.extend_from_slice(&frame(0, &cmd_execute(1, 0, 1, &b)).0);
        s.extend_from_slice(&frame(0, &[COM_PING]).0);
        judge(s, &format!("execute block prefix ({}) {}", what, hex(&b)), st)
    }
    fn describe(&self, idx: u64) -> J {
        let (b, _, _, what) = self.case(idx);
        json!({"declared_params": self.nparams, "case": what, "parameter_block_hex": hex(&b)})
    }
}

fn base_conversations() -> Vec<(String, Vec<u8>, Vec<usize>)> {
    let mut v = Vec::new();
    let mut add = |label: &str, cmds: Vec<ClientCmd>| {
        let conv = Conv::new(cmds);
        let s = conv.stream();
        v.push((label.to_string(), s.bytes, s.headers));
    };
    add("query, resultset query, ping, quit", vec![q(b"SELECT 1"), q(b"rows"), ping(), quit()]);
    let p2 = |bind: bool| {
        exec_block(
            &[
                ExecParam { ty: 0x03, unsigned: false, wire: Some(vec![7, 0, 0, 0]), long: false },
                ExecParam { ty: 0xfd, unsigned: false, wire: Some(vec![3, b'a', b'b', b'c']), long: false },
            ],
            bind,
        )
    };
    add(
        "prepare(2 params), execute bind, execute reuse, close",
        vec![
            ClientCmd::new(with_byte(COM_STMT_PREPARE, b"id=1 p=2 c=1")),
            ClientCmd::new(cmd_execute(1, 0, 1, &p2(true))),
            ClientCmd::new(cmd_execute(1, 0, 1, &p2(false))),
            ClientCmd::new(cmd_close(1)),
            ping(),
        ],
    );
    add(
        "prepare, long data, execute",
        vec![
            ClientCmd::new(with_byte(COM_STMT_PREPARE, b"id=1 p=1")),
            ClientCmd::new(cmd_long(1, 0, b"hello")),
            ClientCmd::new(cmd_execute(1, 0, 1, &exec_block(&[ExecParam { ty: 0xfc, unsigned: false, wire: None, long: true }], true))),
            ping(),
        ],
    );
    add(
        "init db, USE, field list, SELECT @@",
        vec![
            ClientCmd::new(with_byte(COM_INIT_DB, b"db")),
            q(b"USE `x`;"),
            ClientCmd::new(with_byte(COM_FIELD_LIST, b"t\0")),
            q(b"SELECT @@max_allowed_packet"),
            q(b"select @@v"),
        ],
    );
    let nine: Vec<ExecParam> = vec![
        ExecParam { ty: 0x01, unsigned: true, wire: Some(vec![200]), long: false },
        ExecParam { ty: 0x02, unsigned: false, wire: Some(vec![1, 2]), long: false },
        ExecParam { ty: 0x08, unsigned: true, wire: Some(vec![1, 2, 3, 4, 5, 6, 7, 8]), long: false },
        ExecParam { ty: 0x05, unsigned: false, wire: Some(1.5f64.to_le_bytes().to_vec()), long: false },
        ExecParam { ty: 0x04, unsigned: false, wire: Some(2.5f32.to_le_bytes().to_vec()), long: false },
        ExecParam { ty: 0x0c, unsigned: false, wire: Some(vec![11, 0xe4, 0x07, 1, 2, 3, 4, 5, 6, 0, 0, 0]), long: false },
        ExecParam { ty: 0x0b, unsigned: false, wire: Some(vec![8, 0, 1, 0, 0, 0, 2, 3, 4]), long: false },
        ExecParam { ty: 0x0a, unsigned: false, wire: Some(vec![4, 0xe4, 0x07, 12, 31]), long: false },
        ExecParam { ty: 0xfd, unsigned: false, wire: None, long: false },
    ];
    add(
        "prepare(9 params), execute with every value family and a NULL in the second bitmap byte",
        vec![
            ClientCmd::new(with_byte(COM_STMT_PREPARE, b"id=1 p=9")),
            ClientCmd::new(cmd_execute(1, 0, 1, &exec_block(&nine, true))),
            ping(),
        ],
    );
    v
}

/// every single-byte substitution (all 256 values), truncation, deletion, duplication of a
/// valid conversation
struct Mutations {
    label: String,
    base: Vec<u8>,
    headers: Vec<usize>,
}
impl Mutations {
    fn n(&self) -> u64 {
        self.base.len() as u64
    }
    fn mutate(&self, idx: u64) -> (Vec<u8>, String) {
        let n = self.n();
        if idx < n * 256 {
            let pos = (idx / 256) as usize;
            let val = (idx % 256) as u8;
            let mut s = self.base.clone();
            s[pos] = val;
            return (s, format!("byte {} := 0x{:02x}", pos, val));
        }
        let r = idx - n * 256;
        if r < n {
            return (self.base[..r as usize].to_vec(), format!("truncated to {} bytes", r));
        }
        let r = r - n;
        if r < n {
            let mut s = self.base.clone();
            s.remove(r as usize);
            return (s, format!("byte {} deleted", r));
        }
        let r = (r - n) as usize;
        let mut s = self.base.clone();
        let b = s[r];
        s.insert(r, b);
        (s, format!("byte {} duplicated", r))
    }
}
impl Family for Mutations {
    fn name(&self) -> String {
        format!("mutations:{}", self.label)
    }
    fn len(&self) -> u64 {
        self.n() * 256 + 3 * self.n()
    }
    fn run(&self, idx: u64, st: &mut Stats) -> Result<(), Violation> {
        let (s, what) = self.mutate(idx);
        if idx < self.n() * 256 {
            let pos = (idx / 256) as usize;
            if self.headers.iter().any(|h| pos == h + 3) {
                st.bump("sequence_id_mutations");
            }
            if self.headers.iter().any(|h| pos >= *h && pos < h + 3) {
                st.bump("length_field_mutations");
            }
        }
        if s != self.base {
            st.nontrivial += 1;
        }
        judge(s, &format!("{} / {}", self.label, what), st)
    }
    fn describe(&self, idx: u64) -> J {
        let (s, what) = self.mutate(idx);
        json!({"conversation": self.label, "mutation": what, "stream_hex": hex(&s)})
    }
}

/// multi-fragment requests whose fragments carry every combination of ids from a small set,
/// arriving whole and with a read ending at / just before / inside / just behind the header of the
/// second fragment
const FRAG_CUTS: [Option<i64>; 6] = [None, Some(0), Some(-1), Some(1), Some(4), Some(5)];
struct FragmentIds {
    ids: Vec<u8>,
}
impl Family for FragmentIds {
    fn name(&self) -> String {
        "fragment-sequence-ids".into()
    }
    fn len(&self) -> u64 {
        (self.ids.len() * self.ids.len() * FRAG_CUTS.len()) as u64
    }
    fn max_threads(&self) -> Option<usize> {
        Some(8)
    }
    fn run(&self, idx: u64, st: &mut Stats) -> Result<(), Violation> {
        let sched = idx as usize % FRAG_CUTS.len();
        let idx = idx / FRAG_CUTS.len() as u64;
        let a = self.ids[idx as usize / self.ids.len()];
        let b = self.ids[idx as usize % self.ids.len()];
        let mut payload = vec![COM_QUERY];
        payload.resize(MAXP + 5, b'z');
        let (mut f, _) = frame(a, &payload);
        // overwrite the id of the second fragment
        f[4 + MAXP + 3] = b;
        let mut s = default_handshake();
        s.extend_from_slice(&f);
        s.extend_from_slice(&frame(0, &[COM_PING]).0);
        if b != a.wrapping_add(1) {
            st.nontrivial += 1;
            st.bump("out_of_order_fragments");
        }
        // where a read ends, relative to the end of the first fragment
        let end1 = default_handshake().len() + 4 + MAXP;
        let cuts = match FRAG_CUTS[sched] {
            None => vec![],
            Some(d) => vec![(end1 as i64 + d) as usize],
        };
        judge_cuts(s, cuts.clone(), &format!("fragments with ids {} then {}, read boundaries {:?} (the first fragment ends at {})", a, b, cuts, end1), st)
    }
    fn describe(&self, idx: u64) -> J {
        let sched = idx as usize % FRAG_CUTS.len();
        let idx = idx / FRAG_CUTS.len() as u64;
        json!({"first_fragment_id": self.ids[idx as usize / self.ids.len()], "second_fragment_id": self.ids[idx as usize % self.ids.len()], "read_boundary_relative_to_the_end_of_the_first_fragment": FRAG_CUTS[sched]})
    }
}


/// length prefixes of variable-length parameter values: every length-encoding form with
/// announced lengths from 0 to 2^64-1 (far more than the packet holds), truncated prefixes, and
/// every length byte 0..255 for the temporal types, followed by 0..300 bytes of data
struct LenencExtremes;
const VAR_TYPES: [u8; 18] = [0x00, 0x0f, 0x10, 0xf5, 0xf6, 0xf7, 0xf8, 0xf9, 0xfa, 0xfb, 0xfc, 0xfd, 0xfe, 0xff, 0x07, 0x0a, 0x0b, 0x0c];
impl LenencExtremes {
    fn prefixes() -> Vec<Vec<u8>> {
        let mut v: Vec<Vec<u8>> = Vec::new();
        for b in 0..=255u8 {
            v.push(vec![b]);
        }
        for x in [0u16, 1, 250, 251, 0x7fff, 0x8000, 0xffff] {
            let mut p = vec![0xfc];
            p.extend_from_slice(&x.to_le_bytes());
            v.push(p);
        }
        for x in [0u32, 1, 0xffff, 0x10000, 0x7fffff, 0xffffff] {
            let mut p = vec![0xfd];
            p.extend_from_slice(&x.to_le_bytes()[..3]);
            v.push(p);
        }
        let mut big: Vec<u64> = vec![0, 1, 250, 1 << 16, 1 << 24, (1 << 32) - 1, 1 << 32, (1 << 63) - 1, 1 << 63];
        for d in 0..=24u64 {
            big.push(u64::MAX - d);
        }
        for x in big {
            let mut p = vec![0xfe];
            p.extend_from_slice(&x.to_le_bytes());
            v.push(p);
        }
        // truncated multi-byte prefixes
        for (lead, n) in [(0xfcu8, 2usize), (0xfd, 3), (0xfe, 8)] {
            for k in 0..n {
                let mut p = vec![lead];
                p.extend(std::iter::repeat(0xff).take(k));
                v.push(p);
            }
        }
        v
    }
    const AVAIL: [usize; 5] = [0, 1, 7, 12, 300];
    fn case(idx: u64) -> (u8, Vec<u8>, usize, bool) {
        let pf = Self::prefixes();
        let d = digits(idx, &[VAR_TYPES.len() as u64, pf.len() as u64, Self::AVAIL.len() as u64, 2]);
        (VAR_TYPES[d[0] as usize], pf[d[1] as usize].clone(), Self::AVAIL[d[2] as usize], d[3] == 1)
    }
}
impl Family for LenencExtremes {
    fn name(&self) -> String {
        "execute-value-length-prefixes".into()
    }
    fn len(&self) -> u64 {
        (VAR_TYPES.len() * Self::prefixes().len() * Self::AVAIL.len() * 2) as u64
    }
    fn run(&self, idx: u64, st: &mut Stats) -> Result<(), Violation> {
        let (ty, pf, avail, two) = Self::case(idx);
        st.nontrivial += 1;
        st.bump("length_prefix_cases");
        let n = if two { 2 } else { 1 };
        // NULL bitmap, bind flag, type table, then the value under test (+ a LONG for the second)
        let mut b = vec![0u8, 1, ty, 0];
        if two {
            b.extend_from_slice(&[0x03, 0]);
        }
        b.extend_from_slice(&pf);
        b.extend((0..avail).map(|i| b'a' + (i % 26) as u8));
        if two {
            b.extend_from_slice(&[1, 0, 0, 0]);
        }
        let mut s = prefix(n);
        s.extend_from_slice(&frame(0, &cmd_execute(1, 0, 1, &b)).0);
        s.extend_from_slice(&frame(0, &[COM_PING]).0);
        judge(s, &format!("type {:#04x}, length prefix {}, {} data bytes, {} parameter(s)", ty, hex(&pf), avail, n), st)
    }
    fn describe(&self, idx: u64) -> J {
        let (ty, pf, avail, two) = Self::case(idx);
        json!({"type": format!("{:#04x}", ty), "length_prefix_hex": hex(&pf), "data_bytes_present": avail, "declared_params": if two { 2 } else { 1 }})
    }
}

/// requests of 2^24-1 bytes and more (well-formed and with a damaged continuation) whose reads
/// end at every position around each packet header and at the end of the stream
struct LargeInputs {
    cases: Vec<(usize, u8, usize)>, // (payload size, damage, cut position; 0 = none)
}
impl LargeInputs {
    fn stream(size: usize, damage: u8) -> (Vec<u8>, Vec<usize>) {
        let mut payload = vec![COM_QUERY];
        payload.resize(size, b'y');
        let (mut f, _) = frame(0, &payload);
        let hs = default_handshake();
        let mut headers = Vec::new();
        let mut off = 0;
        while off < f.len() {
            headers.push(hs.len() + off);
            let n = f[off] as usize | (f[off + 1] as usize) << 8 | (f[off + 2] as usize) << 16;
            off += 4 + n;
        }
        match damage {
            1 => {
                // the closing packet is missing: the stream ends after the last maximal packet
                let last = *headers.last().unwrap() - hs.len();
                f.truncate(last);
                headers.pop();
            }
            2 => {
                // the continuation announces more than follows
                let last = *headers.last().unwrap() - hs.len();
                f[last] = 0xff;
                f[last + 1] = 0x7f;
            }
            _ => {}
        }
        let mut s = hs;
        s.extend_from_slice(&f);
        if damage == 0 {
            s.extend_from_slice(&frame(0, &[COM_PING]).0);
        }
        (s, headers)
    }
    fn new(sizes: &[usize]) -> Self {
        let mut cases = Vec::new();
        for &size in sizes {
            for damage in 0..3u8 {
                let (s, headers) = Self::stream(size, damage);
                cases.push((size, damage, 0));
                let mut cands = Vec::new();
                for h in headers.iter().skip(1) {
                    for d in -1i64..=5 {
                        cands.push((*h as i64 + d) as usize);
                    }
                }
                for d in 1..=5 {
                    cands.push(s.len() - d);
                }
                cands.sort();
                cands.dedup();
                for c in cands {
                    if c > 0 && c < s.len() {
                        cases.push((size, damage, c));
                    }
                }
            }
        }
        LargeInputs { cases }
    }
}
impl Family for LargeInputs {
    fn name(&self) -> String {
        "large-requests-read-boundaries".into()
    }
    fn len(&self) -> u64 {
        self.cases.len() as u64
    }
    fn max_threads(&self) -> Option<usize> {
        Some(8)
    }
    fn run(&self, idx: u64, st: &mut Stats) -> Result<(), Violation> {
        let (size, damage, cut) = self.cases[idx as usize];
        st.nontrivial += 1;
        st.bump("large_inputs");
        let (s, _) = Self::stream(size, damage);
        let cuts = if cut == 0 { vec![] } else { vec![cut] };
        judge_cuts(s, cuts, &format!("request of {} payload bytes, {}, read boundary at {}", size, ["well-formed", "closing packet missing", "continuation announces more than follows"][damage as usize], cut), st)
    }
    fn describe(&self, idx: u64) -> J {
        let (size, damage, cut) = self.cases[idx as usize];
        let dmg = ["none", "closing packet missing", "continuation announces more than follows"][damage as usize];
        json!({"request_payload_bytes": size, "damage": dmg, "read_boundary_at": cut})
    }
}


/// a client that asks for TLS (which the shim offers) and then sends something else than a TLS
/// handshake: short byte strings, record headers with every content type / version / length
/// class with and without body, a plaintext handshake response, a real ClientHello with every
/// byte damaged or cut short. run_on must come back with an error (or Ok) - no panic, no wedge -
/// and must never reach the shim.
struct TlsGarbage {
    cases: Vec<(String, Vec<u8>)>,
}
fn recorded_client_hello() -> &'static Vec<u8> {
    static HELLO: std::sync::OnceLock<Vec<u8>> = std::sync::OnceLock::new();
    HELLO.get_or_init(|| {
        #[derive(Debug)]
        struct NoVerify;
        impl rustls::client::danger::ServerCertVerifier for NoVerify {
            fn verify_server_cert(&self, _: &rustls::pki_types::CertificateDer<'_>, _: &[rustls::pki_types::CertificateDer<'_>], _: &rustls::pki_types::ServerName<'_>, _: &[u8], _: rustls::pki_types::UnixTime) -> Result<rustls::client::danger::ServerCertVerified, rustls::Error> {
                Ok(rustls::client::danger::ServerCertVerified::assertion())
            }
            fn verify_tls12_signature(&self, _: &[u8], _: &rustls::pki_types::CertificateDer<'_>, _: &rustls::DigitallySignedStruct) -> Result<rustls::client::danger::HandshakeSignatureValid, rustls::Error> {
                Ok(rustls::client::danger::HandshakeSignatureValid::assertion())
            }
            fn verify_tls13_signature(&self, _: &[u8], _: &rustls::pki_types::CertificateDer<'_>, _: &rustls::DigitallySignedStruct) -> Result<rustls::client::danger::HandshakeSignatureValid, rustls::Error> {
                Ok(rustls::client::danger::HandshakeSignatureValid::assertion())
            }
            fn supported_verify_schemes(&self) -> Vec<rustls::SignatureScheme> {
                rustls::crypto::ring::default_provider().signature_verification_algorithms.supported_schemes()
            }
        }
        let cfg = rustls::ClientConfig::builder().dangerous().with_custom_certificate_verifier(Arc::new(NoVerify)).with_no_client_auth();
        let mut c = rustls::ClientConnection::new(Arc::new(cfg), rustls::pki_types::ServerName::try_from("localhost").unwrap()).unwrap();
        let mut out = Vec::new();
        while c.wants_write() {
            if c.write_tls(&mut out).unwrap_or(0) == 0 {
                break;
            }
        }
        out
    })
}
impl TlsGarbage {
    fn new(quick: bool) -> Self {
        let mut cases: Vec<(String, Vec<u8>)> = Vec::new();
        cases.push(("nothing (end of stream)".into(), vec![]));
        for a in 0..=255u8 {
            cases.push((format!("one byte {:02x}", a), vec![a]));
        }
        if !quick {
            for a in 0..=255u8 {
                for b in 0..=255u8 {
                    cases.push((format!("two bytes {:02x}{:02x}", a, b), vec![a, b]));
                }
            }
        }
        for ct in [0x00u8, 0x14, 0x15, 0x16, 0x17, 0x18, 0x19, 0x80, 0xff] {
            for ver in [[3u8, 1], [3, 3], [3, 4], [0, 0], [2, 0], [0xff, 0xff]] {
                for len in [0usize, 1, 4, 5, 100, 16384, 16385, 18432, 18433, 65535] {
                    for body in [0usize, 1, 4, len.min(64), len] {
                        if body > len {
                            continue;
                        }
                        let mut v = vec![ct, ver[0], ver[1], (len >> 8) as u8, len as u8];
                        // a plausible handshake header inside, then filler
                        let mut b: Vec<u8> = vec![0x01, 0x00, (len.saturating_sub(4) >> 8) as u8, len.saturating_sub(4) as u8];
                        b.resize(body.max(4), 0x41);
                        v.extend_from_slice(&b[..body]);
                        cases.push((format!("record header type {:#04x} version {:02x}{:02x} length {} with {} body bytes", ct, ver[0], ver[1], len, body), v));
                    }
                }
            }
        }
        // the client goes on in plaintext
        let caps = CAP_LONG_PASSWORD | CAP_PROTOCOL_41 | CAP_SECURE_CONNECTION | CAP_SSL;
        let mut plain = frame(2, &handshake41(caps, 1 << 24, 0x21, b"u", &[0])).0;
        plain.extend_from_slice(&frame(0, &with_byte(COM_QUERY, b"x")).0);
        cases.push(("a plaintext HandshakeResponse41 and a query".into(), plain));
        // a real ClientHello, damaged
        let hello = recorded_client_hello().clone();
        cases.push(("a complete ClientHello, then end of stream".into(), hello.clone()));
        for cut in 0..hello.len() {
            cases.push((format!("ClientHello cut after {} of {} bytes", cut, hello.len()), hello[..cut].to_vec()));
        }
        for pos in 0..hello.len() {
            for val in [0x00u8, 0xff, hello[pos] ^ 1, hello[pos] ^ 0x80, hello[pos].wrapping_add(1)] {
                if val == hello[pos] {
                    continue;
                }
                let mut h = hello.clone();
                h[pos] = val;
                cases.push((format!("ClientHello with byte {} set to {:#04x}", pos, val), h));
            }
        }
        TlsGarbage { cases }
    }
}
impl Family for TlsGarbage {
    fn name(&self) -> String {
        "tls-requested-then-not-tls".into()
    }
    fn len(&self) -> u64 {
        self.cases.len() as u64 * 2
    }
    fn run(&self, idx: u64, st: &mut Stats) -> Result<(), Violation> {
        let (what, tail) = &self.cases[(idx / 2) as usize];
        let coalesced = idx % 2 == 0;
        st.nontrivial += 1;
        st.bump("tls_garbage_cases");
        let caps = CAP_LONG_PASSWORD | CAP_PROTOCOL_41 | CAP_SECURE_CONNECTION | CAP_SSL;
        let mut stream = frame(1, &ssl_request(caps, 1 << 24, 0x21)).0;
        let cut = stream.len();
        stream.extend_from_slice(tail);
        let stream = Arc::new(stream);
        let mut sim = sim_for(&stream, if coalesced { vec![] } else { vec![cut] });
        sim.log_ops = false;
        sim.max_ops = 200_000;
        let mut cfg = ConnCfg::new(behave());
        cfg.tls = Some(crate::tlsutil::pki().server_plain.clone());
        let o = run_conn(sim, cfg);
        st.transitions += (o.sim.n_reads + o.sim.n_writes) as u64;
        let what = format!("SSL request, then {} ({})", what, if coalesced { "in the same read" } else { "in its own read" });
        if let ConnResult::Panic(l, m) = &o.res {
            return Err(Violation::new(panic_key(l, m), format!("{}: run_on panicked at {}: {}", what, l, m)).with(json!({"after_ssl_request_hex": hex(tail)})));
        }
        if o.sim.budget_exhausted {
            return Err(Violation::new("wedge", format!("{}: more than 200000 transport operations", what)));
        }
        if !o.log.is_empty() {
            return Err(Violation::new("served-without-tls", format!("{}: the shim was called ({}) although no TLS session was established", what, cb_short(&o.log[0].1))));
        }
        if o.res.is_ok() {
            return Err(Violation::new("broken-upgrade-reported-ok", format!("{}: run_on returned Ok", what)));
        }
        st.bump("outcome_err");
        Ok(())
    }
    fn describe(&self, idx: u64) -> J {
        let (what, tail) = &self.cases[(idx / 2) as usize];
        json!({"after_the_ssl_request": what, "bytes_hex": hex(&tail[..tail.len().min(80)]), "coalesced_with_ssl_request": idx % 2 == 0})
    }
}


/// statement lifecycles as a source of inconsistent input: every sequence of <= 5 actions over
/// re-prepares with 1/2/3 parameters (without closing), executions that bind or reuse, long data
/// for parameters that exist or not, close - encoded the way a client that trusts the *previous*
/// shape of the statement would. Only the no-panic / no-wedge oracle applies here.
struct Lifecycles {
    depth: usize,
    two: bool,
}
impl Lifecycles {
    fn alpha() -> Vec<super::registry::Action> {
        use super::registry::{Action, Bind};
        vec![
            Action::Prepare { id: 1, n: 1, ok: true },
            Action::Prepare { id: 1, n: 2, ok: true },
            Action::Prepare { id: 1, n: 3, ok: true },
            Action::Exec { id: 1, bind: Bind::A, null_first: false, shim_ignores: 0 },
            Action::Exec { id: 1, bind: Bind::C, null_first: true, shim_ignores: 0 },
            Action::Exec { id: 1, bind: Bind::Reuse, null_first: false, shim_ignores: 0 },
            Action::Long { id: 1, param: 0, chunk: 1 },
            Action::Long { id: 1, param: 2, chunk: 1 },
            Action::Close { id: 1 },
        ]
    }
    /// with a second statement next to the first (and a chunk for the middle parameter)
    fn alpha2() -> Vec<super::registry::Action> {
        use super::registry::{Action, Bind};
        let mut a = Self::alpha();
        a.extend(vec![
            Action::Long { id: 1, param: 1, chunk: 1 },
            Action::Prepare { id: 2, n: 2, ok: true },
            Action::Exec { id: 2, bind: Bind::A, null_first: false, shim_ignores: 0 },
            Action::Long { id: 2, param: 1, chunk: 1 },
            Action::Close { id: 2 },
        ]);
        a
    }
    fn alphabet(&self) -> Vec<super::registry::Action> {
        if self.two {
            Self::alpha2()
        } else {
            Self::alpha()
        }
    }
    fn hist(&self, idx: u64) -> Vec<super::registry::Action> {
        let a = self.alphabet();
        digits(idx / 4, &vec![a.len() as u64; self.depth]).iter().map(|i| a[*i as usize]).collect()
    }
}
impl Family for Lifecycles {
    fn name(&self) -> String {
        format!("statement-lifecycles{}-depth-{}", if self.two { "-two-statements" } else { "" }, self.depth)
    }
    fn len(&self) -> u64 {
        4 * (self.alphabet().len() as u64).pow(self.depth as u32)
    }
    fn run(&self, idx: u64, st: &mut Stats) -> Result<(), Violation> {
        let h = self.hist(idx);
        st.nontrivial += 1;
        st.bump("lifecycle_inputs");
        // two encodings: by a client whose model follows every re-prepare, and by one that still
        // believes in the first shape it saw (so blocks are too short / too long for the server)
        let mut s = default_handshake();
        let mut reg = super::model::Registry::default();
        let mut stale = super::model::Registry::default();
        let stale_client = idx % 2 == 1;
        for (step, a) in h.iter().enumerate() {
            let p = if stale_client { super::registry::encode(&stale, a, step) } else { super::registry::encode(&reg, a, step) };
            let _ = reg.route(&p);
            if let super::registry::Action::Prepare { .. } = a {
                if stale.stmts.is_empty() {
                    let _ = stale.route(&p);
                }
            } else {
                let _ = stale.route(&p);
            }
            s.extend_from_slice(&frame(0, &p).0);
        }
        s.extend_from_slice(&frame(0, &[COM_PING]).0);
        // ... and the stream ends two bytes into the next packet header instead of at a boundary
        let torn = idx % 4 >= 2;
        if torn {
            s.extend_from_slice(&[5, 0]);
        }
        judge(s, &format!("{}lifecycle {:?}{}", if stale_client { "stale-client " } else { "" }, h.iter().map(|a| a.short()).collect::<Vec<_>>(), if torn { " + 2 bytes of a header, end of stream" } else { "" }), st)
    }
    fn describe(&self, idx: u64) -> J {
        json!({"history": self.hist(idx).iter().map(|a| a.short()).collect::<Vec<_>>(), "client_model": if idx % 2 == 1 { "stale (first prepare only)" } else { "follows every prepare" }, "stream_ends": if idx % 4 >= 2 { "two bytes into a packet header" } else { "at a packet boundary" }})
    }
}


/// valid UTF-8 text with a multi-byte character at every byte offset (and the same text cut
/// inside that character): slicing at a fixed offset must not panic
struct Utf8Texts;
impl Family for Utf8Texts {
    fn name(&self) -> String {
        "texts-with-multi-byte-characters-at-every-offset".into()
    }
    fn len(&self) -> u64 {
        super::c02::Utf8Offsets::texts().len() as u64 * 3
    }
    fn run(&self, idx: u64, st: &mut Stats) -> Result<(), Violation> {
        let (cmd, t) = super::c02::Utf8Offsets::texts()[(idx / 3) as usize].clone();
        st.nontrivial += 1;
        st.bump("utf8_texts");
        let mut bytes = t.clone().into_bytes();
        match idx % 3 {
            1 => {
                // cut inside the first multi-byte character
                if let Some(p) = bytes.iter().position(|b| *b >= 0x80) {
                    bytes.truncate(p + 1);
                }
            }
            2 => {
                // a stray continuation byte in front of it
                if let Some(p) = bytes.iter().position(|b| *b >= 0x80) {
                    bytes.insert(p, 0xa0);
                }
            }
            _ => {}
        }
        let mut s = prefix(1);
        s.extend_from_slice(&frame(0, &with_byte(cmd, &bytes)).0);
        s.extend_from_slice(&frame(0, &[COM_PING]).0);
        judge(s, &format!("command {:#04x} with text {:?}", cmd, String::from_utf8_lossy(&bytes)), st)
    }
    fn describe(&self, idx: u64) -> J {
        let (cmd, t) = super::c02::Utf8Offsets::texts()[(idx / 3) as usize].clone();
        json!({"command": cmd, "text": t, "variant": idx % 3})
    }
}

/// long texts made of multi-byte characters, so that every byte offset up to 330 falls inside a
/// character for some text: k ASCII bytes, then n characters of 2, 3 or 4 bytes, as the text of
/// USE / COM_INIT_DB / a query / PREPARE / COM_FIELD_LIST. A server that quotes, truncates or
/// limits such a text at a byte count must not slice inside a character.
struct LongMultibyteTexts;
const LMT_CHARS: [&str; 3] = ["\u{e9}", "\u{3000}", "\u{1f600}"];
const LMT_CMDS: [(u8, &str); 6] = [(COM_QUERY, "USE "), (COM_QUERY, "USE `"), (COM_INIT_DB, ""), (COM_QUERY, "q "), (COM_STMT_PREPARE, "id=1 p=1 "), (COM_FIELD_LIST, "")];
impl LongMultibyteTexts {
    fn case(idx: u64) -> (u8, Vec<u8>) {
        let d = digits(idx, &[LMT_CMDS.len() as u64, 3, 4, 111]);
        let (cmd, lead) = LMT_CMDS[d[0] as usize];
        let ch = LMT_CHARS[d[1] as usize];
        let mut t = lead.to_string();
        for _ in 0..d[2] {
            t.push('a');
        }
        for _ in 0..d[3] {
            t.push_str(ch);
        }
        if lead.ends_with('`') {
            t.push('`');
        }
        (cmd, t.into_bytes())
    }
}
impl Family for LongMultibyteTexts {
    fn name(&self) -> String {
        "long-texts-of-multi-byte-characters".into()
    }
    fn len(&self) -> u64 {
        LMT_CMDS.len() as u64 * 3 * 4 * 111
    }
    fn run(&self, idx: u64, st: &mut Stats) -> Result<(), Violation> {
        let (cmd, bytes) = Self::case(idx);
        st.nontrivial += 1;
        st.bump("long_multibyte_texts");
        let mut s = prefix(1);
        s.extend_from_slice(&frame(0, &with_byte(cmd, &bytes)).0);
        s.extend_from_slice(&frame(0, &[COM_PING]).0);
        judge(s, &format!("command {:#04x} with a text of {} bytes", cmd, bytes.len()), st)
    }
    fn describe(&self, idx: u64) -> J {
        let (cmd, bytes) = Self::case(idx);
        json!({"command": cmd, "text_bytes": bytes.len(), "text_starts": String::from_utf8_lossy(&bytes[..bytes.len().min(24)])})
    }
}

/// the statements the library answers itself, followed by every string of <= 3 tokens from a
/// small SQL-ish vocabulary (scopes, quotes, terminators, dots, keywords, odd bytes): whatever
/// grammar an implementation grows for them must not panic on its own edge cases
struct BuiltinTails;
const BT_PREFIX: [&[u8]; 5] = [b"SELECT @@", b"select @@", b"USE ", b"use ", b"SELECT @@max_allowed_packet"];
const BT_TOKENS: [&[u8]; 17] = [b"session.", b"global.", b"local.", b"x", b"max_allowed_packet", b".", b"`", b";", b" ", b" limit 1", b"@", b"\0", b"\xff", b"version_comment", b"/*", b"*/", b"'"];
impl BuiltinTails {
    fn text(idx: u64) -> Vec<u8> {
        let n = BT_TOKENS.len() as u64;
        let per = 1 + n + n * n + n * n * n;
        let mut t = BT_PREFIX[(idx / per) as usize].to_vec();
        let mut r = idx % per;
        let len = if r == 0 { 0 } else if r <= n { r -= 1; 1 } else if r <= n + n * n { r -= 1 + n; 2 } else { r -= 1 + n + n * n; 3 };
        let mut toks = Vec::new();
        for _ in 0..len {
            toks.push((r % n) as usize);
            r /= n;
        }
        for k in toks {
            t.extend_from_slice(BT_TOKENS[k]);
        }
        t
    }
}
impl Family for BuiltinTails {
    fn name(&self) -> String {
        "library-answered-statements-with-every-short-tail".into()
    }
    fn len(&self) -> u64 {
        let n = BT_TOKENS.len() as u64;
        BT_PREFIX.len() as u64 * (1 + n + n * n + n * n * n)
    }
    fn run(&self, idx: u64, st: &mut Stats) -> Result<(), Violation> {
        let t = Self::text(idx);
        st.nontrivial += 1;
        st.bump("builtin_tails");
        let mut s = prefix(1);
        s.extend_from_slice(&frame(0, &with_byte(COM_QUERY, &t)).0);
        s.extend_from_slice(&frame(0, &[COM_PING]).0);
        judge(s, &format!("query {:?}", String::from_utf8_lossy(&t)), st)
    }
    fn describe(&self, idx: u64) -> J {
        json!({"query": String::from_utf8_lossy(&Self::text(idx))})
    }
}

/// statements with very many parameters (counts around 2^8, 2^15 and 2^16), executed with a full
/// type table and values, with the table only, with NULLs only, reusing the table, and with blocks
/// cut at several points: arithmetic on the count (2 * n, n + 7, n / 8) must not overflow or index
/// out of range
struct WideStatements;
const WIDE_COUNTS: [usize; 12] = [255, 256, 257, 4095, 8191, 16383, 16384, 32767, 32768, 32769, 65534, 65535];
impl WideStatements {
    fn stream(idx: u64) -> (Vec<u8>, String) {
        let d = digits(idx, &[WIDE_COUNTS.len() as u64, 7]);
        let n = WIDE_COUNTS[d[0] as usize];
        let mut s = default_handshake();
        s.extend_from_slice(&frame(0, &with_byte(COM_STMT_PREPARE, format!("id=1 p={}", n).as_bytes())).0);
        let bitmap = vec![0u8; (n + 7) / 8];
        let mut types = Vec::with_capacity(2 * n);
        let mut values = Vec::with_capacity(n);
        for i in 0..n {
            types.extend_from_slice(&[0x01, if i % 2 == 0 { 0x00 } else { 0x80 }]);
            values.push((i % 200) as u8);
        }
        let mut full = bitmap.clone();
        full.push(1);
        full.extend_from_slice(&types);
        full.extend_from_slice(&values);
        let mut reuse = bitmap.clone();
        reuse.push(0);
        reuse.extend_from_slice(&values);
        let all_null: Vec<u8> = {
            let mut b = vec![0xffu8; (n + 7) / 8];
            b.push(1);
            b.extend_from_slice(&types);
            b
        };
        let what;
        match d[1] {
            0 => {
                what = "a full block";
                s.extend_from_slice(&frame(0, &cmd_execute(1, 0, 1, &full)).0);
            }
            1 => {
                what = "a full block, then a block that reuses the types";
                s.extend_from_slice(&frame(0, &cmd_execute(1, 0, 1, &full)).0);
                s.extend_from_slice(&frame(0, &cmd_execute(1, 0, 1, &reuse)).0);
            }
            2 => {
                what = "a block that reuses types never bound";
                s.extend_from_slice(&frame(0, &cmd_execute(1, 0, 1, &reuse)).0);
            }
            3 => {
                what = "every parameter NULL";
                s.extend_from_slice(&frame(0, &cmd_execute(1, 0, 1, &all_null)).0);
            }
            4 => {
                what = "a block cut in the middle of the type table";
                s.extend_from_slice(&frame(0, &cmd_execute(1, 0, 1, &full[..bitmap.len() + 1 + n])).0);
            }
            5 => {
                what = "a block cut behind the type table";
                s.extend_from_slice(&frame(0, &cmd_execute(1, 0, 1, &full[..bitmap.len() + 1 + 2 * n])).0);
            }
            _ => {
                what = "long data for the last parameter, then a full block";
                s.extend_from_slice(&frame(0, &cmd_long(1, (n - 1) as u16, b"tail")).0);
                s.extend_from_slice(&frame(0, &cmd_execute(1, 0, 1, &full)).0);
            }
        }
        s.extend_from_slice(&frame(0, &[COM_PING]).0);
        (s, format!("a statement of {} parameters executed with {}", n, what))
    }
}
impl Family for WideStatements {
    fn name(&self) -> String {
        "statements-with-very-many-parameters".into()
    }
    fn len(&self) -> u64 {
        WIDE_COUNTS.len() as u64 * 7
    }
    fn run(&self, idx: u64, st: &mut Stats) -> Result<(), Violation> {
        let (s, what) = Self::stream(idx);
        st.nontrivial += 1;
        st.bump("wide_statements");
        judge(s, &what, st)
    }
    fn describe(&self, idx: u64) -> J {
        json!(Self::stream(idx).1)
    }
}

/// what stands behind the user name of a handshake response: every length-prefix form (announcing 0
/// .. 2^64-1 bytes, truncated prefixes) followed by 0..300 actual bytes, under every combination of
/// the capability bits that give those bytes a meaning (secure connection, length-encoded auth data,
/// database, plugin name, connection attributes). A server that starts reading them must not trust
/// an announced length.
struct HandshakeTails;
const TAIL_CAPS: [u32; 5] = [0x0000_8000, 0x0020_0000, 0x0000_0008, 0x0008_0000, 0x0010_0000];
impl HandshakeTails {
    fn case(idx: u64) -> (u32, Vec<u8>, usize) {
        let pf = LenencExtremes::prefixes();
        let d = digits(idx, &[32, pf.len() as u64, LenencExtremes::AVAIL.len() as u64]);
        let mut caps = 0x0000_0200 | 0x0000_0001; // CLIENT_PROTOCOL_41 | CLIENT_LONG_PASSWORD
        for (i, c) in TAIL_CAPS.iter().enumerate() {
            if d[0] & (1 << i) != 0 {
                caps |= c;
            }
        }
        (caps, pf[d[1] as usize].clone(), LenencExtremes::AVAIL[d[2] as usize])
    }
}
impl Family for HandshakeTails {
    fn name(&self) -> String {
        "handshake-tails-with-every-length-prefix".into()
    }
    fn len(&self) -> u64 {
        32 * LenencExtremes::prefixes().len() as u64 * LenencExtremes::AVAIL.len() as u64
    }
    fn run(&self, idx: u64, st: &mut Stats) -> Result<(), Violation> {
        let (caps, pf, avail) = Self::case(idx);
        st.nontrivial += 1;
        st.bump("handshake_tail_cases");
        let mut tail = pf.clone();
        tail.extend((0..avail).map(|i| b'a' + (i % 26) as u8));
        let mut s = frame(1, &handshake41(caps, 1 << 24, 0x21, b"u", &tail)).0;
        s.extend_from_slice(&frame(0, &[COM_PING]).0);
        judge(s, &format!("handshake response with capabilities {:#010x}, then {:02x?} and {} more bytes behind the user name", caps, pf, avail), st)
    }
    fn describe(&self, idx: u64) -> J {
        let (caps, pf, avail) = Self::case(idx);
        json!({"capabilities": format!("{:#010x}", caps), "length_prefix_hex": hex(&pf), "bytes_following": avail})
    }
}

pub fn build(quick: bool) -> Check {
    let mut families: Vec<Box<dyn Family>> = Vec::new();
    for l in 1..=(if quick { 5 } else { 7 }) {
        families.push(Box::new(RawStrings { len: l, as_handshake: false }));
    }
    for l in 1..=(if quick { 4 } else { 5 }) {
        families.push(Box::new(RawStrings { len: l, as_handshake: true }));
    }
    for l in 0..=(if quick { 2 } else { 3 }) {
        families.push(Box::new(FramedAll { len: l, as_handshake: false, nparams: 1 }));
    }
    for l in 0..=2 {
        families.push(Box::new(FramedAll { len: l, as_handshake: true, nparams: 0 }));
    }
    for p in if quick { vec![1usize] } else { vec![1usize, 2, 9] } {
        families.push(Box::new(ExecTails { nparams: p }));
    }
    for p in [1usize, 2, 9] {
        families.push(Box::new(ExecPrefixes { nparams: p }));
    }
    for (label, base, headers) in base_conversations() {
        families.push(Box::new(Mutations { label, base, headers }));
    }
    // handshake variants as mutation bases (the stream is just the handshake + a ping)
    let caps = CAP_LONG_PASSWORD | CAP_PROTOCOL_41 | CAP_SECURE_CONNECTION | CAP_CONNECT_WITH_DB | CAP_PLUGIN_AUTH;
    for (label, hs) in [
        ("handshake 4.1 with auth/db/plugin trailer", frame(1, &handshake41(caps, 1 << 24, 0x21, b"jon", b"\x04abcddb\0mysql_native_password\0")).0),
        ("handshake 3.20", frame(1, &handshake320(0x0005, 0xffffff, b"old", b"pw\0")).0),
        ("SSL request without TLS configured", frame(1, &ssl_request(caps | CAP_SSL, 1 << 24, 0x21)).0),
    ] {
        let mut base = hs.clone();
        base.extend_from_slice(&frame(0, &[COM_PING]).0);
        families.push(Box::new(Mutations {
            label: label.to_string(),
            base,
            headers: vec![0, hs.len()],
        }));
    }
    families.push(Box::new(TlsGarbage::new(quick)));
    for d in 1..=(if quick { 4 } else { 6 }) {
        families.push(Box::new(Lifecycles { depth: d, two: false }));
    }
    for d in 3..=(if quick { 5 } else { 6 }) {
        families.push(Box::new(Lifecycles { depth: d, two: true }));
    }
    families.push(Box::new(Utf8Texts));
    families.push(Box::new(LongMultibyteTexts));
    families.push(Box::new(WideStatements));
    families.push(Box::new(BuiltinTails));
    families.push(Box::new(LenencExtremes));
    families.push(Box::new(HandshakeTails));
    families.push(Box::new(LargeInputs::new(if quick { &[MAXP, MAXP + 7] } else { &[MAXP - 1, MAXP, MAXP + 7, 2 * MAXP, 2 * MAXP + 7] })));
    families.push(Box::new(FragmentIds {
        ids: if quick { vec![0, 1, 255] } else { vec![0, 1, 2, 127, 254, 255] },
    }));
    Check {
        id: "C20",
        level: "model_checking",
        rule: "SELECT @@ / USE statements followed by every string of <= 3 tokens from a 17-token SQL-ish vocabulary; texts of 0..444 bytes made of 2-, 3- and 4-byte characters behind 0..3 ASCII bytes (every byte offset falls inside a character for some text) as USE / COM_INIT_DB / query / PREPARE / COM_FIELD_LIST text; statements of 255..65535 parameters executed with full, reusing, all-NULL and cut blocks and with long data for the last parameter; client byte strings: all raw strings of length <= 5/7 over a 13-symbol alphabet of command and marker bytes (after handshake+PREPARE, and as the handshake itself); all framed payloads of length <= 2/3 over all 256 byte values; COM_STMT_EXECUTE parameter blocks (4 bitmaps x 3 flags x 256 type codes x unsigned x values of <= 3 bytes over 6 marker bytes, with and without a preceding valid bind; 1/2/9 declared parameters); every prefix of well-formed bind and reuse blocks x NULL bitmaps x pending long data x earlier bind; for 5 valid conversations and 3 handshake forms every single-byte substitution by every value (this includes every sequence id 0..255 and every length-field value on every packet), every truncation, deletion and duplication; two-fragment requests with every pair of fragment ids from a boundary set; variable-length parameter values behind every length-prefix form announcing 0..2^64-1 bytes (and every length byte for the temporal types) with 0..300 bytes present; requests of 2^24-1 bytes and more, well-formed or with a missing / lying continuation, under a read boundary at every position around each packet header and the end of the stream; every statement lifecycle of <= 4 (thorough: 6) actions over re-prepares with 1/2/3 parameters, bind/reuse executions, long data and close, encoded by a client that follows the re-prepares and by one that does not, and of <= 5 (6) actions with a second statement (prepare, execute, long data, close) next to it, each ending at a packet boundary and two bytes into a header; query / prepare / init-db / USE texts with a multi-byte character at every byte offset 0..12, whole, cut inside the character, and behind a stray continuation byte; an SSL request (to a shim that offers TLS) followed by anything but a TLS handshake: every 1- (thorough: 2-) byte string, TLS record headers of every content type / version / length class with partial bodies, a plaintext handshake response, a recorded ClientHello with every byte damaged five ways and every truncation - the shim must never be reached. Oracle: run_on returns (Ok or Err) without panicking and within 200000 transport operations; flushed output is well-framed. Non-trivial = input differs from a valid conversation.".into(),
        assumptions: vec![
            "random bytes are not used as a deciding step (sampling is outside this family)".into(),
            "the shim iterates all parameters and reads them with into_inner(); the panicking From<Value> conversions are the shim author's calls, not run_on's".into(),
        ],
        bounds: json!({"raw_len": if quick {5} else {7}, "framed_len": if quick {2} else {3}, "op_budget": 200000}),
        exhaustive: true,
        caps_hit: vec![],
        families,
        required: vec!["builtin_tails", "long_multibyte_texts", "wide_statements", "handshake_tail_cases", "utf8_texts", "lifecycle_inputs", "tls_garbage_cases", "length_prefix_cases", "large_inputs", "outcome_ok", "outcome_err", "executes_reaching_the_shim", "sequence_id_mutations", "length_field_mutations", "out_of_order_fragments", "block_prefixes"],
    }
}
