//! vcheck — bounded exhaustive exploration of the real msql-srv implementation.
//! usage: vcheck <ID> <quick|thorough>      |      vcheck <ID> replay <file>

mod conv;
mod engine;
mod props;
mod refwire;
mod second;
mod shim;
mod sim;
mod tlsutil;

fn main() {
    let args: Vec<String> = std::env::args().collect();
    if args.len() < 3 {
        eprintln!("usage: vcheck <ID> <quick|thorough> | vcheck <ID> replay <file>");
        std::process::exit(2);
    }
    engine::install_panic_hook();
    engine::learn_unoffered_caps();
    let id = args[1].as_str();
    let seed: i64 = std::env::var("VERIF_SEED").ok().and_then(|s| s.parse().ok()).unwrap_or(0);
    let code = if args[2] == "replay" {
        let file = args.get(3).expect("replay needs a file");
        let txt = std::fs::read_to_string(file).expect("cannot read replay file");
        let j: serde_json::Value = serde_json::from_str(&txt).expect("replay file is not JSON");
        let tier = j["tier"].as_str().unwrap_or("quick").to_string();
        match props::build(id, &tier) {
            Some(c) => engine::replay(c, file),
            None => {
                eprintln!("unknown property {}", id);
                2
            }
        }
    } else if args.get(3).map(|s| s.as_str()) == Some("--range") {
        let tier = args[2].as_str();
        let n = |i: usize| args.get(i).and_then(|s| s.parse::<u64>().ok()).expect("--range <family> <lo> <hi>");
        match props::build(id, tier) {
            Some(c) => engine::run_range(&c, n(4) as usize, n(5), n(6)),
            None => 2,
        }
    } else if args.get(3).map(|s| s.as_str()) == Some("--find-abort") {
        let tier = args[2].as_str();
        match props::build(id, tier) {
            Some(c) => engine::find_abort(c, tier),
            None => 2,
        }
    } else {
        let tier = args[2].as_str();
        match props::build(id, tier) {
            Some(c) => engine::drive(c, tier, seed),
            None => {
                eprintln!("unknown property {}", id);
                2
            }
        }
    };
    std::process::exit(code);
}
